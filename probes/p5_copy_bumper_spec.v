(* Probe: functional spec of the forward bumper copy loop for EVERY placement d < b <= s (C06/C07 shape) *)
From Coq Require Import List ZArith Lia Bool.
Local Open Scope Z_scope.
Definition byte := Z.
Inductive prog (A:Type) : Type :=
| Ret (a:A) | Load (a:Z) (k: byte -> prog A) | Store (a:Z) (v:byte) (k: prog A) | Handler (code:Z) (k: prog A).
Arguments Ret {A}. Arguments Load {A}. Arguments Store {A}. Arguments Handler {A}.
Fixpoint bind {A B} (p: prog A) (f: A -> prog B) : prog B :=
  match p with Ret a => f a | Load a k => Load a (fun v => bind (k v) f)
  | Store a v k => Store a v (bind k f) | Handler c k => Handler c (bind k f) end.
Definition mem := Z -> byte.
Definition upd (m:mem) a v : mem := fun x => if Z.eqb x a then v else m x.
Fixpoint run {A} (p: prog A) (m: mem) : A * mem :=
  match p with Ret a => (a, m) | Load a k => run (k (m a)) m
  | Store a v k => run k (upd m a v) | Handler c k => run k m end.
Lemma run_bind {A B} (p: prog A) (f: A -> prog B) m : run (bind p f) m = let '(a,m') := run p m in run (f a) m'.
Proof. revert m. induction p as [x|x k IH|x v k IH|c k IH]; cbn; intros; auto. Qed.
Fixpoint zero (n:nat) (p:Z) : prog unit := match n with O => Ret tt | S n' => Store p 0 (zero n' (p+1)) end.
Ltac bdestr := repeat match goal with
  | |- context[Z.leb ?a ?b] => destruct (Z.leb_spec a b)
  | |- context[Z.ltb ?a ?b] => destruct (Z.ltb_spec a b)
  | H: context[Z.leb ?a ?b] |- _ => destruct (Z.leb_spec a b)
  | H: context[Z.ltb ?a ?b] |- _ => destruct (Z.ltb_spec a b) end; cbn [andb].
Lemma zero_spec n : forall p m a, snd (run (zero n p) m) a = if (p <=? a) && (a <? p + Z.of_nat n) then 0 else m a.
Proof. induction n as [|n IH]; intros p m a; cbn [zero run snd].
  - bdestr; auto; lia.
  - rewrite IH. unfold upd. destruct (Z.eqb_spec a p); subst; bdestr; auto; lia. Qed.
Definition ESOVRLP := 404. Definition ESNOSPC := 406. Definition EOK := 0.
Definition handle_error (d:Z) (dmax:nat) (code:Z) : prog Z := bind (zero dmax d) (fun _ => Handler code (Ret code)).
Lemma handle_error_spec d dmax code m : run (handle_error d dmax code) m = (code, snd (run (zero dmax d) m)).
Proof. unfold handle_error. rewrite run_bind. destruct (run (zero dmax d) m); reflexivity. Qed.
Fixpoint copy_fwd (n:nat) (od:Z) (odmax:nat) (d s bumper:Z) : prog Z :=
  match n with
  | O => handle_error od odmax ESNOSPC
  | S n' =>
    if Z.eqb d bumper then handle_error od odmax ESOVRLP else
    Load s (fun c => Store d c (
      if Z.eqb c 0 then bind (zero n d) (fun _ => Ret EOK)
      else copy_fwd n' od odmax (d+1) (s+1) bumper))
  end.
(* the string at s in m has length L *)
Definition str_at (m:mem) (s:Z) (L:nat) := (forall j, 0 <= j < Z.of_nat L -> m (s+j) <> 0) /\ m (s + Z.of_nat L) = 0.
Definition zeroed (m m0:mem) od odmax := forall a, m a = if (od <=? a) && (a <? od + Z.of_nat odmax) then 0 else m0 a.

Theorem copy_fwd_spec n : forall od odmax d s b m L,
  d <= b -> b <= s -> str_at m s L ->
  let '(r, m') := run (copy_fwd n od odmax d s b) m in
  (* A: fits and the bumper is not reached: exact copy, slack zero, nothing below d touched *)
  ((Z.of_nat L < Z.of_nat n /\ d + Z.of_nat L < b) -> r = EOK /\
      (forall j, 0 <= j <= Z.of_nat L -> m' (d+j) = m (s+j)) /\
      (forall j, Z.of_nat L < j < Z.of_nat n -> m' (d+j) = 0) /\
      (forall a, a < d \/ d + Z.of_nat n <= a -> m' a = m a)) /\
  (* B: bumper reached first *)
  ((b - d <= Z.of_nat L /\ b - d < Z.of_nat n) -> r = ESOVRLP /\ exists mi, zeroed m' mi od odmax) /\
  (* C: no space *)
  ((Z.of_nat n <= Z.of_nat L /\ Z.of_nat n <= b - d) -> r = ESNOSPC /\ exists mi, zeroed m' mi od odmax).
Proof.
  induction n as [|n IH]; intros od odmax d s b m L Hdb Hbs [Hnz Hz]; cbn [copy_fwd].
  - rewrite handle_error_spec. repeat split; try lia.
    exists m. intros a. apply zero_spec.
  - destruct (Z.eqb_spec d b) as [->|Hne].
    + rewrite handle_error_spec. repeat split; try lia.
      exists m. intros a. apply zero_spec.
    + cbn [run]. destruct (Z.eqb_spec (m s) 0) as [Hc|Hc].
      * (* terminator: L = 0 *)
        assert (L = O) as -> by (destruct L; auto; exfalso; apply (Hnz 0); [lia| now rewrite Z.add_0_r]).
        rewrite run_bind. destruct (run (zero (S n) d) (upd m d (m s))) as [u m1] eqn:E. cbn [run].
        assert (Hm1: forall a, m1 a = if (d <=? a) && (a <? d + Z.of_nat (S n)) then 0 else upd m d (m s) a).
        { intros a. change m1 with (snd (u, m1)). rewrite <- E. apply zero_spec. }
        repeat split; try lia.
        -- intros j Hj. assert (j = 0) by lia. subst. rewrite Hm1, !Z.add_0_r.
           bdestr; auto; lia.
        -- intros j Hj. rewrite Hm1. bdestr; auto; lia.
        -- intros a Ha. rewrite Hm1. unfold upd.
           destruct (Z.eqb_spec a d); bdestr; auto; lia.
      * (* ordinary char: recurse *)
        destruct L as [|L]; [exfalso; apply Hc; rewrite <- Hz; f_equal; cbn; lia|].
        set (m1 := upd m d (m s)).
        assert (Hs1: str_at m1 (s+1) L).
        { split.
          - intros j Hj. unfold m1, upd. destruct (Z.eqb_spec (s+1+j) d); [lia|].
            replace (s+1+j) with (s+(j+1)) by lia. apply Hnz. lia.
          - unfold m1, upd. destruct (Z.eqb_spec (s+1+Z.of_nat L) d); [lia|].
            replace (s+1+Z.of_nat L) with (s+Z.of_nat (S L)) by lia. exact Hz. }
        specialize (IH od odmax (d+1) (s+1) b m1 L ltac:(lia) ltac:(lia) Hs1).
        destruct (run (copy_fwd n od odmax (d+1) (s+1) b) m1) as [r m'].
        destruct IH as (IA & IB & IC).
        split; [|split].
        -- intros [H1 H2]. destruct IA as (R & P1 & P2 & P3); [lia|]. split; [exact R|]. repeat split.
           ++ intros j Hj. destruct (Z.eq_dec j 0) as [->|Hj0].
              ** rewrite Z.add_0_r. rewrite P3 by lia. unfold m1, upd. rewrite Z.eqb_refl. now rewrite Z.add_0_r.
              ** replace (d+j) with (d+1+(j-1)) by lia. rewrite P1 by lia. unfold m1, upd.
                 destruct (Z.eqb_spec (s+1+(j-1)) d); [lia|]. f_equal. lia.
           ++ intros j Hj. replace (d+j) with (d+1+(j-1)) by lia. apply P2. lia.
           ++ intros a Ha. rewrite P3 by lia. unfold m1, upd. destruct (Z.eqb_spec a d); [lia|auto].
        -- intros [H1 H2]. apply IB. lia.
        -- intros [H1 H2]. apply IC. lia.
Qed.
Print Assumptions copy_fwd_spec.
