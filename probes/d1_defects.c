#define _GNU_SOURCE
#include <stdio.h>
#include <string.h>
#include <wchar.h>
#include <sys/mman.h>
#include <signal.h>
#include <setjmp.h>
#include "safe_str_lib.h"
#include "safe_mem_lib.h"
#include "safe_lib.h"
static int hcount; static int hcodes[8];
static void H(const char*m, void*p, errno_t e){ if(hcount<8) hcodes[hcount]=e; hcount++; }
static sigjmp_buf jb; static void segv(int s, siginfo_t*si, void*u){ siglongjmp(jb,1);} 
int main(){
  set_str_constraint_handler_s(H); set_mem_constraint_handler_s(H);
  struct sigaction sa; memset(&sa,0,sizeof sa); sa.sa_sigaction=segv; sa.sa_flags=SA_SIGINFO|SA_NODEFER; sigaction(SIGSEGV,&sa,0);
  char *pg = mmap(0, 8192, PROT_READ|PROT_WRITE, MAP_PRIVATE|MAP_ANONYMOUS, -1, 0); mprotect(pg+4096,4096,PROT_NONE);
  /* 1 strnlen_s unterminated flush */
  char *s = pg+4096-4; memcpy(s,"abcd",4);
  if(!sigsetjmp(jb,1)){ rsize_t r=_strnlen_s_chk(s,4,BOS_UNKNOWN); printf("strnlen_s flush: %zu no fault\n",r);} else printf("strnlen_s flush: FAULT (reads str[smax])\n");
  /* 2 sprintf_s exact */
  char d[8]; memset(d,'x',8); hcount=0; int rc=_sprintf_s_chk(d,4,BOS_UNKNOWN,"%s","abcd"); printf("sprintf_s dmax=4 'abcd': rc=%d dest='%.8s' h=%d\n",rc,d,hcount);
  /* 4 stpncpy_s */
  char d2[16]; errno_t err; memset(d2,'x',16); char*e=_stpncpy_s_chk(d2,16,"abcdef",3,&err,BOS_UNKNOWN,BOS_UNKNOWN); printf("stpncpy_s slen=3: err=%d dest='%s' ret-off=%ld\n",err,d2,e?(long)(e-d2):-1);
  /* stpcpy_s end pointer */
  memset(d2,'x',16); e=_stpcpy_s_chk(d2,16,"abc",&err,BOS_UNKNOWN,BOS_UNKNOWN); printf("stpcpy_s dmax=16: ret-off=%ld (expect 3)\n", e?(long)(e-d2):-1);
  /* 5 memccpy_s c='c' */
  memset(d2,'x',16); rc=_memccpy_s_chk(d2,16,"abcdef",'c',6,BOS_UNKNOWN,BOS_UNKNOWN); printf("memccpy_s c='c': rc=%d dest=%02x %02x %02x %02x %02x\n",rc,d2[0],d2[1],d2[2],d2[3],d2[4]);
  /* 6 %n */
  int n1=-7,n2=-7; int v; hcount=0; rc=sscanf_s("12","%d%%%n",&v,&n1); printf("sscanf_s %%d%%%%%%n: rc=%d n=%d h=%d\n",rc,n1,hcount);
  hcount=0; long ln=-7; wchar_t wd[16]; rc=_swprintf_s_chk(wd,16,BOS_UNKNOWN,L"ab%ln",&ln); printf("swprintf_s %%ln: rc=%d n=%ld h=%d\n",rc,ln,hcount);
  hcount=0; n2=-7; rc=_sprintf_s_chk(d2,16,BOS_UNKNOWN,"ab%%%n",&n2); printf("sprintf_s %%%%%%n: rc=%d n=%d h=%d\n",rc,n2,hcount);
  /* 7 handler twice */
  hcount=0; memset(d2,'x',16); d2[15]=0; rc=_strncpy_s_chk(d2,16,"abc",10,BOS_UNKNOWN,4); printf("strncpy_s slen>srcbos destbos unknown: rc=%d h=%d codes=%d,%d dest0=%02x\n",rc,hcount,hcodes[0],hcodes[1],d2[0]);
  /* memset_s with destbos>dmax */
  char big[32]; memset(big,'x',32); hcount=0; rc=_memset_s_chk(big,4,'A',10,32); printf("memset_s dmax=4 n=10 bos=32: rc=%d h=%d big[9]=%c\n",rc,hcount,big[9]);
  /* mbstowcs_s len>dmax */
  wchar_t w4[8]; for(int i=0;i<8;i++) w4[i]=0x7777; size_t rv; hcount=0; rc=_mbstowcs_s_chk(&rv,w4,2,"abcdef",6,BOS_UNKNOWN); printf("mbstowcs_s dmax=2 len=6: rc=%d w4[2..5]=%x %x %x %x\n",rc,w4[2],w4[3],w4[4],w4[5]);
  return 0;}
