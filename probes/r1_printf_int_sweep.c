#define _GNU_SOURCE
#include <stdio.h>
#include <stdlib.h>
#include <string.h>
#include <limits.h>
#include <stdint.h>
#include "safe_str_lib.h"
static void H(const char*m, void*p, errno_t e){}
static unsigned long long rs=88172645463325252ULL; static unsigned rnd(void){ rs^=rs<<13; rs^=rs>>7; rs^=rs<<17; return (unsigned)(rs>>11);} 
int main(int argc,char**argv){
  set_str_constraint_handler_s(H);
  const char *flagsets[]={"","-","0","+"," ","#","-0","+0","#0","-#","+ ","0 ","-+","#-0+ "};
  const char convs[]="diuxXoc";
  const char *lens[]={"","hh","h","l","ll","z","j","t"};
  long long vals[]={0,1,-1,7,-7,42,255,256,-128,127,32767,-32768,65535,INT_MAX,INT_MIN,UINT_MAX,LONG_MAX,LONG_MIN,123456789012LL,-123456789012LL};
  int widths[]={-1,0,1,2,3,5,8,10,12,20,21};
  int precs[]={-1,0,1,2,3,5,8,10,12,20,21};
  int total=0,bad=0; char seen[4000][40]; int nseen=0;
  for(int fi=0;fi<14;fi++) for(int wi=0;wi<11;wi++) for(int pi=0;pi<11;pi++) for(int li=0;li<8;li++) for(int ci=0;ci<7;ci++) for(int vi=0;vi<20;vi++){
    char fmt[64]; char w[16]="",p[16]="";
    if(widths[wi]>=0) sprintf(w,"%d",widths[wi]); if(precs[pi]>=0) sprintf(p,".%d",precs[pi]);
    char c=convs[ci]; if(c=='c' && (li!=0 || precs[pi]>=0 || strchr(flagsets[fi],'0')||strchr(flagsets[fi],'#')||strchr(flagsets[fi],'+')||strchr(flagsets[fi],' '))) continue;
    if(widths[wi]==0 && strchr(flagsets[fi],'0')==NULL && 0) continue;
    sprintf(fmt,"%%%s%s%s%s%c",flagsets[fi],w,p,lens[li],c);
    char a[256],b[256]; memset(a,0,256); memset(b,0,256); long long v=vals[vi]; int ra,rb;
    if(c=='c'){ v = 'A'+(vi%26); }
    #define CALL(buf,fn,...) 
    switch(li){
      case 0: case 1: case 2: ra=_snprintf_s_chk(a,200,(size_t)-1,fmt,(int)v); rb=snprintf(b,200,fmt,(int)v); break;
      case 3: case 5: case 6: case 7: ra=_snprintf_s_chk(a,200,(size_t)-1,fmt,(long)v); rb=snprintf(b,200,fmt,(long)v); break;
      default: ra=_snprintf_s_chk(a,200,(size_t)-1,fmt,(long long)v); rb=snprintf(b,200,fmt,(long long)v); break; }
    total++;
    if(ra!=rb || strcmp(a,b)){ bad++;
      /* classify: flags|w class|p class|conv */
      char key[40]; snprintf(key,40,"%s|w%s|p%s|%s|%c|%s",flagsets[fi], widths[wi]<0?"-":widths[wi]>32?">32":widths[wi]==32?"32":"s", precs[pi]<0?"-":precs[pi]>32?">32":precs[pi]==32?"32":precs[pi]==0?"0":"s", lens[li], c, v==0?"z":v<0?"neg":"pos");
      int k; for(k=0;k<nseen;k++) if(!strcmp(seen[k],key)) break;
      if(k==nseen && nseen<4000){ strcpy(seen[nseen++],key); if(nseen<=60) printf("MISMATCH %-28s fmt=%-14s v=%lld safec=[%s](%d) libc=[%s](%d)\n",key,fmt,v,a,ra,b,rb);} }
  }
  printf("total=%d bad=%d classes=%d\n",total,bad,nseen);
  return 0;}
