#include <stdio.h>
#include <string.h>
#include "safe_str_lib.h"
int main(){
  char s[16]="a,b"; rsize_t dmax=16; char *ptr=NULL; char *t;
  t=strtok_s(s,&dmax,",",&ptr); printf("1 %s dmax=%zu ptr=%ld\n",t?t:"(null)",dmax,ptr?(long)(ptr-s):-1);
  for(int i=0;i<4;i++){ t=strtok_s(NULL,&dmax,",",&ptr); printf("n %s dmax=%zu ptr=%ld\n",t?t:"(null)",dmax,ptr?(long)(ptr-s):-1);}
  return 0;}
