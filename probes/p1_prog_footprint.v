From Coq Require Import List ZArith Lia Bool.
Import ListNotations.
Local Open Scope Z_scope.

Definition byte := Z.
Inductive ev := ELoad (a:Z) | EStore (a:Z) (v:byte) | EHandler (code:Z).

Inductive prog (A:Type) : Type :=
| Ret (a:A)
| Load (a:Z) (k: byte -> prog A)
| Store (a:Z) (v:byte) (k: prog A)
| Handler (code:Z) (k: prog A).
Arguments Ret {A}. Arguments Load {A}. Arguments Store {A}. Arguments Handler {A}.

Fixpoint bind {A B} (p: prog A) (f: A -> prog B) : prog B :=
  match p with
  | Ret a => f a
  | Load a k => Load a (fun v => bind (k v) f)
  | Store a v k => Store a v (bind k f)
  | Handler c k => Handler c (bind k f)
  end.
Notation "x <- p ;; q" := (bind p (fun x => q)) (at level 61, p at next level, right associativity).

Definition mem := Z -> byte.
Definition upd (m:mem) a v : mem := fun x => if Z.eqb x a then v else m x.

Fixpoint run {A} (p: prog A) (m: mem) (tr: list ev) : A * mem * list ev :=
  match p with
  | Ret a => (a, m, tr)
  | Load a k => run (k (m a)) m (ELoad a :: tr)
  | Store a v k => run k (upd m a v) (EStore a v :: tr)
  | Handler c k => run k m (EHandler c :: tr)
  end.

(* all loads within R, for every possible loaded value *)
Fixpoint loads_in {A} (R: Z -> Prop) (p: prog A) : Prop :=
  match p with
  | Ret _ => True
  | Load a k => R a /\ forall v, loads_in R (k v)
  | Store _ _ k => loads_in R k
  | Handler _ k => loads_in R k
  end.

(* strnlen_s as in the C code: reads *str BEFORE testing smax *)
Fixpoint strnlen_bad (n:nat) (p:Z) (cnt:Z) : prog Z :=
  Load p (fun c =>
   if Z.eqb c 0 then Ret cnt else
   match n with
   | O => Ret cnt
   | S n' => strnlen_bad n' (p+1) (cnt+1)
   end).
(* fixed order *)
Fixpoint strnlen_ok (n:nat) (p:Z) (cnt:Z) : prog Z :=
  match n with
  | O => Ret cnt
  | S n' => Load p (fun c => if Z.eqb c 0 then Ret cnt else strnlen_ok n' (p+1) (cnt+1))
  end.

Lemma strnlen_ok_loads n : forall p cnt, loads_in (fun a => p <= a < p + Z.of_nat n) (strnlen_ok n p cnt).
Proof.
  induction n as [|n IH]; intros p cnt; cbn [strnlen_ok loads_in]; [exact I|].
  split; [lia|]. intros v. destruct (Z.eqb v 0); cbn [loads_in]; [exact I|].
  specialize (IH (p+1) (cnt+1)).
  revert IH. generalize (strnlen_ok n (p+1) (cnt+1)). intros q.
  induction q; cbn [loads_in]; intuition; try lia.
Qed.

Example bad_refuted : ~ loads_in (fun a => 100 <= a < 100 + 2) (strnlen_bad 2 100 0).
Proof. cbn. intros H. destruct H as [_ H]. specialize (H 1). cbn in H. destruct H as [_ H]. specialize (H 1). cbn in H. lia. Qed.

Definition m0 : mem := fun a => if (100 <=? a) && (a <? 103) then 65 else 0.
Eval vm_compute in (let '(r,_,tr) := run (strnlen_bad 3 100 0) m0 [] in (r, tr)).
Require Extraction. Require Import ExtrOcamlBasic.
Extraction "probe.ml" run strnlen_bad strnlen_ok.
