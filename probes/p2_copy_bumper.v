From Coq Require Import List ZArith Lia Bool.
Import ListNotations.
Local Open Scope Z_scope.

Definition byte := Z.
Inductive ev := ELoad (a:Z) | EStore (a:Z) (v:byte) | EHandler (code:Z).
Inductive prog (A:Type) : Type :=
| Ret (a:A) | Load (a:Z) (k: byte -> prog A) | Store (a:Z) (v:byte) (k: prog A) | Handler (code:Z) (k: prog A).
Arguments Ret {A}. Arguments Load {A}. Arguments Store {A}. Arguments Handler {A}.
Fixpoint bind {A B} (p: prog A) (f: A -> prog B) : prog B :=
  match p with
  | Ret a => f a | Load a k => Load a (fun v => bind (k v) f)
  | Store a v k => Store a v (bind k f) | Handler c k => Handler c (bind k f) end.
Definition mem := Z -> byte.
Definition upd (m:mem) a v : mem := fun x => if Z.eqb x a then v else m x.
Fixpoint run {A} (p: prog A) (m: mem) : A * mem :=
  match p with
  | Ret a => (a, m) | Load a k => run (k (m a)) m
  | Store a v k => run k (upd m a v) | Handler c k => run k m end.
Fixpoint stores_in {A} (P: Z -> Prop) (p: prog A) : Prop :=
  match p with
  | Ret _ => True | Load a k => forall v, stores_in P (k v)
  | Store a _ k => P a /\ stores_in P k | Handler _ k => stores_in P k end.
Lemma stores_in_weaken {A} (P Q: Z->Prop) (p: prog A) : (forall a, P a -> Q a) -> stores_in P p -> stores_in Q p.
Proof. intros HPQ. induction p as [a|a k IH|a v k IH|c k IH]; cbn; auto. intros [H1 H2]; auto. Qed.
Lemma stores_in_bind {A B} P (p: prog A) (f: A -> prog B) :
  stores_in P p -> (forall a, stores_in P (f a)) -> stores_in P (bind p f).
Proof. intros Hp Hf. induction p as [a|a k IH|a v k IH|c k IH]; cbn in *; auto. destruct Hp; split; auto. Qed.
Lemma run_frame {A} P (p: prog A) : stores_in P p -> forall m a, ~ P a -> snd (run p m) a = m a.
Proof. induction p as [x|x k IH|x v k IH|c k IH]; cbn; intros Hs m a Hn; auto.
  destruct Hs as [Hx Hs]. rewrite IH by auto. unfold upd. destruct (Z.eqb_spec a x); subst; tauto. Qed.

(* zero n bytes from p *)
Fixpoint zero (n:nat) (p:Z) : prog unit :=
  match n with O => Ret tt | S n' => Store p 0 (zero n' (p+1)) end.
Lemma zero_stores n : forall p, stores_in (fun a => p <= a < p + Z.of_nat n) (zero n p).
Proof. induction n as [|n IH]; intros p; cbn [zero stores_in]; auto. split; [lia|].
  eapply stores_in_weaken; [|apply IH]. cbn; intros; lia. Qed.

Definition ESOVRLP := 404. Definition ESNOSPC := 406. Definition EOK := 0.
Definition handle_error (d:Z) (dmax:nat) (code:Z) : prog Z :=
  bind (zero dmax d) (fun _ => Handler code (Ret code)).

(* forward copy with bumper, dest < src; n = remaining dmax *)
Fixpoint copy_fwd (n:nat) (od:Z) (odmax:nat) (d s bumper:Z) : prog Z :=
  match n with
  | O => handle_error od odmax ESNOSPC
  | S n' =>
    if Z.eqb d bumper then handle_error od odmax ESOVRLP else
    Load s (fun c => Store d c (
      if Z.eqb c 0 then bind (zero n d) (fun _ => Ret EOK)
      else copy_fwd n' od odmax (d+1) (s+1) bumper))
  end.

Lemma copy_fwd_stores n : forall od odmax d s b,
  od <= d -> d + Z.of_nat n = od + Z.of_nat odmax ->
  stores_in (fun a => od <= a < od + Z.of_nat odmax) (copy_fwd n od odmax d s b).
Proof.
  induction n as [|n IH]; intros od odmax d s b Hd Hn; cbn [copy_fwd].
  - unfold handle_error. apply stores_in_bind; [apply zero_stores| cbn; auto].
  - destruct (Z.eqb d b).
    + unfold handle_error. apply stores_in_bind; [apply zero_stores| cbn; auto].
    + cbn [stores_in]. intros v. split; [lia|].
      destruct (Z.eqb v 0).
      * apply stores_in_bind; [|cbn; auto]. eapply stores_in_weaken; [|apply zero_stores]. cbn; intros; lia.
      * apply IH; lia.
Qed.

(* C03-like: after run, exists NUL in dest[0..dmax) *)
Lemma zero_run n : forall p m a, p <= a < p + Z.of_nat n -> snd (run (zero n p) m) a = 0.
Proof. induction n as [|n IH]; intros p m a Ha; cbn [zero run]. lia.
  destruct (Z.eq_dec a p).
  - subst. rewrite (run_frame (fun x => p+1 <= x < p+1+Z.of_nat n)); [unfold upd; rewrite Z.eqb_refl; auto| apply zero_stores | lia].
  - apply IH. lia. Qed.
Lemma run_bind {A B} (p: prog A) (f: A -> prog B) m : run (bind p f) m = let '(a,m') := run p m in run (f a) m'.
Proof. revert m. induction p as [x|x k IH|x v k IH|c k IH]; cbn; intros; auto. Qed.

Theorem copy_fwd_terminated n : forall od odmax d s b m,
  (0 < odmax)%nat -> od <= d -> d + Z.of_nat n = od + Z.of_nat odmax ->
  exists i, od <= i < od + Z.of_nat odmax /\ snd (run (copy_fwd n od odmax d s b) m) i = 0.
Proof.
  induction n as [|n IH]; intros od odmax d s b m Hpos Hd Hn; cbn [copy_fwd].
  - exists od. split; [lia|]. unfold handle_error. rewrite run_bind.
    destruct (run (zero odmax od) m) as [u m'] eqn:E. cbn. change m' with (snd (u,m')). rewrite <- E. apply zero_run. lia.
  - destruct (Z.eqb d b).
    + exists od. split; [lia|]. unfold handle_error. rewrite run_bind.
      destruct (run (zero odmax od) m) as [u m'] eqn:E. cbn. change m' with (snd (u,m')). rewrite <- E. apply zero_run. lia.
    + cbn [run]. destruct (Z.eqb (m s) 0) eqn:Ec.
      * exists d. split; [lia|]. rewrite run_bind.
        destruct (run (zero (S n) d) (upd m d (m s))) as [u m'] eqn:E. cbn. change m' with (snd (u,m')). rewrite <- E. apply zero_run. lia.
      * apply IH; lia.
Qed.
Print Assumptions copy_fwd_terminated.
