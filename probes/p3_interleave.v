(* Probe: schedule-independence of two free-monad programs with disjoint static footprints *)
From Coq Require Import List ZArith Lia Bool.
Import ListNotations.
Local Open Scope Z_scope.
Definition byte := Z.
Inductive prog (A:Type) : Type :=
| Ret (a:A) | Load (a:Z) (k: byte -> prog A) | Store (a:Z) (v:byte) (k: prog A).
Arguments Ret {A}. Arguments Load {A}. Arguments Store {A}.
Definition mem := Z -> byte.
Definition upd (m:mem) a v : mem := fun x => if Z.eqb x a then v else m x.
Fixpoint run {A} (p: prog A) (m: mem) : A * mem :=
  match p with Ret a => (a, m) | Load a k => run (k (m a)) m | Store a v k => run k (upd m a v) end.
(* one atomic step *)
Definition step {A} (p: prog A) (m: mem) : prog A * mem :=
  match p with Ret a => (Ret a, m) | Load a k => (k (m a), m) | Store a v k => (k, upd m a v) end.
(* schedule: true = run left, false = run right; when schedule is exhausted finish left then right *)
Fixpoint inter {A B} (s: list bool) (p: prog A) (q: prog B) (m: mem) : A * B * mem :=
  match s with
  | [] => let '(a, m1) := run p m in let '(b, m2) := run q m1 in (a, b, m2)
  | true :: s' => let '(p', m') := step p m in inter s' p' q m'
  | false :: s' => let '(q', m') := step q m in inter s' p q' m'
  end.
Fixpoint fp {A} (R W: Z -> Prop) (p: prog A) : Prop :=
  match p with
  | Ret _ => True | Load a k => R a /\ forall v, fp R W (k v) | Store a _ k => W a /\ fp R W k end.
Definition meq (m1 m2: mem) := forall a, m1 a = m2 a.
Lemma run_meq {A} (p: prog A) : forall m1 m2, meq m1 m2 -> fst (run p m1) = fst (run p m2) /\ meq (snd (run p m1)) (snd (run p m2)).
Proof. induction p as [a|a k IH|a v k IH]; cbn; intros m1 m2 H; auto.
  - rewrite (H a). apply IH; auto.
  - apply IH. intros x. unfold upd. destruct (Z.eqb x a); auto. Qed.
Lemma upd_comm m a v b w : a <> b -> meq (upd (upd m a v) b w) (upd (upd m b w) a v).
Proof. intros Hab x. unfold upd. destruct (Z.eqb_spec x b), (Z.eqb_spec x a); subst; congruence. Qed.

(* key: a step of q commutes with a full run of p when footprints are disjoint *)
Definition disj (Rp Wp Rq Wq : Z -> Prop) := forall a, (Wp a -> ~ Rq a /\ ~ Wq a) /\ (Wq a -> ~ Rp a).
Lemma run_store_comm {A} Rp Wp (p: prog A) : fp Rp Wp p -> forall m b w, ~ Rp b -> ~ Wp b ->
  fst (run p (upd m b w)) = fst (run p m) /\ meq (snd (run p (upd m b w))) (upd (snd (run p m)) b w).
Proof. induction p as [a|a k IH|a v k IH]; cbn; intros Hf m b w HR HW.
  - split; auto. intros x; auto.
  - destruct Hf as [Ha Hf]. assert (a <> b) by (intro; subst; tauto).
    unfold upd at 1 3. destruct (Z.eqb_spec a b); [tauto|]. apply IH; auto.
  - destruct Hf as [Ha Hf]. assert (a <> b) by (intro; subst; tauto).
    destruct (IH Hf (upd m a v) b w HR HW) as [E1 E2].
    destruct (run_meq k (upd (upd m b w) a v) (upd (upd m a v) b w)) as [F1 F2].
    { apply upd_comm; auto. }
    split; [congruence|]. intros x. rewrite F2. apply E2. Qed.

Theorem inter_seq {A B} Rp Wp Rq Wq (s: list bool) : forall (p: prog A) (q: prog B) m,
  disj Rp Wp Rq Wq -> fp Rp Wp p -> fp Rq Wq q ->
  let '(a, b, m') := inter s p q m in
  let '(a0, m1) := run p m in let '(b0, m2) := run q m1 in
  a = a0 /\ b = b0 /\ meq m' m2.
Proof.
  induction s as [|c s IH]; intros p q m D Hp Hq.
  - cbn. destruct (run p m) as [a m1]. destruct (run q m1) as [b m2]. repeat split; intros x; auto.
  - destruct c; cbn [inter].
    + (* step left: run p = run after step *)
      destruct p as [a|a k|a v k]; cbn [step].
      * apply (IH (Ret a) q m D Hp Hq).
      * cbn in Hp. destruct Hp as [_ Hp]. specialize (IH (k (m a)) q m D (Hp _) Hq). cbn [run]. exact IH.
      * cbn in Hp. destruct Hp as [_ Hp]. specialize (IH k q (upd m a v) D Hp Hq). cbn [run]. exact IH.
    + (* step right: commute q's step before p's run *)
      destruct q as [b|b k|b w k]; cbn [step].
      * apply (IH p (Ret b) m D Hp Hq).
      * cbn in Hq. destruct Hq as [Hb Hq]. specialize (IH p (k (m b)) m D Hp (Hq _)).
        destruct (inter s p (k (m b)) m) as [[a1 b1] m']. destruct (run p m) as [a0 m1] eqn:Ep. cbn [run].
        (* p does not write b, so m1 b = m b *)
        assert (Hmb: m1 b = m b).
        { clear IH. assert (G: forall (pp: prog A) mm, fp Rp Wp pp -> snd (run pp mm) b = mm b).
          { induction pp as [x|x kk IHp|x vv kk IHp]; cbn; intros mm Hf; auto.
            - destruct Hf; auto. - destruct Hf as [Hx Hf]. rewrite IHp by auto. unfold upd.
              destruct (Z.eqb_spec b x); auto. subst. destruct (D x) as [D1 _]. destruct (D1 Hx); tauto. }
          specialize (G p m Hp). rewrite Ep in G. exact G. }
        rewrite Hmb. exact IH.
      * cbn in Hq. destruct Hq as [Hb Hq]. specialize (IH p k (upd m b w) D Hp Hq).
        destruct (inter s p k (upd m b w)) as [[a1 b1] m'].
        destruct (D b) as [_ D2]. specialize (D2 Hb).
        assert (HnW: ~ Wp b). { intro Hw. destruct (D b) as [D1 _]. destruct (D1 Hw); tauto. }
        destruct (run_store_comm Rp Wp p Hp m b w D2 HnW) as [E1 E2].
        destruct (run p (upd m b w)) as [a2 m3]. destruct (run p m) as [a0 m1]. cbn [fst snd] in *. cbn [run].
        destruct (run_meq k m3 (upd m1 b w) E2) as [F1 F2].
        destruct (run k m3) as [b2 m4]. destruct (run k (upd m1 b w)) as [b0 m2]. cbn [fst snd] in *.
        destruct IH as (I1 & I2 & I3). subst. repeat split; auto. intros x. rewrite I3. apply F2.
Qed.
Print Assumptions inter_seq.
