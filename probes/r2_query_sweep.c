#define _GNU_SOURCE
#include <stdio.h>
#include <stdlib.h>
#include <string.h>
#include <sys/mman.h>
#include <signal.h>
#include <setjmp.h>
#include "safe_str_lib.h"
#include "safe_mem_lib.h"
static int hcount; static void H(const char*m, void*p, errno_t e){ hcount++; }
static sigjmp_buf jb; static void segv(int s, siginfo_t*si, void*u){ siglongjmp(jb,1);} 
static char *pgA,*pgB;
static const unsigned char alpha[]={'a','A','b','1',0x80};
#define NA 5
static int sgn(int x){return x<0?-1:x>0?1:0;}
static int cnt[32]; static const char*names[32]; static int nn;
static void rep(int id,const char*name,const char*fmt,...){ names[id]=name; if(cnt[id]++<3){ printf("%-14s ",name); va_list ap; va_start(ap,fmt); vprintf(fmt,ap); va_end(ap); printf("\n"); } }
#include <stdarg.h>
int main(){
  set_str_constraint_handler_s(H); set_mem_constraint_handler_s(H);
  struct sigaction sa; memset(&sa,0,sizeof sa); sa.sa_sigaction=segv; sa.sa_flags=SA_SIGINFO|SA_NODEFER; sigaction(SIGSEGV,&sa,0);
  pgA = mmap(0, 8192, PROT_READ|PROT_WRITE, MAP_PRIVATE|MAP_ANONYMOUS, -1, 0); mprotect(pgA+4096,4096,PROT_NONE);
  pgB = mmap(0, 8192, PROT_READ|PROT_WRITE, MAP_PRIVATE|MAP_ANONYMOUS, -1, 0); mprotect(pgB+4096,4096,PROT_NONE);
  /* enumerate strings a (len la<=3) terminated, placed flush (terminator is last byte before guard) */
  for(int la=0;la<=3;la++) for(int ia=0;ia<(la==0?1:la==1?NA:la==2?NA*NA:NA*NA*NA);ia++)
  for(int lb=0;lb<=3;lb++) for(int ib=0;ib<(lb==0?1:lb==1?NA:lb==2?NA*NA:NA*NA*NA);ib++){
    char sa_[8],sb_[8]; int t=ia; for(int i=0;i<la;i++){sa_[i]=alpha[t%NA]; t/=NA;} sa_[la]=0; t=ib; for(int i=0;i<lb;i++){sb_[i]=alpha[t%NA]; t/=NA;} sb_[lb]=0;
    char *a=pgA+4096-(la+1); memcpy(a,sa_,la+1); char *b=pgB+4096-(lb+1); memcpy(b,sb_,lb+1);
    int r; errno_t rc; char*p; rsize_t c;
    /* strcmp_s with dmax = la+1 */
    if(!sigsetjmp(jb,1)){ rc=_strcmp_s_chk(a,la+1,b,&r,BOS_UNKNOWN,BOS_UNKNOWN); if(rc==0 && sgn(r)!=sgn(strcmp(a,b))) rep(0,"strcmp_s","a=%s b=%s got %d want sign %d",a,b,r,sgn(strcmp(a,b))); } else rep(1,"strcmp_s","FAULT a=%s b=%s",sa_,sb_);
    if(!sigsetjmp(jb,1)){ rc=_strcasecmp_s_chk(a,la+1,b,&r,BOS_UNKNOWN); if(rc==0 && sgn(r)!=sgn(strcasecmp(a,b))) rep(2,"strcasecmp_s","a=%s b=%s got %d want sign %d",a,b,r,sgn(strcasecmp(a,b))); } else rep(3,"strcasecmp_s","FAULT");
    if(lb>0){ if(!sigsetjmp(jb,1)){ rc=_strstr_s_chk(a,la+1,b,lb+1,&p,BOS_UNKNOWN,BOS_UNKNOWN); char*w=strstr(a,b); if((rc==0?p:NULL)!=w) rep(4,"strstr_s","a=%s b=%s rc=%d got %ld want %ld",a,b,rc,p?(long)(p-a):-1,w?(long)(w-a):-1);} else rep(5,"strstr_s","FAULT a=%s b=%s",sa_,sb_);
      if(!sigsetjmp(jb,1)){ rc=_strspn_s_chk(a,la+1,b,lb+1,&c,BOS_UNKNOWN,BOS_UNKNOWN); if(rc==0 && c!=strspn(a,b)) rep(6,"strspn_s","a=%s b=%s got %zu want %zu",a,b,c,strspn(a,b)); } else rep(7,"strspn_s","FAULT");
      if(!sigsetjmp(jb,1)){ rc=_strcspn_s_chk(a,la+1,b,lb+1,&c,BOS_UNKNOWN,BOS_UNKNOWN); if(rc==0 && c!=strcspn(a,b)) rep(8,"strcspn_s","a=%s b=%s got %zu want %zu",a,b,c,strcspn(a,b)); } else rep(9,"strcspn_s","FAULT");
      if(!sigsetjmp(jb,1)){ rc=_strpbrk_s_chk(a,la+1,b,lb+1,&p,BOS_UNKNOWN,BOS_UNKNOWN); char*w=strpbrk(a,b); if((rc==0?p:NULL)!=w) rep(10,"strpbrk_s","a=%s b=%s rc=%d got %ld want %ld",a,b,rc,p?(long)(p-a):-1,w?(long)(w-a):-1);} else rep(11,"strpbrk_s","FAULT a=%s b=%s",sa_,sb_);
      if(!sigsetjmp(jb,1)){ rc=_strprefix_s_chk(a,la+1,b,BOS_UNKNOWN); int w=strncmp(a,b,lb)==0; if((rc==0)!=w) rep(12,"strprefix_s","a=%s b=%s rc=%d want %d",a,b,rc,w);} else rep(13,"strprefix_s","FAULT");
    }
    if(lb==1){ int ch=(unsigned char)sb_[0];
      if(!sigsetjmp(jb,1)){ rc=_strchr_s_chk(a,la+1,ch,&p,BOS_UNKNOWN); char*w=strchr(a,ch); if((rc==0?p:NULL)!=w) rep(14,"strchr_s","a=%s ch=%02x rc=%d got %ld want %ld",a,ch,rc,p?(long)(p-a):-1,w?(long)(w-a):-1);} else rep(15,"strchr_s","FAULT");
      if(!sigsetjmp(jb,1)){ rc=_strrchr_s_chk(a,la+1,ch,&p,BOS_UNKNOWN); char*w=strrchr(a,ch); if((rc==0?p:NULL)!=w) rep(16,"strrchr_s","a=%s ch=%02x rc=%d got %ld want %ld",a,ch,rc,p?(long)(p-a):-1,w?(long)(w-a):-1);} else rep(17,"strrchr_s","FAULT");
    }
    /* unterminated a: dmax=la exactly, a flush without terminator */
    if(la>0){ char*u=pgA+4096-la; memcpy(u,sa_,la);
      if(!sigsetjmp(jb,1)){ rc=_strcmp_s_chk(u,la,b,&r,BOS_UNKNOWN,BOS_UNKNOWN);} else rep(18,"strcmp_s","FAULT unterminated dest dmax=len");
      if(lb>0){ if(!sigsetjmp(jb,1)){ rc=_strstr_s_chk(u,la,b,lb+1,&p,BOS_UNKNOWN,BOS_UNKNOWN);} else rep(19,"strstr_s","FAULT unterminated dest");
        if(!sigsetjmp(jb,1)){ rc=_strspn_s_chk(u,la,b,lb+1,&c,BOS_UNKNOWN,BOS_UNKNOWN);} else rep(20,"strspn_s","FAULT unterminated dest");
        if(!sigsetjmp(jb,1)){ rc=_strpbrk_s_chk(u,la,b,lb+1,&p,BOS_UNKNOWN,BOS_UNKNOWN);} else rep(21,"strpbrk_s","FAULT unterminated dest"); }
      if(!sigsetjmp(jb,1)){ rc=_strchr_s_chk(u,la,'z',&p,BOS_UNKNOWN);} else rep(22,"strchr_s","FAULT unterminated dest");
      if(!sigsetjmp(jb,1)){ bool bb=_strisdigit_s_chk(u,la,BOS_UNKNOWN);} else rep(23,"strisdigit_s","FAULT unterminated dest");
      if(!sigsetjmp(jb,1)){ rc=_strfirstchar_s_chk(u,la,'z',&p,BOS_UNKNOWN);} else rep(24,"strfirstchar_s","FAULT unterminated dest");
      if(!sigsetjmp(jb,1)){ rc=_strlastchar_s_chk(u,la,'z',&p,BOS_UNKNOWN);} else rep(25,"strlastchar_s","FAULT unterminated dest");
    }
  }
  for(int i=0;i<32;i++) if(cnt[i]) printf("class %d %s: %d cases\n",i,names[i],cnt[i]);
  return 0;}
