#define _GNU_SOURCE
#include <stdio.h>
#include <stdlib.h>
#include <string.h>
#include <wchar.h>
#include <locale.h>
#include <sys/mman.h>
#include <signal.h>
#include <setjmp.h>
#include <unistd.h>
#include "safe_str_lib.h"
#include "safe_mem_lib.h"
#include "safe_lib.h"
static int hcount; static int hcodes[8];
static void H(const char*m, void*p, errno_t e){ if(hcount<8) hcodes[hcount]=e; hcount++; }
static sigjmp_buf jb; static void segv(int s, siginfo_t*si, void*u){ siglongjmp(jb,1);} 
int main(){
  set_str_constraint_handler_s(H); set_mem_constraint_handler_s(H);
  struct sigaction sa; memset(&sa,0,sizeof sa); sa.sa_sigaction=segv; sa.sa_flags=SA_SIGINFO|SA_NODEFER; sigaction(SIGSEGV,&sa,0);
  char *pg = mmap(0, 8192, PROT_READ|PROT_WRITE, MAP_PRIVATE|MAP_ANONYMOUS, -1, 0); mprotect(pg+4096,4096,PROT_NONE);
  int rc; char d[64];
  /* gets_s overflow: feed stdin with long line */
  int fds[2]; pipe(fds); write(fds[1],"abcdefghij\n",11); close(fds[1]); dup2(fds[0],0);
  memset(d,'x',64); hcount=0; char*r=_gets_s_chk(d,4,BOS_UNKNOWN); printf("gets_s dmax=4 long line: ret=%p d[4]=%02x (x=78 means untouched) h=%d\n",(void*)r,(unsigned char)d[4],hcount);
  /* %lc */
  setlocale(LC_ALL,"C.UTF-8");
  memset(d,'x',64); hcount=0; rc=_sprintf_s_chk(d,16,BOS_UNKNOWN,"ab%lc",(wint_t)0x20ac); printf("sprintf_s ab%%lc: rc=%d bytes=%02x %02x %02x %02x %02x %02x\n",rc,(unsigned char)d[0],(unsigned char)d[1],(unsigned char)d[2],(unsigned char)d[3],(unsigned char)d[4],(unsigned char)d[5]);
  memset(d,'x',64); hcount=0; rc=_sprintf_s_chk(d,2,BOS_UNKNOWN,"%lc",(wint_t)0x20ac); printf("sprintf_s dmax=2 %%lc: rc=%d d[2]=%02x d[3]=%02x h=%d\n",rc,(unsigned char)d[2],(unsigned char)d[3],hcount);
  /* wcrtomb_s dmax=2 euro */
  mbstate_t ps; memset(&ps,0,sizeof ps); size_t rv; memset(d,'x',64); hcount=0; rc=_wcrtomb_s_chk(&rv,d,2,0x20ac,&ps,BOS_UNKNOWN); printf("wcrtomb_s dmax=2: rc=%d d[2]=%02x h=%d\n",rc,(unsigned char)d[2],hcount);
  int iv; memset(d,'x',64); hcount=0; rc=_wctomb_s_chk(&iv,d,2,0x20ac,BOS_UNKNOWN); printf("wctomb_s dmax=2: rc=%d d[2]=%02x h=%d\n",rc,(unsigned char)d[2],hcount);
  /* strzero_s flush unterminated */
  char *s = pg+4096-4; memcpy(s,"abcd",4);
  if(!sigsetjmp(jb,1)){ rc=_strzero_s_chk(s,4,BOS_UNKNOWN); printf("strzero_s flush: rc=%d no fault\n",rc);} else printf("strzero_s flush: FAULT\n");
  memcpy(s,"abcd",4);
  if(!sigsetjmp(jb,1)){ rsize_t dm=4; char*p=NULL; char*t=_strtok_s_chk(s,&dm,",",&p,BOS_UNKNOWN); printf("strtok_s flush unterminated: tok=%p no fault\n",(void*)t);} else printf("strtok_s flush unterminated: FAULT\n");
  /* %.2s reading */
  char *s2 = pg+4096-2; memcpy(s2,"ab",2);
  if(!sigsetjmp(jb,1)){ rc=_sprintf_s_chk(d,16,BOS_UNKNOWN,"%.2s",s2); printf("sprintf_s %%.2s flush: rc=%d no fault\n",rc);} else printf("sprintf_s %%.2s flush: FAULT\n");
  /* stpcpy dmax==0 codes */
  errno_t err=0; hcount=0; _stpcpy_s_chk(d,0,"a",&err,BOS_UNKNOWN,BOS_UNKNOWN); printf("stpcpy_s dmax=0: err=%d handler code=%d\n",err,hcodes[0]);
  /* memcpy_s slen>srcbos */
  memset(d,'x',64); hcount=0; rc=_memcpy_s_chk(d,16,"abc",8,BOS_UNKNOWN,4); printf("memcpy_s slen>srcbos: rc=%d d[0]=%02x h=%d\n",rc,(unsigned char)d[0],hcount);
  /* C locale high byte */
  setlocale(LC_ALL,"C"); wchar_t w[4]; size_t n=mbstowcs(w,"\xe9",4); printf("C locale mbstowcs(0xe9) -> %zd w0=%x\n",(ssize_t)n,(unsigned)w[0]);
  /* strcpy_s gray zone */
  char a[32]; memset(a,'x',32); strcpy(a+8,"ab"); hcount=0; rc=_strcpy_s_chk(a,16,a+8,BOS_UNKNOWN); printf("strcpy_s gray zone: rc=%d dest='%s' src now=%02x\n",rc,a,(unsigned char)a[8]);
  return 0;}
