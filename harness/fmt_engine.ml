(* fmt_engine.ml -- C11: runs the extracted printf-engine model.
   line: <id> <func> <slack 0|1> <rmax> <init hex|-> <fmt hex|-> <arg>*   arg: I<int> | S<hex|-> | N *)
open Model
let rec pos_of_int n = if n = 1 then XH else if n land 1 = 0 then XO (pos_of_int (n lsr 1)) else XI (pos_of_int (n lsr 1))
let z_of_int n = if n = 0 then Z0 else if n < 0 then Zneg (pos_of_int (-n)) else Zpos (pos_of_int n)
(* decimal strings beyond 62 bits: via Int64 halves *)
let z_of_string s =
  let neg = String.length s > 0 && s.[0] = '-' in
  let digits = if neg then String.sub s 1 (String.length s - 1) else s in
  let ten = z_of_int 10 in
  let acc = ref Z0 in
  String.iter (fun c -> acc := Z.add (Z.mul !acc ten) (z_of_int (Char.code c - 48))) digits;
  if neg then Z.opp !acc else !acc
let rec int_of_pos = function XH -> 1 | XO p -> 2 * int_of_pos p | XI p -> 2 * int_of_pos p + 1
let int_of_z = function Z0 -> 0 | Zpos p -> int_of_pos p | Zneg p -> - (int_of_pos p)
let bytes_of_hex h = if h = "-" then [] else List.init (String.length h / 2) (fun i -> z_of_int (int_of_string ("0x" ^ String.sub h (2 * i) 2)))
let hex_of l = if l = [] then "-" else String.concat "" (List.map (fun z -> Printf.sprintf "%02x" ((int_of_z z) land 255)) l)
let parse_arg a =
  if a = "N" then ANullStr
  else if a.[0] = 'I' then AInt (z_of_string (String.sub a 1 (String.length a - 1)))
  else AStr (bytes_of_hex (String.sub a 1 (String.length a - 1)))
let () =
  try while true do
    let line = input_line stdin in
    match List.filter (fun x -> x <> "") (String.split_on_char ' ' line) with
    | id :: func :: slack :: rmax :: init :: fmt :: rest ->
      let args = List.map parse_arg rest in
      let fmt = bytes_of_hex fmt in
      if func = "stream" then begin
        let r = stream_m fmt args in
        let text = List.rev r.e_out in
        (match r.e_fin with
         | FOk -> Printf.printf "%s ret=%d h=- out=%s known=1\n" id (List.length text) (hex_of text)
         | FErr (ret, h, _) -> Printf.printf "%s ret=%d h=%s out=%s known=1\n" id (int_of_z ret) (match h with Some c -> string_of_int (int_of_z c) | None -> "-") (hex_of text)
         | FUnmodelled -> Printf.printf "%s known=0\n" id)
      end else begin
        let f = if func = "vsprintf_s" then vsprintf_s_m else vsnprintf_s_m in
        let r = f (slack = "1") (z_of_string rmax) (bytes_of_hex init) fmt args in
        if r.w_known then
          Printf.printf "%s ret=%d h=%s dest=%s known=1\n" id (int_of_z r.w_ret)
            (if r.w_handlers = [] then "-" else String.concat "," (List.map (fun z -> string_of_int (int_of_z z)) r.w_handlers)) (hex_of r.w_dest)
        else Printf.printf "%s known=0\n" id
      end
    | _ -> ()
  done with End_of_file -> ()
