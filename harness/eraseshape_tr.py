#!/usr/bin/env python3
"""translator "eraseshape" (C18, T2): for the erase entry points and the mem_prim_set* primitives of the working
tree, the sequence of erasing actions in program order: volatile stores, plain stores, barriers, calls."""
import re, subprocess, os
ENTRY = [('memset_s', 'src/mem/memset_s.c'), ('memzero_s', 'src/extmem/memzero_s.c'), ('memzero16_s', 'src/extmem/memzero16_s.c'),
         ('memzero32_s', 'src/extmem/memzero32_s.c'), ('memset16_s', 'src/extmem/memset16_s.c'), ('memset32_s', 'src/extmem/memset32_s.c'),
         ('strzero_s', 'src/extstr/strzero_s.c')]
PRIMS = ['mem_prim_set', 'mem_prim_set16', 'mem_prim_set32']
class Unsupported(Exception): pass

def preprocess(repo, incdir, path):
    p = subprocess.run(['gcc', '-E', '-P', '-w', '-DHAVE_CONFIG_H', '-I' + incdir, '-I' + repo, '-I' + repo + '/src', repo + '/' + path], capture_output=True, text=True)
    if p.returncode != 0: raise Unsupported('cannot preprocess ' + path)
    return p.stdout

def body_of(src, name):
    m = re.search(r'\b' + re.escape(name) + r'\s*\([^;{)]*\)\s*\{', src)
    if not m: raise Unsupported('definition of %s not found' % name)
    i = m.end(); depth = 1
    while depth and i < len(src):
        depth += {'{': 1, '}': -1}.get(src[i], 0); i += 1
    return src[m.end():i - 1]

BARRIER = r'(?:_mm_mfence\s*\(\s*\)|__builtin_ia32_mfence\s*\(\s*\)|__sync_synchronize\s*\(\s*\)|__asm__\s+volatile\s*\([^;]*"memory"\s*\))'
def actions(body, volatile_vars=None):
    """scan a function body left to right"""
    vol = set(re.findall(r'volatile\s+\w+\s*\*\s*(\w+)', body))
    nonvol = set(re.findall(r'(?<!volatile\s)\b(?:uint\d+_t|char|unsigned char|wchar_t)\s*\*\s*(\w+)\s*[;=,)]', body)) - vol
    toks = []
    pat = re.compile(r'(?P<bar>' + BARRIER + r')|(?P<call>\b(mem_prim_set(?:16|32)?|explicit_bzero|memset|wmemset|bzero)\s*\()|(?P<store>\*\s*\(?\s*(?P<var>\w+)\s*(?:\+\+)?\s*\)?\s*=[^=])')
    for m in pat.finditer(body):
        if m.group('bar'): toks.append('ABarrier')
        elif m.group('call'):
            f = m.group(3)
            toks.append({'mem_prim_set': 'ACall 0', 'mem_prim_set16': 'ACall 1', 'mem_prim_set32': 'ACall 2', 'explicit_bzero': 'AExplicit'}.get(f, 'AStoreP'))
        else:
            v = m.group('var')
            if v in vol: toks.append('AStoreV')
            else: toks.append('AStoreP')
    # collapse runs of identical store kinds (unrolled loops)
    out = []
    for t in toks:
        if out and out[-1] == t and t.startswith('AStore'): continue
        out.append(t)
    return out

def analyse(repo, incdir):
    prim_src = preprocess(repo, incdir, 'src/mem/mem_primitives_lib.c')
    prims = [(p, actions(body_of(prim_src, p))) for p in PRIMS]
    entries = []
    for name, path in ENTRY:
        src = preprocess(repo, incdir, path)
        entries.append((name, actions(body_of(src, '_%s_chk' % name))))
    return prims, entries

def write_gen(prims, entries, coqdir):
    L = ['(* GENERATED on every run by harness/eraseshape_tr.py from the preprocessed working tree. *)',
         'From Coq Require Import List String.', 'From SC Require Import EraseShape.', 'Import ListNotations.', 'Local Open Scope string_scope.',
         'Definition prim_shapes : list (list act) := [%s].' % '; '.join('[%s]' % '; '.join(a) for _, a in prims),
         'Definition entry_shapes : list (string * list act) := [%s].' % '; '.join('("%s", [%s])' % (n, '; '.join(a)) for n, a in entries)]
    txt = '\n'.join(L) + '\n'
    path = coqdir + '/Gen/EraseShapes.v'
    if not os.path.exists(path) or open(path).read() != txt: open(path, 'w').write(txt)
if __name__ == '__main__':
    p, e = analyse('/repo', '/repo/include')
    for x in p + e: print(x)
