#!/usr/bin/env python3
"""check.py <property-id> [--tier quick|thorough]
Decides one property on /repo's current working tree:
 1. compiles the working tree (needed variants) into a scratch directory;
 2. runs the translators (Gen/*.v) and builds Properties_<id>.vo (full .vo) -> proof obligations;
 3. generates cases, runs implementation and extracted model, compares under the property's projection;
 4. applies the property oracle to every implementation outcome (search for a failing input);
 5. classifies failures against known_findings.jsonl, writes evidence/<id>.json; exit 1 + VIOLATION lines otherwise."""
import sys, os, json, time, traceback
sys.path.insert(0, os.path.dirname(os.path.abspath(__file__)))
import vlib
from vlib import Scratch, Report

def main():
    if len(sys.argv) < 2:
        print(__doc__); return 2
    pid = sys.argv[1]
    tier = os.environ.get('VERIF_TIER', 'quick')
    if '--tier' in sys.argv: tier = sys.argv[sys.argv.index('--tier') + 1]
    seed = int(os.environ.get('VERIF_SEED', '1'))
    if pid == 'replay':
        import replay; return replay.main(sys.argv[2])
    rep = Report(pid, tier, seed)
    scr = Scratch(pid)
    try:
        import props
        fn = props.REGISTRY.get(pid)
        if fn is None:
            print('no check for', pid); return 2
        return fn(rep, scr, tier, seed)
    except Exception as e:
        # machinery failure: never silently pass
        traceback.print_exc()
        rep.violation('check machinery failed: %s' % e, {'key': 'machinery', 'error': str(e), 'no_failing_input': True,
                      'broken': 'harness/translator could not process the current tree'})
        return rep.finish('machinery failure', 'harness/check.py %s' % pid)
    finally:
        scr.cleanup()

if __name__ == '__main__':
    sys.exit(main())
