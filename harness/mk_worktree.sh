#!/bin/bash
# usage: mk_worktree.sh <dir>   -- scratch, fully built worktree of /repo HEAD (autotools in-tree build, own libtool paths)
set -e
d="$1"
[ -n "$d" ] || { echo "usage: $0 <dir>"; exit 2; }
git -C /repo worktree remove --force "$d" 2>/dev/null || true
rm -rf "$d"
git -C /repo worktree add -q "$d" HEAD
rsync -a --exclude .git /repo/ "$d"/
cd "$d"
./configure >/dev/null 2>&1
make clean >/dev/null 2>&1
make -j8 >/dev/null 2>&1 || { echo "BUILD FAILED in $d"; exit 1; }
echo "worktree ready: $d"
