#!/bin/bash
# mk_light_worktree.sh <dir> : scratch worktree of /repo HEAD for running the checks with VERIF_REPO=<dir>
# (sources + the configure-generated headers; no in-tree build: the checks compile src/ themselves)
set -e
d="$1"; [ -n "$d" ] || { echo "usage: $0 <dir>"; exit 2; }
git -C /repo worktree remove --force "$d" 2>/dev/null || true
rm -rf "$d"
git -C /repo worktree add -q "$d" HEAD
cp /repo/config.h "$d"/
cp /repo/include/safe_config.h /repo/include/safe_lib_errno.h /repo/include/safe_types.h "$d"/include/
echo "light worktree ready: $d"
