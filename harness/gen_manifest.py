#!/usr/bin/env python3
"""regenerates MANIFEST.json from the registry of checks (harness/props.py) and the notes below"""
import json, sys
sys.path.insert(0, '/verif/harness')
import props
NOTES = {
 'C01': ('Coq theorems: every store event and the final memory stay inside the declared destination, for all sizes/contents/placements/configurations (syntactic write-footprint + frame lemma); tie: extracted models vs. freshly compiled working tree on the size lattice with guard pages and canaries', 'C01'),
 'C02': ('Coq theorems: read footprints of the valid calls end at the terminator / slen / dmax (memory-dependent footprint over the wp semantics); tie: every declared extent flush against PROT_NONE pages, both sides', 'C02'),
 'C03': ('Coq theorems from the functional specification of the copy loop: a NUL within dmax on every exit for any prior dest; tie: garbage-filled dest over the size lattice', 'C03'),
 'C04': ('Coq theorems: every failing exit leaves dest cleared (all dmax elements in the null-slack configuration); tie: every failure class on dirty buffers', 'C04'),
 'C05': ('Coq theorems on the handler-event sequence of every path (hspec): exactly one report with the returned code or none and EOK; tie: counting handlers of both kinds', 'C05'),
 'C06': ('Coq theorems: EOK implies the exact result of the reference and no truncation; memory family = memmove semantics; tie: exhaustive small scope vs. Python references', 'C06'),
 'C07': ('Coq theorems for every integer offset between the operands (bumper loop specification): overlap detected iff written and read elements intersect, never a corrupted EOK; tie: all offsets in one arena', 'C07'),
 'C08': ('Coq theorems: slack behind the terminator is zero (null-slack) / untouched (no-slack) after success; tie: result length x dmax sweep over the 0x20 switch on dirty buffers', 'C08'),
 'C12': ('Coq theorems: every interleaving of two calls with disjoint footprints equals the sequential run; modelled functions touch no static and allocate nothing; the regenerated inventory of writable statics is admissible; tie: nm inventory translator + byte snapshot of all library statics around every call', 'C12'),
 'C13': ('Coq refinement theorem over all finite histories and thread ids: the registration state machine answers exactly as the dispatch specification; tie: histories executed on real pthreads (one process per history) vs. the extracted model', 'C13'),
}
props_all = [json.loads(l) for l in open('/verif/properties.jsonl')]
claimed = sorted(props.REGISTRY.keys())
checks = []
for p in claimed:
    text, ref = NOTES.get(p, ('Coq theorems about the executable model + correspondence with the compiled working tree', p))
    checks.append({
        'property_id': p,
        'quick_cmd': 'python3 harness/check.py %s --tier quick' % p,
        'thorough_cmd': 'python3 harness/check.py %s --tier thorough' % p,
        'evidence_file': '/verif/evidence/%s.json' % p,
        'replay_cmd_template': 'python3 harness/check.py replay {path}',
        'engine': 'coq-model+correspondence',
        'level_claimed': {'category': 'proof', 'text': text, 'design_ref': 'DESIGN.md section 4 (%s) and section 8' % ref},
        'level_note': 'trusted: Coq 8.16 kernel + vm_compute, extraction (ExtrOcamlBasic only), C/OCaml harness drivers, gcc, page protection; libc primitives (memset/memmove/...) modelled not verified; the correspondence between model and C source is differential and bounded (scope printed in the evidence file); known findings are listed in known_findings.jsonl',
        'technique': 'machine-checked Coq proof over an executable model + differential correspondence (extracted model vs. compiled source) + regenerated translators',
    })
na = [{'property_id': p['id'], 'reason': 'not yet built in this revision of the framework (planned, see DESIGN.md section 5)'} for p in props_all if p['id'] not in claimed]
m = {'version': 1, 'setup_cmd': 'bash harness/setup.sh',
     'hooks': {'guard': 'SAFECLIB_VERIF', 'enable': 'none needed: the checks compile /repo/src/**/*.c directly into a scratch directory; there are no source hooks',
               'baseline_off_cmd': 'cd /repo && make -k check', 'source_commits': [], 'add_only': True},
     'engines': [{'name': 'coq-model+correspondence', 'path': '/verif/coq, /verif/harness', 'serves_properties': claimed,
                  'kind_free_text': 'Coq 8.16 development (models, specifications, theorems), extraction to OCaml, C differential driver, Python orchestration'}],
     'checks': checks, 'not_applicable': na,
     'notes': 'fix: commits in /repo (strnlen_s read order; static scratch buffers of qsort_s, asctime_s/ctime_s, vsnprintf_s, wide printf) are recorded in known_findings.jsonl with status fixed'}
json.dump(m, open('/verif/MANIFEST.json', 'w'), indent=1)
print('claimed:', claimed)
