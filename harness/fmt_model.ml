(* fmt_model.ml -- C09: runs the extracted format models.  line: <id> <scanf 0|1> <code,code,...|-> *)
open Model
let rec pos_of_int n = if n = 1 then XH else if n land 1 = 0 then XO (pos_of_int (n lsr 1)) else XI (pos_of_int (n lsr 1))
let z_of_int n = if n = 0 then Z0 else Zpos (pos_of_int n)
let () =
  try while true do
    let line = input_line stdin in
    match String.split_on_char ' ' line with
    | [id; sc; codes] ->
      let fmt = if codes = "-" then [] else List.map (fun s -> z_of_int (int_of_string s)) (String.split_on_char ',' codes) in
      let scanf = (sc = "1") in
      let v = match delegating_entry scanf fmt with Rejected -> "rejected" | PassedClean -> "clean" | PassedWithN -> "with-n" in
      let eng = engine_walk false fmt in
      let err = List.exists (fun a -> a = EErr) eng in
      Printf.printf "%s libc=%s engine=%s prescan=%s has_n=%s\n" id v (if err then "error" else "ok")
        (if prescan_accepts fmt then "accept" else "reject") (if has_n scanf fmt then "1" else "0")
    | _ -> ()
  done with End_of_file -> ()
