#!/bin/bash
# seed_intake.sh <worktree> <seed-id> : confirm a seeded change delivered in <worktree>/SEED (patch.diff, demo.c, meta.json)
# -- applies, builds, the unedited test suite passes, the demo fails with it and passes without it -- and, if confirmed,
# stores it as /verif/seeded/<seed-id>/ with the confirmation recorded in meta.json.  The worktree is left clean.
V="${VERIF_ROOT:-$(cd "$(dirname "${BASH_SOURCE[0]}")/.." && pwd)}"
wt="$1"; id="$2"
cd "$wt" || exit 2
git checkout -q -- src include 2>/dev/null
git apply --check SEED/patch.diff || { echo "$id: patch does not apply"; exit 1; }
XL="-lpthread -lm"; grep -q __wrap_malloc SEED/demo.c && XL="$XL -Wl,--wrap=malloc,--wrap=free"; grep -q __wrap_realloc SEED/demo.c && XL="$XL -Wl,--wrap=realloc"; grep -q __wrap_calloc SEED/demo.c && XL="$XL -Wl,--wrap=calloc"
git apply SEED/patch.diff
make -j8 >/dev/null 2>&1 || { echo "$id: build failed"; git checkout -q -- src include; exit 1; }
t=$(make -k check -j8 2>&1 | grep -E "^# (PASS|FAIL|ERROR)" | tr -d '\n')
gcc -w -I$wt/include -I$wt SEED/demo.c $wt/src/.libs/libsafec.a -o SEED/demo.bin $XL
( cd SEED && timeout 120 ./demo.bin >/dev/null 2>&1 ); with=$?
git checkout -q -- src include
make -j8 >/dev/null 2>&1
gcc -w -I$wt/include -I$wt SEED/demo.c $wt/src/.libs/libsafec.a -o SEED/demo.bin $XL
( cd SEED && timeout 120 ./demo.bin >/dev/null 2>&1 ); without=$?
res="tests[$t] demo_with=$with demo_without=$without"
echo "$id: $res"
case "$t" in *"FAIL:  0"*"ERROR: 0"*) ;; *) echo "$id: NOT CONFIRMED (tests)"; exit 1;; esac
[ "$with" != 0 ] && [ "$without" = 0 ] || { echo "$id: NOT CONFIRMED (demo)"; exit 1; }
mkdir -p "$V/seeded/$id"
cp SEED/patch.diff SEED/demo.c "$V/seeded/$id/"
python3 - "$V/seeded/$id/meta.json" SEED/meta.json "$res" "$XL" <<'PY'
import json, sys
m = json.load(open(sys.argv[2]))
m['demo_build'] = 'gcc -w -I<wt>/include -I<wt> demo.c <wt>/src/.libs/libsafec.a -o demo ' + sys.argv[4]
m['confirmed'] = 'harness/seed_intake.sh in a scratch worktree of /repo HEAD: ' + sys.argv[3]
m['origin'] = 'independent sub-agent given only the property text (' + __import__('os').environ.get('SEED_ROUND','round 4') + ')'
json.dump(m, open(sys.argv[1], 'w'), indent=1)
PY
echo "$id: stored"
