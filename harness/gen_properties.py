#!/usr/bin/env python3
"""assembles coq/Properties_C02..C08.v: header + generated string-family theorems (gen_*_str.inc,
written by gen_fnprops.py) + the hand-written theorems below. Every theorem is closed by `exact`."""
HDR = '''(* Properties_%s.v -- %s
   Only theorem statements, each closed by [exact <lemma>], with Print Assumptions beneath. *)
From Coq Require Import List ZArith Lia Bool.
From SC Require Import Base Wp Cfg Comb CombProofs CopySpec ModStr ModMem ModExt ProofsStr ProofsMem SpecStr SpecMem SpecExt PropStr FnProps PropDefs.
From SC.Gen Require Import Consts.
Import ListNotations.
Local Open Scope Z_scope.

(* link from the wp statements below to executions: for every allocation-failure oracle,
   the result and final memory of [run] satisfy the postcondition *)
Theorem %s_wp_sound : forall (A : Type) (fail : nat -> bool) (p : prog A) st Q,
  wp p (wm st) Q -> let '(a, st') := run fail p st in Q a (wm st').
Proof. exact (@wp_run). Qed.
Print Assumptions %s_wp_sound.
'''
def thm(name, stmt, proof):
    return 'Theorem %s : %s.\nProof. %s Qed.\nPrint Assumptions %s.\n' % (name, stmt, proof, name)
TAIL = '''
Theorem %s_cfg_repo_wf : wf_cfg cfg_repo.
Proof. exact wf_cfg_repo. Qed.
Print Assumptions %s_cfg_repo_wf.
'''
EXTRA = {}
EXTRA['C02'] = '''
(* reads of the valid calls stop where the data says: at the terminator or at slen *)
Theorem C02_reads_sound : forall (A : Type) (fail : nat -> bool) (R : Z -> Prop) (p : prog A) m,
  reads_ok R p m -> Forall (ev_read_ok R) (rev (wtr (snd (run fail p (w0 m))))).
Proof. intros A fail R p m H. apply Forall_rev. exact (reads_ok_run fail R p (w0 m) H (Forall_nil _)). Qed.
Print Assumptions C02_reads_sound.
''' + thm('C02_strcpy_s', 'forall c d dmax s destbos m L, pre_strcpy_s c d dmax s destbos m L -> reads_ok (ext s (L + 1)) (strcpy_s c d dmax s destbos) m',
          'intros c d dmax s destbos m L (Hm & Hd & Hs & Hne & Hu & Hstr). exact (strcpy_s_reads c d dmax s destbos m L Hm Hd Hs Hne Hu Hstr).') \
  + thm('C02_strncpy_s', 'forall c d dmax s slen destbos srcbos m t, pre_strncpy_s c d dmax s slen destbos srcbos m t -> reads_ok (ext s (Z.min slen (t + 1))) (strncpy_s c d dmax s slen destbos srcbos) m',
          'intros c d dmax s slen destbos srcbos m t (Hm & Hd & Hs & Hne & Hu & Hsl & Hsb & Hsrc). exact (strncpy_s_reads c d dmax s slen destbos srcbos m t Hm Hd Hs Hne Hu Hsl Hsb Hsrc).') \
  + thm('C02_strcat_s', 'forall c d dmax s destbos m P L, pre_strcat_s c d dmax s destbos m P L -> (d < s -> P < s - d) -> reads_ok (fun a => ext d (P + 1) a \\/ ext s (L + 1) a) (strcat_s c d dmax s destbos) m',
          'intros c d dmax s destbos m P L (Hm & Hd & Hs & Hne & Hu & HP & HPd & Hstr) Hg. exact (strcat_s_reads c d dmax s destbos m P L Hm Hd Hs Hne Hu HP HPd Hg Hstr).') \
  + thm('C02_strncat_s', 'forall c d dmax s slen destbos srcbos m P t, pre_strncat_s c d dmax s slen destbos srcbos m P t -> (d < s -> P < s - d) -> reads_ok (fun a => ext d (P + 1) a \\/ ext s (Z.min slen (t + 1)) a) (strncat_s c d dmax s slen destbos srcbos) m',
          'intros c d dmax s slen destbos srcbos m P t (Hm & Hd & Hs & Hne & Hu & Hsl & Hsb & HP & HPd & Hsrc) Hg. exact (strncat_s_reads c d dmax s slen destbos srcbos m P t Hm Hd Hs Hne Hu Hsl Hsb HP HPd Hg Hsrc).') \
  + thm('C02_strnlen_s', 'forall c str smax bos, 0 <= smax -> C02_holds (ext str smax) (strnlen_s c str smax bos)',
          'intros. apply C02_from_reads. exact (strnlen_s_prog_reads c str smax bos eq_refl H).') \
  + thm('C02_strnlen_s_old_order_refuted', '~ reads_in (ext 100 2) (nlen_loop false 1 2 100 0 BOS_UNKNOWN)', 'exact nlen_loop_unguarded_reads_past.')
EXTRA['C05'] = thm('C05_strcpy_s', 'forall c d dmax s destbos, 0 <= dmax -> (destbos = BOS_UNKNOWN \\/ 1 <= destbos) -> C05_holds HStr (strcpy_s c d dmax s destbos)',
                   'intros. apply C05_from_hspec. exact (strcpy_s_hspec c d dmax s destbos H H0).') \
  + thm('C05_strcat_s', 'forall c d dmax s destbos, 0 <= dmax -> (destbos = BOS_UNKNOWN \\/ 1 <= destbos) -> C05_holds HStr (strcat_s c d dmax s destbos)',
                   'intros. apply C05_from_hspec. exact (strcat_s_hspec c d dmax s destbos H H0).') \
  + thm('C05_wcscpy_s', 'forall c d dmax s destbos, C05_holds HStr (wcscpy_s c d dmax s destbos)',
                   'intros. apply C05_from_hspec. exact (wcscpy_s_hspec c d dmax s destbos).') \
  + thm('C05_strncpy_s', 'forall c d dmax s slen destbos srcbos, 0 <= dmax -> (destbos = BOS_UNKNOWN \\/ 1 <= destbos) -> n_region_ok c dmax slen destbos srcbos -> C05_holds HStr (strncpy_s c d dmax s slen destbos srcbos)',
                   'intros. apply C05_from_hspec. exact (strncpy_s_hspec c d dmax s slen destbos srcbos H H0 H1).') \
  + thm('C05_strncat_s_except', 'forall c d dmax s slen destbos srcbos, 0 <= dmax -> (destbos = BOS_UNKNOWN \\/ 1 <= destbos) -> n_region_ok c dmax slen destbos srcbos -> slen <> 0 -> C05_holds HStr (strncat_s c d dmax s slen destbos srcbos)',
                   'intros. apply C05_from_hspec. exact (strncat_s_hspec c d dmax s slen destbos srcbos H H0 H1 H2).') \
  + '''(* known finding strncat_s-slen0-handler: slen = 0 on a terminated dest reports code 0 and returns EOK *)
Theorem C05_strncat_s_slen0_refuted : exists c d dmax s slen destbos srcbos m,
  let '(r, _, tr) := exec (strncat_s c d dmax s slen destbos srcbos) m in r = EOK /\\ handlers tr = [(HStr, 0)].
Proof. exists cfg_default, 1000, 4, 2000, 0, BOS_UNKNOWN, BOS_UNKNOWN, (fun _ => 0). vm_compute. split; reflexivity. Qed.
Print Assumptions C05_strncat_s_slen0_refuted.
(* repaired: slen exceeds a known source size while the dest size is unknown used to give two reports; now one (C05_strncpy_s) *)
Example C05_strncpy_s_srcbos_single_report :
  let '(r, _, tr) := exec (strncpy_s cfg_default 1000 16 2000 10 BOS_UNKNOWN 4) (fun _ => 97) in handlers tr = [(HStr, EOVERFLOW)] /\\ r = EOVERFLOW.
Proof. vm_compute. split; reflexivity. Qed.
''' \
  + thm('C05_strnlen_s', 'forall c str smax bos, hspec (fun hs r => (hs = [] \\/ (r = 0 /\\ exists code, code <> 0 /\\ hs = [(HStr, code)]))) [] (strnlen_s c str smax bos)',
        'exact strnlen_s_hspec.') \
  + ''.join(thm('C05_%s' % n, 'forall c d dmax s slen destbos srcbos, C05_holds HMem (%s c d dmax s slen destbos srcbos)' % n,
                'intros. apply C05_from_hspec. apply mem_copy_gen_hspec. intro X; vm_compute in X; discriminate X.')
            for n in ('memcpy_s', 'memmove_s', 'memcpy16_s', 'memmove16_s', 'memcpy32_s', 'memmove32_s')) \
  + thm('C05_memset_s', 'forall c d dmax v n destbos, C05_holds HMem (memset_s c d dmax v n destbos)', 'intros. apply C05_from_hspec. exact (memset_s_hspec c d dmax v n destbos).') \
  + ''.join(thm('C05_%s' % n, 'forall c d len destbos, C05_holds HMem (%s c d len destbos)' % n,
                'intros. apply C05_from_hspec. exact (memzerow_s_hspec c %d d len destbos).' % w) for n, w in (('memzero_s', 1), ('memzero16_s', 2), ('memzero32_s', 4))) \
  + '''(* a size above the RSIZE limit is rejected before dest or src is touched: the program is the bare report *)
Theorem C05_strcpy_s_rsize_untouched : forall c d dmax s, d <> 0 -> 0 < dmax -> rmax_str c < dmax ->
  strcpy_s c d dmax s BOS_UNKNOWN = fail_str ESLEMAX.
Proof. intros c d dmax s Hd H0 Hr. unfold strcpy_s, chk_dest_str.
  replace (d =? 0) with false by (symmetry; apply Z.eqb_neq; lia).
  replace (dmax =? 0) with false by (symmetry; apply Z.eqb_neq; lia).
  rewrite Z.eqb_refl. replace (rmax_str c <? dmax) with true by (symmetry; apply Z.ltb_lt; lia). reflexivity. Qed.
Print Assumptions C05_strcpy_s_rsize_untouched.
'''
MEMCOPY = [('memcpy_s', 1, 'false', 'true', 'EOVERFLOW'), ('memmove_s', 1, 'false', 'false', 'EOVERFLOW'),
           ('memcpy16_s', 2, 'true', 'true', 'ESLEMAX'), ('memmove16_s', 2, 'true', 'false', 'EOVERFLOW'),
           ('memcpy32_s', 4, 'true', 'true', 'ESLEMAX'), ('memmove32_s', 4, 'true', 'false', 'EOVERFLOW')]
def memspec(pid):
    o = ''
    for n, w, ub, ovl, code in MEMCOPY:
        o += thm('%s_%s' % (pid, n),
                 'forall c d dmax s slen destbos srcbos m, d <> 0 -> s <> 0 -> 1 <= dmax -> 1 <= slen -> '
                 '((destbos = BOS_UNKNOWN /\\ dmax <= rmax_mem c) \\/ (destbos <> BOS_UNKNOWN /\\ dmax <= destbos)) -> (srcbos = BOS_UNKNOWN \\/ slen * %d <= srcbos) -> '
                 'wp (%s c d dmax s slen destbos srcbos) m (mem_copy_post c %d %s d (eff_dmax %s dmax destbos) s slen m)' % (w, n, w, ovl, ub),
                 'intros. exact (mem_copy_gen_spec c %d (rmax_mem c) %s %s %s false d dmax s slen destbos srcbos m ltac:(lia) H H0 H1 H2 H3 H4).' % (w, ub, ovl, code))
    return o
EXTRA['C04'] = '(* memory-copy family: every failure after the entry checks leaves dest zeroed (see mem_copy_post) *)\n' + memspec('C04')
EXTRA['C06'] = '(* memory family: success = exactly the source bytes moved, nothing else changed (moved) *)\n' + memspec('C06') + \
   thm('C06_memset_s', 'forall c d dmax v n m, d <> 0 -> 1 <= n <= dmax -> dmax <= rmax_mem c -> 0 <= v <= 255 -> wp (memset_s c d dmax v n BOS_UNKNOWN) m (fun r m\' => r = EOK /\\ forall a, m\' a = if in_range d n a then v else m a)',
       'exact memset_s_spec.') + \
   ''.join(thm('C06_%s' % n, 'forall c d len destbos m, d <> 0 -> 1 <= len * %d -> ((destbos = BOS_UNKNOWN /\\ len * %d <= rmax_mem c) \\/ (destbos <> BOS_UNKNOWN /\\ len * %d <= destbos)) -> wp (%s c d len destbos) m (fun r m\' => r = EOK /\\ forall a, m\' a = if in_range d (len * %d) a then 0 else m a)' % (w, w, w, n, w),
               'intros c d len destbos m. exact (memzerow_s_spec c %d d len destbos m).' % w) for n, w in (('memzero_s', 1), ('memzero16_s', 2), ('memzero32_s', 4)))
EXTRA['C06'] += '(* round 3: pointer-returning copy and in-place case conversion *)\n' + \
   thm('C06_stpcpy_s', 'forall c d dmax s errp m L, wf_mem m -> d <> 0 -> s <> 0 -> errp <> 0 -> 1 <= dmax <= rmax_str c -> 0 <= L < dmax -> (forall i, 0 <= i < L -> m (s + i) <> 0) -> m (s + L) = 0 -> (s + L < d \\/ d + dmax <= s) -> (errp + 4 <= d \\/ d + dmax <= errp) -> wp (stpcpy_s c d dmax s errp BOS_UNKNOWN BOS_UNKNOWN) m (fun r m\' => r = d + L /\\ load m\' 4 errp = 0 /\\ (forall i, 0 <= i <= L -> m\' (d + i) = m (s + i)) /\\ (null_slack c = true -> forall a, d + L < a < d + dmax -> m\' a = 0) /\\ (forall a, ~ (d <= a < d + dmax) -> ~ (errp <= a < errp + 4) -> m\' a = m a))',
       'exact stpcpy_s_spec.') + \
   thm('C06_strtolowercase_s', 'forall c d dmax m, d <> 0 -> 1 <= dmax <= rmax_str c -> wp (strtolowercase_s c d dmax BOS_UNKNOWN) m (fun r m\' => r = EOK /\\ exists t, 0 <= t <= dmax /\\ (forall i, 0 <= i < t -> m (d + i) <> 0) /\\ (t < dmax -> m (d + t) = 0) /\\ forall a, m\' a = if (d <=? a) && (a <? d + t) then conv 65 90 32 (m a) else m a)',
       'exact strtolowercase_s_spec.') + \
   thm('C06_strtouppercase_s', 'forall c d dmax m, d <> 0 -> 1 <= dmax <= rmax_str c -> wp (strtouppercase_s c d dmax BOS_UNKNOWN) m (fun r m\' => r = EOK /\\ exists t, 0 <= t <= dmax /\\ (forall i, 0 <= i < t -> m (d + i) <> 0) /\\ (t < dmax -> m (d + t) = 0) /\\ forall a, m\' a = if (d <=? a) && (a <? d + t) then conv 97 122 (-32) (m a) else m a)',
       'exact strtouppercase_s_spec.')
EXTRA['C07'] = '(* memory family, every placement: memmove = copy through a temporary; memcpy rejects exactly intersecting, non-identical operands *)\n' + memspec('C07') + \
   thm('C07_overlap_test_is_intersection', 'forall dp dlen sp slen, 0 < dlen -> 0 < slen -> (chk_ovrlp_butsame dp dlen sp slen = true <-> (dp <> sp /\\ dp < sp + slen /\\ sp < dp + dlen))', 'exact chk_ovrlp_butsame_spec.') + \
   thm('C07_overlap_test_strict', 'forall dp dlen sp slen, 0 < dlen -> 0 < slen -> (chk_ovrlp dp dlen sp slen = true <-> (dp < sp + slen /\\ sp < dp + dlen))', 'exact chk_ovrlp_spec.')
EXTRA['C03'] = '(* strnterminate_s: always terminated within dmax, at the first NUL or at dmax-1; returns the length kept; nothing else changes *)\n' + \
   thm('C03_strnterminate_s', 'forall c d dmax m, d <> 0 -> 1 <= dmax <= rmax_str c -> wp (strnterminate_s c d dmax BOS_UNKNOWN) m (fun r m\' => 0 <= r < dmax /\\ (forall i, 0 <= i < r -> m (d + i) <> 0) /\\ (r < dmax - 1 -> m (d + r) = 0) /\\ m\' (d + r) = 0 /\\ (forall a, a <> d + r -> m\' a = m a))',
       'exact strnterminate_s_spec.')
EXTRA['C08'] = ''
TITLES = {'C02': 'C02: no read outside what the caller declared readable', 'C03': 'C03: string producers never leave dest unterminated',
          'C04': 'C04: a failed call leaves no partial result', 'C05': 'C05: every violation reported exactly once with the returned code',
          'C06': 'C06: success means the exact, complete result', 'C07': 'C07: overlap detection; memmove exactness',
          'C08': 'C08: nothing stale behind the terminator'}
import os
V = os.path.dirname(os.path.dirname(os.path.abspath(__file__)))
for pid in ('C02', 'C03', 'C04', 'C05', 'C06', 'C07', 'C08'):
    body = HDR % (pid, TITLES[pid], pid, pid)
    inc = V + '/coq/gen_%s_str.inc' % pid
    if os.path.exists(inc): body += '\n(* ---- copy / concatenate family (generated from the table in harness/gen_fnprops.py) ---- *)\n' + open(inc).read()
    body += '\n' + EXTRA[pid] + TAIL % (pid, pid)
    open(V + '/coq/Properties_%s.v' % pid, 'w').write(body)
