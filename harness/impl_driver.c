/* impl_driver.c -- runs cases against the library objects compiled from /repo's working tree.
 * Case line:  <id> <func> <nblk> {<mode L|R> <hex>}*  <nargs> {<arg>}*
 *   arg:  P<blk>:<off> pointer into block, N null pointer, I<unsigned decimal>, S<signed decimal>
 * Output line: <id> ret=<v> h=<S|M:code,...> fault=<-|blk:off|?> b<i>=<hex>...
 * Layout (identical in the Coq model driver): block i occupies [BASE + i*STRIDE, +STRIDE):
 *   one guard page, DATA bytes of data area, one guard page; mode R puts the block's end flush
 *   against the trailing guard page, mode L its start right after the leading guard page.
 */
#define _GNU_SOURCE
#include <stdio.h>
#include <stdlib.h>
#include <string.h>
#include <stdint.h>
#include <signal.h>
#include <setjmp.h>
#include <errno.h>
#include <wchar.h>
#include <locale.h>
#include <sys/mman.h>
#include "safe_lib.h"
#include "safe_str_lib.h"
#include "safe_mem_lib.h"

#define BASE   0x100000000UL
#define STRIDE 0x20000UL
#define PAGE   4096UL
#define DATA   0x10000UL
#define MAXBLK 6
#define OUT(...) fprintf(res, __VA_ARGS__)
#define MAXARG 16

static FILE *res;    /* result channel (a dup of the original stdout) */
static uint8_t *base;
static struct { char mode; size_t size; uint8_t *start; } blk[MAXBLK];
static int nblk;

static int hn; static struct { char kind; int code; char watch; } hlog[64];
/* W<b>:<off>:<len>:<w> : a region (the destination) inspected from inside the handler, i.e. what a handler that does not return
   leaves behind: Z = every byte zero, F = only the first element zero, D = first element not zero */
static const unsigned char *watch_p; static size_t watch_len, watch_w;
static char watch_state(void) {
    if (!watch_p) return '-';
    size_t k = 0; while (k < watch_len && watch_p[k] == 0) k++;
    return k == watch_len ? 'Z' : (k >= watch_w ? 'F' : 'D');
}
static void str_handler(const char *m, void *p, errno_t e) { (void)m; (void)p; if (hn < 64) { hlog[hn].kind = 'S'; hlog[hn].code = e; hlog[hn].watch = watch_state(); } hn++; }
static void mem_handler(const char *m, void *p, errno_t e) { (void)m; (void)p; if (hn < 64) { hlog[hn].kind = 'M'; hlog[hn].code = e; hlog[hn].watch = watch_state(); } hn++; }

#include <ucontext.h>
#include <stdio_ext.h>
static sigjmp_buf jb; static volatile uintptr_t fault_addr; static volatile int fault_sig; static volatile int fault_write;
static void on_fault(int s, siginfo_t *si, void *u) { fault_sig = s; fault_addr = (uintptr_t)si->si_addr;
#if defined(__x86_64__)
    fault_write = u ? (int)((((ucontext_t *)u)->uc_mcontext.gregs[REG_ERR] >> 1) & 1) : 0;   /* page-fault error code bit 1: the access was a write */
#else
    fault_write = 0;
#endif
    siglongjmp(jb, 1); }

static int hexval(int c) { return c <= '9' ? c - '0' : (c | 32) - 'a' + 10; }

typedef struct { char tag; uint64_t u; double d; long double L; } arg_t;
static arg_t args[MAXARG]; static int nargs; static int vstart; /* index of the first variadic argument */
#define PTR(i) ((void *)(uintptr_t)args[i].u)
#define U(i) ((size_t)args[i].u)
#define SI(i) ((int)(int64_t)args[i].u)

static void print_ptr(const void *p) {
    if (!p) { OUT("N"); return; }
    for (int i = 0; i < nblk; i++) {
        if ((uint8_t *)p >= blk[i].start && (uint8_t *)p <= blk[i].start + blk[i].size) { OUT("P%d:%ld", i, (long)((uint8_t *)p - blk[i].start)); return; }
    }
    OUT("X");
}

/* C12: snapshot of the library's writable static objects around every call (ranges from `nm` on this executable) */
#define MAXSTAT 512
static struct { char name[96]; uint8_t *addr; size_t size; uint8_t *copy; } stat_[MAXSTAT];
static int nstat;
static void load_statics(const char *path) {
    FILE *f = fopen(path, "r"); if (!f) return;
    char nm[96]; unsigned long a, sz;
    while (nstat < MAXSTAT && fscanf(f, "%95s %lx %lx", nm, &a, &sz) == 3) {
        strcpy(stat_[nstat].name, nm); stat_[nstat].addr = (uint8_t *)a; stat_[nstat].size = sz; stat_[nstat].copy = malloc(sz); nstat++;
    }
    fclose(f);
}
static void snap_statics(void) { for (int i = 0; i < nstat; i++) memcpy(stat_[i].copy, stat_[i].addr, stat_[i].size); }
static void diff_statics(void) {
    int any = 0;
    for (int i = 0; i < nstat; i++) if (memcmp(stat_[i].copy, stat_[i].addr, stat_[i].size)) { OUT("%s%s", any ? "," : " st=", stat_[i].name); any = 1; }
}

/* ---- C20: allocator interposition (-Wl,--wrap=malloc,...): fail the k-th request made during the call ---- */
void *__real_malloc(size_t); void __real_free(void *); void *__real_realloc(void *, size_t); void *__real_calloc(size_t, size_t);
static int pre_errno;
static volatile int al_active; static long al_count, al_fail_at, al_failed, al_frees; static void *al_live[256]; static int al_nlive;
static void al_add(void *p) { if (p && al_nlive < 256) al_live[al_nlive++] = p; }
static void al_del(void *p) { for (int i = 0; i < al_nlive; i++) if (al_live[i] == p) { al_live[i] = al_live[--al_nlive]; al_frees++; return; } }
void *__wrap_malloc(size_t n) { if (!al_active) return __real_malloc(n); if (++al_count == al_fail_at) { al_failed++; errno = ENOMEM; return NULL; } void *p = __real_malloc(n); al_add(p); return p; }
void *__wrap_calloc(size_t a, size_t b) { if (!al_active) return __real_calloc(a, b); if (++al_count == al_fail_at) { al_failed++; errno = ENOMEM; return NULL; } void *p = __real_calloc(a, b); al_add(p); return p; }
void *__wrap_realloc(void *q, size_t n) { if (!al_active) return __real_realloc(q, n); if (++al_count == al_fail_at) { al_failed++; errno = ENOMEM; return NULL; } void *p = __real_realloc(q, n); if (p) { al_del(q); al_frees -= (q != NULL && al_frees > 0) ? 1 : 0; al_add(p); } return p; }
void __wrap_free(void *p) { if (al_active && p) al_del(p); __real_free(p); }

/* ---- variadic calls: every variadic argument belongs to one of three ABI classes ---- */
#define A_I(k) (args[vstart + (k)].u)
#define A_D(k) (args[vstart + (k)].d)
#define A_L(k) (args[vstart + (k)].L)
static int vcls(int k) { if (vstart + k >= nargs) return 0; char t = args[vstart + k].tag; return t == 'F' ? 1 : t == 'G' ? 2 : 0; }
#define VSWITCH(M) do { switch (vcls(0) * 9 + vcls(1) * 3 + vcls(2)) { \
  case 0: M(I,I,I); break; case 1: M(I,I,D); break; case 2: M(I,I,L); break; case 3: M(I,D,I); break; case 4: M(I,D,D); break; case 5: M(I,D,L); break; \
  case 6: M(I,L,I); break; case 7: M(I,L,D); break; case 8: M(I,L,L); break; case 9: M(D,I,I); break; case 10: M(D,I,D); break; case 11: M(D,I,L); break; \
  case 12: M(D,D,I); break; case 13: M(D,D,D); break; case 14: M(D,D,L); break; case 15: M(D,L,I); break; case 16: M(D,L,D); break; case 17: M(D,L,L); break; \
  case 18: M(L,I,I); break; case 19: M(L,I,D); break; case 20: M(L,I,L); break; case 21: M(L,D,I); break; case 22: M(L,D,D); break; case 23: M(L,D,L); break; \
  case 24: M(L,L,I); break; case 25: M(L,L,D); break; default: M(L,L,L); break; } } while (0)
#include <stdarg.h>
#include <unistd.h>
#include <time.h>
static int tr_vsprintf(char *d, size_t dm, size_t bos, const char *fmt, ...) { va_list ap; va_start(ap, fmt); int r = _vsprintf_s_chk(d, dm, bos, fmt, ap); va_end(ap); return r; }
static int tr_vsnprintf(char *d, size_t dm, size_t bos, const char *fmt, ...) { va_list ap; va_start(ap, fmt); int r = _vsnprintf_s_chk(d, dm, bos, fmt, ap); va_end(ap); return r; }
static int tr_vfprintf(FILE *f, const char *fmt, ...) { va_list ap; va_start(ap, fmt); int r = vfprintf_s(f, fmt, ap); va_end(ap); return r; }
static int tr_vprintf(const char *fmt, ...) { va_list ap; va_start(ap, fmt); int r = vprintf_s(fmt, ap); va_end(ap); return r; }
static int tr_vswprintf(wchar_t *d, size_t dm, size_t bos, const wchar_t *fmt, ...) { va_list ap; va_start(ap, fmt); int r = _vswprintf_s_chk(d, dm, bos, fmt, ap); va_end(ap); return r; }
static int tr_vsnwprintf(wchar_t *d, size_t dm, size_t bos, const wchar_t *fmt, ...) { va_list ap; va_start(ap, fmt); int r = _vsnwprintf_s_chk(d, dm, bos, fmt, ap); va_end(ap); return r; }
static int tr_vfwprintf(FILE *f, const wchar_t *fmt, ...) { va_list ap; va_start(ap, fmt); int r = vfwprintf_s(f, fmt, ap); va_end(ap); return r; }
static int tr_vwprintf(const wchar_t *fmt, ...) { va_list ap; va_start(ap, fmt); int r = vwprintf_s(fmt, ap); va_end(ap); return r; }
static int tr_vsscanf(const char *b, const char *fmt, ...) { va_list ap; va_start(ap, fmt); int r = vsscanf_s(b, fmt, ap); va_end(ap); return r; }
static int tr_vfscanf(FILE *f, const char *fmt, ...) { va_list ap; va_start(ap, fmt); int r = vfscanf_s(f, fmt, ap); va_end(ap); return r; }
static int tr_vscanf(const char *fmt, ...) { va_list ap; va_start(ap, fmt); int r = vscanf_s(fmt, ap); va_end(ap); return r; }
static int tr_vswscanf(const wchar_t *b, const wchar_t *fmt, ...) { va_list ap; va_start(ap, fmt); int r = vswscanf_s(b, fmt, ap); va_end(ap); return r; }
static int tr_vfwscanf(FILE *f, const wchar_t *fmt, ...) { va_list ap; va_start(ap, fmt); int r = vfwscanf_s(f, fmt, ap); va_end(ap); return r; }
static int tr_vwscanf(const wchar_t *fmt, ...) { va_list ap; va_start(ap, fmt); int r = vwscanf_s(fmt, ap); va_end(ap); return r; }
/* ---- C11: variadic calls with any number / classes of arguments through libffi ---- */
#include <ffi.h>
static long ffi_var(void *fn, int has_first, void *first) {
    ffi_cif cif; ffi_type *types[MAXARG + 2]; void *vals[MAXARG + 2]; static uint64_t store[MAXARG + 2]; int n = 0;
    if (has_first) { types[n] = &ffi_type_pointer; store[n] = (uint64_t)(uintptr_t)first; vals[n] = &store[n]; n++; }
    int nfixed = n + vstart;
    for (int i = 0; i < nargs; i++) {
        if (args[i].tag == 'V') { nfixed = n; continue; }
        if (args[i].tag == 'F') { types[n] = &ffi_type_double; vals[n] = &args[i].d; }
        else if (args[i].tag == 'G') { types[n] = &ffi_type_longdouble; vals[n] = &args[i].L; }
        else { types[n] = (args[i].tag == 'P' || args[i].tag == 'N') ? &ffi_type_pointer : &ffi_type_uint64; store[n] = args[i].u; vals[n] = &store[n]; }
        n++;
    }
    if (ffi_prep_cif_var(&cif, FFI_DEFAULT_ABI, nfixed, n, &ffi_type_sint, types) != FFI_OK) return -999999;
    ffi_arg rv = 0; ffi_call(&cif, (void (*)(void))fn, &rv, vals); return (long)(int)rv;
}
/* captured stream output of the current case */
static char cap[1 << 16]; static size_t caplen; static int have_cap;
/* comparator for qsort_s/bsearch_s: unsigned bytewise over the element size in *ctx, checks its pointers */
static struct { uint8_t *base; size_t nmemb, size; int bad; long calls; void *key; } cmpctx;
/* C16: the sequence of comparator calls of qsort_s as pairs of element indices (compared with the Coq model's trace) */
#define MAXTR 200000
static int32_t trbuf[2 * MAXTR]; static long trn; static int have_tr;
static int cmp_checked(const void *a, const void *b, void *ctx) {
    cmpctx.calls++;
    if (ctx != &cmpctx) cmpctx.bad |= 1;
    const uint8_t *pa = a, *pb = b;
    int a_ok = (pa == cmpctx.key) || (pa >= cmpctx.base && pa < cmpctx.base + cmpctx.nmemb * cmpctx.size && (size_t)(pa - cmpctx.base) % cmpctx.size == 0);
    int b_ok = (pb == cmpctx.key) || (pb >= cmpctx.base && pb < cmpctx.base + cmpctx.nmemb * cmpctx.size && (size_t)(pb - cmpctx.base) % cmpctx.size == 0);
    if (!a_ok || !b_ok) { cmpctx.bad |= 2; return 0; }
    if (have_tr && trn < MAXTR) { trbuf[2 * trn] = (int32_t)((pa - cmpctx.base) / cmpctx.size); trbuf[2 * trn + 1] = (int32_t)((pb - cmpctx.base) / cmpctx.size); }
    if (have_tr) trn++;
    return memcmp(pa, pb, cmpctx.size < 4 ? cmpctx.size : 4);   /* the key is the first (up to) 4 bytes */
}

/* C16: a comparator that itself sorts a second array with qsort_s at every call (the sort must be reentrant:
   its bookkeeping may not live in static storage) */
static struct { uint8_t *orig, *work; size_t nmemb, size; int depth; long innerbad, inner; } nest;
static int cmp_plain(const void *a, const void *b, void *ctx) { size_t sz = *(size_t *)ctx; return memcmp(a, b, sz < 4 ? sz : 4); }
static int cmp_nesting(const void *a, const void *b, void *ctx) {
    if (!nest.depth && nest.nmemb) {
        nest.depth = 1; nest.inner++;
        memcpy(nest.work, nest.orig, nest.nmemb * nest.size);
        size_t sz = nest.size;
        if (_qsort_s_chk(nest.work, nest.nmemb, nest.size, cmp_plain, &sz, BOS_UNKNOWN) != 0) nest.innerbad++;
        for (size_t i = 0; i + 1 < nest.nmemb; i++) if (memcmp(nest.work + i * sz, nest.work + (i + 1) * sz, sz < 4 ? sz : 4) > 0) { nest.innerbad++; break; }
        nest.depth = 0;
    }
    return cmp_checked(a, b, ctx);
}

/* returns 0 if the function is unknown */
static int dispatch(const char *f) {
#include "dispatch.inc"
    return 0;
}

int main(int argc, char **argv) {
    if (argc > 1 && argv[1][0] != '-') setlocale(LC_ALL, argv[1]);
    if (argc > 2 && argv[2][0] != '-') load_statics(argv[2]);
    FILE *casef = argc > 3 ? fopen(argv[3], "r") : stdin;
    base = mmap((void *)BASE, STRIDE * MAXBLK, PROT_NONE, MAP_PRIVATE | MAP_ANONYMOUS | MAP_FIXED_NOREPLACE, -1, 0);
    if (base == MAP_FAILED) { base = mmap(0, STRIDE * MAXBLK, PROT_NONE, MAP_PRIVATE | MAP_ANONYMOUS, -1, 0); }
    if (base == MAP_FAILED) { perror("mmap"); return 2; }
    res = fdopen(dup(1), "w");
    fprintf(res, "# base=%p\n", (void *)base);
    struct sigaction sa; memset(&sa, 0, sizeof sa); sa.sa_sigaction = on_fault; sa.sa_flags = SA_SIGINFO | SA_NODEFER;
    sigaction(SIGSEGV, &sa, 0); sigaction(SIGBUS, &sa, 0); sigaction(SIGFPE, &sa, 0); sigaction(SIGABRT, &sa, 0); sigaction(SIGILL, &sa, 0);
    set_str_constraint_handler_s(str_handler); set_mem_constraint_handler_s(mem_handler);
    static char line[1 << 20]; static char id[64], func[64];
    while (fgets(line, sizeof line, casef)) {
        char *p = line; int n = 0;
        if (line[0] == '#' || line[0] == '\n') continue;
        if (sscanf(p, "%63s %63s %d%n", id, func, &nblk, &n) < 3) continue;
        p += n;
        mprotect(base, STRIDE * MAXBLK, PROT_NONE);
        for (int i = 0; i < nblk; i++) {
            char mode[4]; static char hex[1 << 18];
            sscanf(p, " %1s %262143s%n", mode, hex, &n); p += n;
            size_t sz = strcmp(hex, "-") == 0 ? 0 : strlen(hex) / 2;
            uint8_t *reg = base + i * STRIDE;
            blk[i].mode = mode[0]; blk[i].size = sz;
            blk[i].start = mode[0] == 'R' ? reg + PAGE + DATA - sz : reg + PAGE;
            uintptr_t lo = (uintptr_t)blk[i].start & ~(PAGE - 1), hi = ((uintptr_t)blk[i].start + sz + PAGE - 1) & ~(PAGE - 1);
            if (hi > lo) { mprotect((void *)lo, hi - lo, PROT_READ | PROT_WRITE); memset((void *)lo, 0xA5, hi - lo); }
            for (size_t k = 0; k < sz; k++) blk[i].start[k] = (uint8_t)(hexval(hex[2 * k]) * 16 + hexval(hex[2 * k + 1]));
            /* bytes of the mapped pages outside the block: fixed filler (never compared) */
        }
        sscanf(p, " %d%n", &nargs, &n); p += n; vstart = nargs; al_fail_at = -1; pre_errno = 0; watch_p = NULL;
        { int ntok = nargs, j = 0;
        for (int t = 0; t < ntok; t++) {
            char tok[64]; sscanf(p, " %63s%n", tok, &n); p += n;
            if (tok[0] == 'K') { al_fail_at = strtol(tok + 1, 0, 10); nargs--; continue; }   /* not an argument */
            if (tok[0] == 'E') { pre_errno = (int)strtol(tok + 1, 0, 10); nargs--; continue; }  /* errno on entry (left over from some earlier call) */
            if (tok[0] == 'W') { int b; long off; unsigned long ln, w; sscanf(tok + 1, "%d:%ld:%lu:%lu", &b, &off, &ln, &w); watch_p = blk[b].start + off; watch_len = ln; watch_w = w; nargs--; continue; }
            int i = j++;
            args[i].tag = tok[0];
            if (tok[0] == 'N') args[i].u = 0;
            else if (tok[0] == 'P') { int b; long off; sscanf(tok + 1, "%d:%ld", &b, &off); args[i].u = (uint64_t)(uintptr_t)(blk[b].start + off); }
            else if (tok[0] == 'I') args[i].u = strtoull(tok + 1, 0, 10);
            else if (tok[0] == 'S') args[i].u = (uint64_t)strtoll(tok + 1, 0, 10);
            else if (tok[0] == 'F') { args[i].u = strtoull(tok + 1, 0, 16); memcpy(&args[i].d, &args[i].u, 8); }
            else if (tok[0] == 'G') { args[i].L = strtold(tok + 1, 0); }
            else if (tok[0] == 'V') { vstart = i + 1; }
        }
        if (vstart > nargs) vstart = nargs; }
        hn = 0; fault_sig = 0; errno = pre_errno; have_cap = 0; caplen = 0; have_tr = 0; trn = 0; snap_statics();
        al_count = 0; al_failed = 0; al_frees = 0; al_nlive = 0;
        OUT("%s ret=", id);
        if (!sigsetjmp(jb, 1)) {
            al_active = al_fail_at >= 0;
            int known_ = dispatch(func);
            al_active = 0;
            if (!known_) OUT("UNKNOWN");
        } else { al_active = 0; OUT("FAULT"); }
        if (al_fail_at >= 0) OUT(" al=%ld/%ld/%ld/%d", al_count, al_frees, al_failed, al_nlive);
        OUT(" h=");
        if (hn == 0) OUT("-");
        for (int i = 0; i < hn && i < 64; i++) OUT("%s%c:%d", i ? "," : "", hlog[i].kind, hlog[i].code);
        if (watch_p && hn) { OUT(" hw="); for (int i = 0; i < hn && i < 64; i++) OUT("%c", hlog[i].watch); }
        OUT(" fault=");
        if (!fault_sig) OUT("-");
        else {
            int found = 0;
            for (int i = 0; i < nblk && !found; i++) {
                uint8_t *reg = base + i * STRIDE;
                if (fault_addr >= (uintptr_t)reg && fault_addr < (uintptr_t)reg + STRIDE) { OUT("%d:%ld", i, (long)(fault_addr - (uintptr_t)blk[i].start)); found = 1; }
            }
            if (!found) OUT("?sig%d", fault_sig);
            OUT(" fk=%c", fault_sig == SIGSEGV ? (fault_write ? 'W' : 'R') : '?');
        }
        diff_statics();
        for (int i = 0; i < nblk; i++) {
            OUT(" b%d=", i);
            if (blk[i].size == 0) OUT("-");
            for (size_t k = 0; k < blk[i].size; k++) OUT("%02x", blk[i].start[k]);
        }
        if (have_cap) { OUT(" out="); if (!caplen) OUT("-"); for (size_t k = 0; k < caplen; k++) OUT("%02x", (unsigned char)cap[k]); }
        if (have_tr) { OUT(" ncmp=%ld tr=", trn); if (!trn) OUT("-"); for (long k = 0; k < trn && k < MAXTR; k++) OUT("%s%d:%d", k ? "," : "", trbuf[2 * k], trbuf[2 * k + 1]); }
        OUT("\n"); fflush(res);
    }
    return 0;
}
