/* impl_driver.c -- runs cases against the library objects compiled from /repo's working tree.
 * Case line:  <id> <func> <nblk> {<mode L|R> <hex>}*  <nargs> {<arg>}*
 *   arg:  P<blk>:<off> pointer into block, N null pointer, I<unsigned decimal>, S<signed decimal>
 * Output line: <id> ret=<v> h=<S|M:code,...> fault=<-|blk:off|?> b<i>=<hex>...
 * Layout (identical in the Coq model driver): block i occupies [BASE + i*STRIDE, +STRIDE):
 *   one guard page, DATA bytes of data area, one guard page; mode R puts the block's end flush
 *   against the trailing guard page, mode L its start right after the leading guard page.
 */
#define _GNU_SOURCE
#include <stdio.h>
#include <stdlib.h>
#include <string.h>
#include <stdint.h>
#include <signal.h>
#include <setjmp.h>
#include <errno.h>
#include <wchar.h>
#include <locale.h>
#include <sys/mman.h>
#include "safe_lib.h"
#include "safe_str_lib.h"
#include "safe_mem_lib.h"

#define BASE   0x100000000UL
#define STRIDE 0x20000UL
#define PAGE   4096UL
#define DATA   0x10000UL
#define MAXBLK 4
#define MAXARG 12

static uint8_t *base;
static struct { char mode; size_t size; uint8_t *start; } blk[MAXBLK];
static int nblk;

static int hn; static struct { char kind; int code; } hlog[64];
static void str_handler(const char *m, void *p, errno_t e) { (void)m; (void)p; if (hn < 64) { hlog[hn].kind = 'S'; hlog[hn].code = e; } hn++; }
static void mem_handler(const char *m, void *p, errno_t e) { (void)m; (void)p; if (hn < 64) { hlog[hn].kind = 'M'; hlog[hn].code = e; } hn++; }

static sigjmp_buf jb; static volatile uintptr_t fault_addr; static volatile int fault_sig;
static void on_fault(int s, siginfo_t *si, void *u) { (void)u; fault_sig = s; fault_addr = (uintptr_t)si->si_addr; siglongjmp(jb, 1); }

static int hexval(int c) { return c <= '9' ? c - '0' : (c | 32) - 'a' + 10; }

typedef struct { char tag; uint64_t u; } arg_t;
static arg_t args[MAXARG]; static int nargs;
#define PTR(i) ((void *)(uintptr_t)args[i].u)
#define U(i) ((size_t)args[i].u)
#define SI(i) ((int)(int64_t)args[i].u)

static void print_ptr(const void *p) {
    if (!p) { printf("N"); return; }
    for (int i = 0; i < nblk; i++) {
        if ((uint8_t *)p >= blk[i].start && (uint8_t *)p <= blk[i].start + blk[i].size) { printf("P%d:%ld", i, (long)((uint8_t *)p - blk[i].start)); return; }
    }
    printf("X");
}

/* returns 0 if the function is unknown */
static int dispatch(const char *f) {
#include "dispatch.inc"
    return 0;
}

int main(int argc, char **argv) {
    if (argc > 1) setlocale(LC_ALL, argv[1]);
    base = mmap((void *)BASE, STRIDE * MAXBLK, PROT_NONE, MAP_PRIVATE | MAP_ANONYMOUS | MAP_FIXED_NOREPLACE, -1, 0);
    if (base == MAP_FAILED) { base = mmap(0, STRIDE * MAXBLK, PROT_NONE, MAP_PRIVATE | MAP_ANONYMOUS, -1, 0); }
    if (base == MAP_FAILED) { perror("mmap"); return 2; }
    printf("# base=%p\n", (void *)base);
    struct sigaction sa; memset(&sa, 0, sizeof sa); sa.sa_sigaction = on_fault; sa.sa_flags = SA_SIGINFO | SA_NODEFER;
    sigaction(SIGSEGV, &sa, 0); sigaction(SIGBUS, &sa, 0); sigaction(SIGFPE, &sa, 0); sigaction(SIGABRT, &sa, 0); sigaction(SIGILL, &sa, 0);
    set_str_constraint_handler_s(str_handler); set_mem_constraint_handler_s(mem_handler);
    static char line[1 << 20]; static char id[64], func[64];
    while (fgets(line, sizeof line, stdin)) {
        char *p = line; int n = 0;
        if (line[0] == '#' || line[0] == '\n') continue;
        if (sscanf(p, "%63s %63s %d%n", id, func, &nblk, &n) < 3) continue;
        p += n;
        mprotect(base, STRIDE * MAXBLK, PROT_NONE);
        for (int i = 0; i < nblk; i++) {
            char mode[4]; static char hex[1 << 18];
            sscanf(p, " %1s %262143s%n", mode, hex, &n); p += n;
            size_t sz = strcmp(hex, "-") == 0 ? 0 : strlen(hex) / 2;
            uint8_t *reg = base + i * STRIDE;
            blk[i].mode = mode[0]; blk[i].size = sz;
            blk[i].start = mode[0] == 'R' ? reg + PAGE + DATA - sz : reg + PAGE;
            uintptr_t lo = (uintptr_t)blk[i].start & ~(PAGE - 1), hi = ((uintptr_t)blk[i].start + sz + PAGE - 1) & ~(PAGE - 1);
            if (hi > lo) { mprotect((void *)lo, hi - lo, PROT_READ | PROT_WRITE); memset((void *)lo, 0xA5, hi - lo); }
            for (size_t k = 0; k < sz; k++) blk[i].start[k] = (uint8_t)(hexval(hex[2 * k]) * 16 + hexval(hex[2 * k + 1]));
            /* bytes of the mapped pages outside the block: fixed filler (never compared) */
        }
        sscanf(p, " %d%n", &nargs, &n); p += n;
        for (int i = 0; i < nargs; i++) {
            char tok[64]; sscanf(p, " %63s%n", tok, &n); p += n;
            args[i].tag = tok[0];
            if (tok[0] == 'N') args[i].u = 0;
            else if (tok[0] == 'P') { int b; long off; sscanf(tok + 1, "%d:%ld", &b, &off); args[i].u = (uint64_t)(uintptr_t)(blk[b].start + off); }
            else if (tok[0] == 'I') args[i].u = strtoull(tok + 1, 0, 10);
            else if (tok[0] == 'S') args[i].u = (uint64_t)strtoll(tok + 1, 0, 10);
        }
        hn = 0; fault_sig = 0; errno = 0;
        printf("%s ret=", id);
        if (!sigsetjmp(jb, 1)) {
            if (!dispatch(func)) printf("UNKNOWN");
        } else printf("FAULT");
        printf(" h=");
        if (hn == 0) printf("-");
        for (int i = 0; i < hn && i < 64; i++) printf("%s%c:%d", i ? "," : "", hlog[i].kind, hlog[i].code);
        printf(" fault=");
        if (!fault_sig) printf("-");
        else {
            int found = 0;
            for (int i = 0; i < nblk && !found; i++) {
                uint8_t *reg = base + i * STRIDE;
                if (fault_addr >= (uintptr_t)reg && fault_addr < (uintptr_t)reg + STRIDE) { printf("%d:%ld", i, (long)(fault_addr - (uintptr_t)blk[i].start)); found = 1; }
            }
            if (!found) printf("?sig%d", fault_sig);
        }
        for (int i = 0; i < nblk; i++) {
            printf(" b%d=", i);
            if (blk[i].size == 0) printf("-");
            for (size_t k = 0; k < blk[i].size; k++) printf("%02x", blk[i].start[k]);
        }
        printf("\n"); fflush(stdout);
    }
    return 0;
}
