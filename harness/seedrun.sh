#!/bin/bash
# seedrun.sh <seed-dir> <property>... : apply a seeded change to the repository ($VERIF_REPO, default /repo),
# run the checks of this /verif tree ($VERIF_ROOT, default: where this script lives), undo the change.
V="${VERIF_ROOT:-$(cd "$(dirname "${BASH_SOURCE[0]}")/.." && pwd)}"; export VERIF_ROOT="$V"
R="${VERIF_REPO:-/repo}"; export VERIF_REPO="$R"
sd="$1"; shift
cd "$R" || exit 2
git apply --check "$sd/patch.diff" 2>/dev/null || { echo "SEED $sd: patch does not apply to current $R"; exit 3; }
git apply "$sd/patch.diff"
# evidence and generated files of a mutated run must never be left behind (evidence is committed from clean-tree runs only)
keep=$(mktemp -d /tmp/verif_seed_keep.XXXXXX); cp -a "$V/evidence" "$V/coq/Gen" "$keep"/
for p in "$@"; do
  out=$(cd "$V" && timeout 1800 python3 harness/check.py $p 2>&1); rc=$?
  echo "SEED $(basename $sd) check $p: exit=$rc $(echo "$out" | grep -c '^VIOLATION') violation line(s)"
  echo "$out" | grep -A1 "^VIOLATION" | grep "what:" | head -3
done
git apply -R "$sd/patch.diff" || git checkout -- .
rm -rf "$V/evidence" "$V/coq/Gen"; cp -a "$keep/evidence" "$V/evidence"; cp -a "$keep/Gen" "$V/coq/Gen"; rm -rf "$keep"
# the restored files carry their old mtimes: make must not keep .vo files compiled from the mutated tree
touch "$V"/coq/Gen/*.v
