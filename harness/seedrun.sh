#!/bin/bash
# seedrun.sh <seed-dir> <property>... : apply a seeded change to /repo, run the checks, undo it.
sd="$1"; shift
cd /repo || exit 2
git apply --check "$sd/patch.diff" 2>/dev/null || { echo "SEED $sd: patch does not apply to current /repo"; exit 3; }
git apply "$sd/patch.diff"
# evidence and generated files of a mutated run must never be left behind (evidence is committed from clean-tree runs only)
rm -rf /tmp/verif_seed_keep; mkdir -p /tmp/verif_seed_keep; cp -a /verif/evidence /verif/coq/Gen /tmp/verif_seed_keep/
for p in "$@"; do
  out=$(cd /verif && timeout 1800 python3 harness/check.py $p 2>&1); rc=$?
  echo "SEED $(basename $sd) check $p: exit=$rc $(echo "$out" | grep -c '^VIOLATION') violation line(s)"
  echo "$out" | grep -A1 "^VIOLATION" | grep "what:" | head -3
done
git checkout -- . 
rm -rf /verif/evidence /verif/coq/Gen; cp -a /tmp/verif_seed_keep/evidence /verif/evidence; cp -a /tmp/verif_seed_keep/Gen /verif/coq/Gen; rm -rf /tmp/verif_seed_keep
# the restored files carry their old mtimes: make must not keep .vo files compiled from the mutated tree
touch /verif/coq/Gen/*.v
