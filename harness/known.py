#!/usr/bin/env python3
"""known.py -- predicates delimiting the known findings. An entry of known_findings.jsonl with
status "open" names one of these predicates; a failure is a KNOWN-FINDING only if the predicate
accepts (case, outcome, failure kind). Nothing here is written at run time."""
from vlib import BOS_UNKNOWN

PREDICATES = {}
def pred(f):
    PREDICATES[f.__name__] = f
    return f

def classify(rep, case, outcome, kind, cfgname, consts):
    for k in rep.known:
        p = PREDICATES.get(k.get('predicate'))
        if p is None: continue
        if k.get('function') and case.func not in k['function'].split(','): continue
        try:
            if p(case, outcome, kind, cfgname, consts): return k['id']
        except Exception:
            continue
    return None

def classify_simple(rep, kind, cp):
    """findings identified by (failure kind, code point) rather than by a predicate on a driver case"""
    for k in rep.known:
        if 'code_points' in k and kind in k.get('kinds', []) and cp in [int(x, 16) for x in k['code_points']]: return k['id']
    return None

def _only_changed(case, o, blk, lo, hi):
    """the outcome differs from the initial blocks only inside [lo,hi) of block blk"""
    for bi, (mode, before) in enumerate(case.blocks):
        after = o.blocks[bi]
        for k in range(len(before)):
            if after[k] != before[k] and not (bi == blk and lo <= k < hi): return False
    return True

@pred
def kf_strncpy_slen0_shortcut(case, o, kind, cfg, consts):
    # strncpy_s(dest, dmax, src, 0): "*dest = 0; return EOK" before any other check
    m = case.meta
    if not (case.func in ('strncpy_s', 'wcsncpy_s') and m.get('slen') == 0 and m['dest'] is not None and m['dmax'] != 0): return False
    if o.ret != '0' or o.handlers: return False
    b, off = m['dest']; w = m.get('w', 1)
    return _only_changed(case, o, b, off, off + w) and o.blocks[b][off:off + w] == b'\x00' * w

@pred
def kf_strncat_slen0(case, o, kind, cfg, consts):
    # strncat_s(dest, dmax, src, 0) with usable dest: handle_error(dest, dmax, EOK|ESZEROL): clears dest, calls the handler, returns EOK
    m = case.meta
    if not (case.func in ('strncat_s', 'wcsncat_s') and m.get('slen') == 0 and m['dest'] is not None and m.get('src') is not None): return False
    if o.ret != '0' or [tuple(h) for h in o.handlers] != [('S', '0')]: return False
    b, off = m['dest']
    return _only_changed(case, o, b, off, off + m['dmax'] * m.get('w', 1))

@pred
def kf_bos_replaces_dmax(case, o, kind, cfg, consts):
    # memset_s/memset16_s/memset32_s/memcpy16_s/memcpy32_s/memmove16_s/memmove32_s: "dmax = destbos" when the object size is known
    m = case.meta
    if m.get('destbos') in (None, BOS_UNKNOWN) or m['dest'] is None: return False
    dbytes = m['dmax']
    if not (m['destbos'] > dbytes): return False
    b, off = m['dest']
    # every changed byte lies inside the (truthful) object [dest, dest+destbos)
    return _only_changed(case, o, b, off, off + m['destbos']) and o.fault == '-'

@pred
def kf_noslack_partial(case, o, kind, cfg, consts):
    # build without SAFECLIB_STR_NULL_SLACK: handle_error stores only dest[0] = 0, the partial copy stays behind it
    m = case.meta
    if consts['null_slack'] or m['kind'] not in ('cpy', 'cat', 'ncpy', 'ncat') or m['dest'] is None: return False
    if kind not in ('partial',): return False
    b, off = m['dest']; w = m['w']
    return o.blocks[b][off:off + w] == b'\x00' * w and o.ret in ('404', '406', '407')

@pred
def kf_ncpy_backward_bumper_before_slen(case, o, kind, cfg, consts):
    # strncpy_s/strncat_s with src below dest: the bumper test precedes the slen==0 test, so src+slen == dest (nothing of dest read) is rejected
    m = case.meta
    if m.get('cls') == 'sweep-ovl':
        # the same loop order in stpncpy_s (sweep arena cases: byte offsets a = dest, b = src)
        return (case.func == 'stpncpy_s' and kind == 'disjoint-rejected' and m['b'] < m['a'] and m['b'] + m['slen'] == m['a']
                and m['L'] >= m['slen'] and '404' in [h[1] for h in o.handlers])
    if m.get('cls') != 'arena' or m['kind'] not in ('ncpy', 'ncat') or kind != 'disjoint-rejected': return False
    w = m['w']
    d0 = m['dest'][1] // w; s0 = m['src'][1] // w
    return s0 < d0 and s0 + m['slen'] == d0 and m['srclen'] >= m['slen'] and o.ret == '404'

@pred
def kf_cpy_same_pointer(case, o, kind, cfg, consts):
    # strcpy_s/wcscpy_s(dest, dmax, dest): "if (dest == src) return EOK" -- nothing is checked or cleared
    m = case.meta
    if m['kind'] != 'cpy' or m['dest'] is None or m['dest'] != m.get('src'): return False
    return o.ret == '0' and not o.handlers and all(o.blocks[i] == b for i, (_, b) in enumerate(case.blocks))

@pred
def kf_prescan_miss(case, o, kind, cfg, consts):
    # handled inline in props.check_C09 (needs the model verdict): libc-delegating entry, pre-scan accepts, format has an n conversion
    return False

@pred
def kf_tok_unterm_reads_past(case, o, kind, cfg, consts):
    # strtok_s/wcstok_s: "while (*dest != 0 ...) { if (dlen == 0) ..." reads dest[dmax] of an unterminated string before testing the remaining length
    m = case.meta
    return m.get('cls') == 'tok' and m['dm_rel'] == 'unterm' and kind == 'fault' and o.fault == '0:%d' % (m['dmax'] * m['w'])

@pred
def kf_tok_empty_delims(case, o, kind, cfg, consts):
    # an empty delimiter list: no character is ever taken as a token start (ptoken is only set after a failed comparison)
    m = case.meta
    if m.get('cls') != 'tok' or kind not in ('wrong-tokens',) or o.fault != '-': return False
    import props
    vals = [int(v) for v in o.ret.split(',')]; toks = vals[0::3]
    ref, _ = props.tok_reference(m['chars'] + [0], m['sets'], m['dmax'], m['w'])
    want = [(-1 if t is None else t) for t in ref]
    i = next((k for k in range(len(want)) if toks[k] != want[k]), None)
    return i is not None and m['sets'][i] == [] and toks[i] == -1

@pred
def kf_tok_unterm_writes_past(case, o, kind, cfg, consts):
    # "dest is unterminated" exits that do "*dmaxp = 0; *dest = 0" with dest == original dest + dmax: the token-end phase of both
    # functions, and (wcstok_s only) the leading-delimiter phase
    m = case.meta
    if m.get('cls') != 'tok' or m['dm_rel'] != 'unterm_slack' or kind != 'write-past-dmax': return False
    import fam_copy
    w = m['w']
    after = fam_copy.dec(o.blocks[0], w); before = fam_copy.dec(case.blocks[0][1], w)
    if not (after[m['dmax']] == 0 and after[m['dmax'] + 1:] == before[m['dmax'] + 1:]): return False
    # which phase ran out of length: the one the last call was in when it hit dest[dmax]
    vals = [int(v) for v in o.ret.split(',')]; toks = vals[0::3]
    first_null = toks.index(-1) if -1 in toks else len(toks) - 1
    D = m['sets'][first_null]
    # position where that call started
    start = 0 if first_null == 0 else vals[3 * (first_null - 1) + 2]
    rest = m['chars'][start:] if start >= 0 else []
    in_token_phase = any(ch not in D for ch in rest) and len(D) > 0
    return in_token_phase or case.func == 'wcstok_seq'

@pred
def kf_strzero_unprotected(case, o, kind, cfg, consts):
    return False   # a source-shape finding (no failing input): reported by check_C18 from the regenerated shape

@pred
def kf_conv_len_exceeds_dmax(case, o, kind, cfg, consts):
    # mbstowcs_s / wcstombs_s hand 'len' to libc unclamped: with len > dmax libc stores up to len elements
    m = case.meta
    return m.get('cls') == 'conv' and m.get('op') in ('mbstowcs', 'wcstombs') and kind == 'write-past-dmax' and m['len'] > m['dmax'] and o.fault == '-'

@pred
def kf_conv_bos_len_clears_object(case, o, kind, cfg, consts):
    # known object size, dmax elements fit it, len elements do not: EOVERFLOW/ESLEMAX and the whole object is cleared, beyond dest[dmax)
    m = case.meta
    return m.get('kind') == 'bos-len' and kind in ('write-past-dmax', 'write-outside') and o.ret in ('75', '403')

@pred
def kf_wcxtomb_small_dmax(case, o, kind, cfg, consts):
    # wcrtomb_s / wctomb_s call libc with dest before knowing whether the character fits: up to MB_CUR_MAX bytes are stored
    m = case.meta
    if not (m.get('cls') == 'conv' and m.get('op') in ('wcrtomb', 'wctomb') and kind == 'write-past-dmax' and o.fault == '-'): return False
    try: nb = len(chr(m['wc']).encode('utf-8'))
    except Exception: return False
    return nb > m['dmax'] and o.blocks[1][nb:] == case.blocks[1][1][nb:]

@pred
def kf_wcstombs_empty(case, o, kind, cfg, consts):
    # wcstombs_s: "l > 0 && l < dmax" -- a converted length of 0 (empty wide string, len = 0, or len smaller than the
    # first character) is reported as ESNOSPC
    m = case.meta
    if not (m.get('cls') == 'conv' and m.get('op') in ('wcstombs', 'wcsrtombs') and kind in ('valid-rejected', 'query-length') and o.ret == '406'): return False
    chars = m.get('chars') or []
    if not chars: return True
    if m['kind'] == 'query': return False
    return m['len'] < len(chr(chars[0]).encode('utf-8'))

@pred
def kf_wcstombs_len0(case, o, kind, cfg, consts):
    return False

@pred
def kf_wcsrtombs_noslack_unterminated(case, o, kind, cfg, consts):
    # wcsrtombs_s success path: the terminator / slack clear is inside #ifdef SAFECLIB_STR_NULL_SLACK only; when libc stopped at len
    # (no terminator stored) the no-slack build returns EOK with an unterminated dest
    m = case.meta
    if consts['null_slack'] or m.get('op') != 'wcsrtombs' or kind != 'wrong-conversion' or o.ret != '0': return False
    nb = len(''.join(chr(c) for c in m['chars']).encode('utf-8'))
    return m['len'] <= nb      # libc was stopped by len before it could store the terminator

@pred
def kf_norm_037e(case, o, kind, cfg, consts):
    # U+037E is left alone (table slot 0 = "no mapping"); everything else in the string is normalised as it should
    import unicodedata as ud
    m = case.meta
    if kind != 'norm-wrong' or 0x37e not in m.get('s', []) or 0xe000 in m['s']: return False
    want = [ord(x) for x in ud.normalize('NFC' if m['mode'] == 1 else 'NFD', ''.join(chr(0xe000 if c == 0x37e else c) for c in m['s']))]
    want = [0x37e if c == 0xe000 else c for c in want]
    d = [int.from_bytes(o.blocks[1][i:i + 4], 'little') for i in range(0, len(o.blocks[1]) - 3, 4)]
    return 0 in d and d[:d.index(0)] == want

# ---------------------------------------------------------------- C11 (printf engine)
C11_KINDS = ('text-differs', 'stream-differs', 'count-wrong', 'fits-but-failed', 'nofit-success')
def _c11_dirs(case): return case.meta.get('ds') or []
def _star_args(d):
    """(width arg or None, precision arg or None) of the * fields"""
    k = 0; w = p = None
    if d.width == '*': w = d.args[k]; k += 1
    if d.prec == '*': p = d.args[k]; k += 1
    return w, p
def _is_int(d): return d.conv in 'diuxXo'
def _left(d):
    w, _ = _star_args(d); return '-' in d.flags or (w is not None and w < 0)
def _has_prec(d): return d.prec is not None
def _num(x, star): return star if x == '*' else (0 if x in ('', None) else x)

@pred
def kf_c11_exact_fit(case, o, kind, cfg, consts):
    # the text has exactly dmax characters: the engine overwrites the last one with the terminator and returns dmax
    m = case.meta; t = m.get('text')
    return (m.get('kind') == 'buffer' and m['func'] in ('snprintf_s', 'sprintf_s', 'vsnprintf_s') and kind in ('nofit-success', 'count-wrong')
            and o.ret == str(m['dmax']))
@pred
def kf_c11_left_precision(case, o, kind, cfg, consts):
    # safec_ntoa_format pads to the precision only when FLAGS_LEFT is clear
    return kind in C11_KINDS and any(_is_int(d) and _left(d) and _has_prec(d) for d in _c11_dirs(case))
@pred
def kf_c11_hash(case, o, kind, cfg, consts):
    # '#' with a precision or a width: the prefix handling drops digits / adds a zero (octal)
    return kind in C11_KINDS and any(_is_int(d) and d.conv in 'xXo' and '#' in d.flags and (d.prec is not None or d.width is not None) for d in _c11_dirs(case))
@pred
def kf_c11_ntoa_buffer(case, o, kind, cfg, consts):
    # precision or zero-padded width of 32 or more: the digit buffer has 32 slots
    def big(d):
        w, p = _star_args(d)
        return _num(d.prec, p) >= 31 or ('0' in d.flags and _num(d.width, abs(w) if w is not None else 0) >= 31)
    return kind in C11_KINDS and any(_is_int(d) and big(d) for d in _c11_dirs(case))
@pred
def kf_c11_negative_star_precision(case, o, kind, cfg, consts):
    # a negative * precision is taken as precision 0 with FLAGS_PRECISION set, C takes it as omitted
    def neg(d):
        _, p = _star_args(d); return p is not None and p < 0
    return kind in C11_KINDS and any(neg(d) for d in _c11_dirs(case))
@pred
def kf_c11_string_zero_precision(case, o, kind, cfg, consts):
    # %.0s / %.s: strnlen is unbounded when precision is 0, so the "exceeds dmax" test uses the full length
    def z(d):
        _, p = _star_args(d); return d.conv == 's' and d.length == '' and d.prec is not None and _num(d.prec, p if p is not None else 0) <= 0
    return kind == 'fits-but-failed' and any(z(d) for d in _c11_dirs(case))
@pred
def kf_c11_wide(case, o, kind, cfg, consts):
    # %ls: wcstombs_s into a buffer of wcsnlen+1 BYTES; %lc after the fix is fine for ASCII only when padding counts bytes
    return kind in C11_KINDS + ('fault',) and any(d.length == 'l' and d.conv in 'cs' for d in _c11_dirs(case))
_float_table = None
@pred
def kf_c11_float_grid(case, o, kind, cfg, consts):
    # floating conversions: the committed table of grid cases that deviate on the unchanged tree (known_float_cases.tsv)
    global _float_table
    if _float_table is None:
        import props; _float_table = props.c11_load_float_table()
    import props
    return kind in C11_KINDS + ('order-dependent',) and any(d.conv in 'fFeEgG' and props.c11_float_key(d) in _float_table for d in _c11_dirs(case))

# ---------------------------------------------------------------- C10 (query functions)
def _sg32(x): return x - (1 << 32) if x >= 1 << 31 else x
@pred
def kf_c10_cmp_reads_element_dmax(case, o, kind, cfg, consts):
    # the loop stops when dmax (or smax / count) is used up, then "*resultp = *dest - *src" reads the NEXT pair:
    # operands equal over the window, result taken from element [n]
    m = case.meta; f = case.func
    if kind != 'wrong-sign' or f not in ('strcmp_s', 'strcasecmp_s', 'wcscmp_s', 'wcsncmp_s'): return False
    d, s = m['d'], m['s']; n = m['dmax']
    if f in ('wcscmp_s', 'wcsncmp_s'): n = min(n, m['smax'])
    if f == 'wcsncmp_s': return False
    up = (lambda l: [x - 32 if 0x61 <= x <= 0x7a else x for x in l]) if f == 'strcasecmp_s' else (lambda l: l)
    return up(d[:n]) == up(s[:n]) and (len(d) > n or len(s) > n) and min(len(d), len(s)) >= n
@pred
def kf_c10_wcsncmp_ignores_count(case, o, kind, cfg, consts):
    # wcsncmp_s: same element-[n] read, with n the smallest of dmax, smax and count
    m = case.meta
    if kind != 'wrong-sign' or case.func != 'wcsncmp_s': return False
    n = min(m['dmax'], m['smax'], case.args[4]); d, s = m['d'], m['s']
    return d[:n] == s[:n]
@pred
def kf_c10_strcasecmp_folds_up(case, o, kind, cfg, consts):
    # strcasecmp_s folds to upper case, strcasecmp to lower case: the characters [ \\ ] ^ _ ` (0x5b..0x60) order differently against letters
    m = case.meta
    if case.func != 'strcasecmp_s' or kind != 'wrong-sign': return False
    d, s_ = m['d'][:m['dmax']], m['s'][:m['dmax']]
    up = lambda l: [x - 32 if 0x61 <= x <= 0x7a else x for x in l]
    lo = lambda l: [x + 32 if 0x41 <= x <= 0x5a else x for x in l]
    n = min(len(d), len(s_))
    k = next((i for i in range(n) if up(d)[i] != up(s_)[i]), None)
    if k is None: return False
    a, b = d[k], s_[k]
    between = lambda x: 0x5b <= x <= 0x60
    letter = lambda x: 0x41 <= x <= 0x5a or 0x61 <= x <= 0x7a
    return (between(a) and letter(b)) or (between(b) and letter(a))

@pred
def kf_c10_strcmp_signed_char(case, o, kind, cfg, consts):
    # strcmp_s subtracts plain (signed) chars: a byte >= 0x80 compares below ASCII
    m = case.meta
    if kind != 'wrong-sign' or case.func != 'strcmp_s': return False
    d, s = m['d'] + [0], m['s'] + [0]
    for a, b in zip(d, s):
        if a != b: return (a >= 128) != (b >= 128)
    return False
@pred
def kf_c10_wide_difference_overflow(case, o, kind, cfg, consts):
    # wcscmp_s / wcsncmp_s / memcmp32_s return the wrapped difference of two 32-bit values
    m = case.meta; f = case.func
    if kind != 'wrong-sign' or f not in ('wcscmp_s', 'wcsncmp_s', 'memcmp32_s'): return False
    if f == 'memcmp32_s':
        import fam_copy
        a = fam_copy.dec(bytes(m['a']), 4); b = fam_copy.dec(bytes(m['b']), 4)
        for x, y in zip(a, b):
            if x != y: return abs(x - y) >= 1 << 31
        return False
    for x, y in zip(m['d'] + [0], m['s'] + [0]):
        if x != y: return abs(_sg32(x) - _sg32(y)) >= 1 << 31
    return False
@pred
def kf_c10_strchr_index_dmax(case, o, kind, cfg, consts):
    # strchr_s: "(*resultp - dest) > dmax" lets a match AT index dmax through
    m = case.meta
    if case.func != 'strchr_s' or kind != 'wrong-code' or o.ret != '0': return False
    hay = m['d'] + [0]; ch = m['ch'] & 0xff
    return ch in hay and hay.index(ch) == m['dmax']
@pred
def kf_c10_strpbrk_slen(case, o, kind, cfg, consts):
    # strpbrk_s: the inner loop looks at slen+1 characters of src and gives up on the whole search when slen runs out first
    m = case.meta
    return case.func == 'strpbrk_s' and kind in ('wrong-code', 'wrong-position') and m['slen'] < len(m['s'])
@pred
def kf_c10_stris_ignore_dmax(case, o, kind, cfg, consts):
    # strisdigit_s, strisuppercase_s, strismixedcase_s: "while (*dest)" never tests dmax
    m = case.meta
    return case.func in ('strisdigit_s', 'strisuppercase_s', 'strismixedcase_s') and kind == 'wrong-answer' and m['dmax'] < len(m['d'])

# ---------------------------------------------------------------- C02 (query functions, declared extents)
C02_DEREF_FIRST = {'dest': ['strcasecmp_s', 'strcasestr_s', 'strchr_s', 'strcmp_s', 'strcspn_s', 'strfirstchar_s', 'strfirstdiff_s', 'strfirstsame_s', 'strisalphanumeric_s', 'strisascii_s',
                            'strisdigit_s', 'strishex_s', 'strislowercase_s', 'strismixedcase_s', 'strisuppercase_s', 'strlastchar_s', 'strlastdiff_s', 'strlastsame_s', 'strpbrk_s', 'strspn_s',
                            'strstr_s', 'wcscmp_s', 'wcsncmp_s', 'wcsstr_s',
                            'strcoll_s', 'strispassword_s', 'strnatcmp_s'],     # round 4: the C library's strcoll is unbounded; the other two test *dest first
                   'src': ['strcasestr_s', 'strcspn_s', 'strpbrk_s', 'strspn_s', 'strstr_s']}
@pred
def kf_c02_query_derefs_element_n(case, o, kind, cfg, consts):
    # loops of the form "while (*dest && dmax)" (or a read after the loop): the element at index dmax / slen is dereferenced
    m = case.meta
    if m.get('cls') != 'query-extent' or kind != 'fault': return False
    unit = 4 if case.func.startswith('wcs') else 1
    for which, blk in (('dest', 1), ('src', 2)):
        if case.func in C02_DEREF_FIRST[which] and o.fault == '%d:%d' % (blk, len(case.blocks[blk][1])) and len(case.blocks[blk][1]) == m['n'] * unit: return True
    return False
@pred
def kf_c10_strpbrk_clears_dest(case, o, kind, cfg, consts):
    # strpbrk_s: "slen exceeds src" is reported through handle_str_bos_overflow(dest, destbos), which clears dest
    m = case.meta
    return case.func == 'strpbrk_s' and kind == 'operand-modified' and m.get('cls') == 'src-bos-small' and o.ret == '75' and o.blocks[2] == case.blocks[2][1]
