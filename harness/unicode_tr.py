#!/usr/bin/env python3
"""translator "unitables" + "ucdref" (C17, T2): the function graphs of the library's normalisation and folding
lookups (obtained by running the working tree's own code on every code point) and the reference graphs from
Python's unicodedata (UCD 14.0.0), written to Gen/UniTables.v; also returns the discrepancies found on the way."""
import os, subprocess, unicodedata, sys
def run_dumpers(repo, impl_dir, scratch):
    out = {}
    for name, extra in (('unidump_norm', ['-I' + repo + '/src']), ('unidump_fold', [])):
        exe = '%s/%s' % (scratch, name)
        p = subprocess.run(['gcc', '-w', '-O1', '-DHAVE_CONFIG_H', '-I' + impl_dir + '/inc', '-I' + repo] + extra +
                           [os.path.dirname(os.path.abspath(__file__)) + '/dumpers/%s.c' % name, impl_dir + '/libimpl.a', '-o', exe], capture_output=True, text=True)
        if p.returncode != 0: raise RuntimeError('cannot build %s: %s' % (name, p.stderr[-800:]))
        q = subprocess.run([exe], capture_output=True, text=True, timeout=300)
        if q.returncode != 0: raise RuntimeError('%s crashed (rc %d)' % (name, q.returncode))
        out[name] = q.stdout
    return out

def assigned14(cp): return unicodedata.category(chr(cp)) != 'Cn'

def analyse(dumps):
    D = {}; C = {}; P = {}; H = {}; F = {}; misc = {}; X = set()
    for l in dumps['unidump_norm'].split('\n'):
        f = l.split()
        if not f: continue
        if f[0] == 'D': D[int(f[1], 16)] = [int(x, 16) for x in f[2:]]
        elif f[0] == 'C': C[int(f[1], 16)] = int(f[2])
        elif f[0] == 'H': H[int(f[1], 16)] = [int(x, 16) for x in f[2:]]
        elif f[0] == 'P': P[(int(f[1], 16), int(f[2], 16))] = (int(f[3], 16), int(f[4], 16))
        elif f[0] == 'X': X.add(int(f[1], 16))
        elif f[0] == 'R': misc['decomp_110000'] = int(f[2])
        elif f[0] == 'E': misc.setdefault('decomp_errors', []).append((int(f[1], 16), int(f[2])))
    for l in dumps['unidump_fold'].split('\n'):
        f = l.split()
        if not f: continue
        if f[0] == 'F': F[int(f[1], 16)] = (int(f[2]), int(f[3]), int(f[4]), [int(x, 16) for x in f[5:]])
        elif f[0] == 'R': misc['fold_110000'] = (int(f[2]), int(f[3]))
    # reference graphs (UCD 14)
    rD = {}; rC = {}; rP = {}
    for cp in range(0x110000):
        if 0xd800 <= cp <= 0xdfff or not assigned14(cp): continue
        ch = chr(cp)
        cc = unicodedata.combining(ch)
        if cc: rC[cp] = cc
        if 0xac00 <= cp <= 0xd7a3: continue
        nfd = unicodedata.normalize('NFD', ch)
        if nfd != ch: rD[cp] = [ord(x) for x in nfd]
        dec = unicodedata.decomposition(ch)
        if dec and not dec.startswith('<'):
            parts = [int(x, 16) for x in dec.split()]
            if len(parts) == 2 and unicodedata.normalize('NFC', chr(parts[0]) + chr(parts[1])) == ch:
                rP[(parts[0], parts[1])] = cp
    problems = []
    for cp, v in D.items():
        if assigned14(cp) and rD.get(cp) != v: problems.append(('decomposition', cp, 'library decomposes U+%04X to %s, UAX#15 canonical decomposition is %s' % (cp, ['%04X' % x for x in v], ['%04X' % x for x in rD.get(cp, [cp])])))
    for cp, v in rD.items():
        if cp not in D: problems.append(('decomposition', cp, 'U+%04X has the canonical decomposition %s, the library has none' % (cp, ['%04X' % x for x in v])))
    for cp, v in C.items():
        if assigned14(cp) and rC.get(cp, 0) != v: problems.append(('ccc', cp, 'combining class of U+%04X is %d in the library, %d in the UCD' % (cp, v, rC.get(cp, 0))))
    for cp, v in rC.items():
        if C.get(cp, 0) != v: problems.append(('ccc', cp, 'combining class of U+%04X is %d in the UCD, %d in the library' % (cp, v, C.get(cp, 0))))
    for (a, b), (c, got) in P.items():
        if c != got: problems.append(('compose', a, 'composition list (U+%04X, U+%04X) says U+%04X but the lookup returns U+%04X' % (a, b, c, got)))
        eff = None if c in X else c
        if assigned14(a) and assigned14(b) and assigned14(c) and rP.get((a, b)) != eff:
            problems.append(('compose', a, 'library composes (U+%04X, U+%04X) to %s; the primary composite is %s' % (a, b, eff and '%04X' % eff, rP.get((a, b)) and '%04X' % rP[(a, b)])))
    for (a, b), c in rP.items():
        if (a, b) not in P or P[(a, b)][0] in X: problems.append(('compose', a, 'pair (U+%04X, U+%04X) composes to U+%04X, missing in the library' % (a, b, c)))
    for cp, v in H.items():
        ref = [ord(x) for x in unicodedata.normalize('NFD', chr(cp))]
        if v != ref: problems.append(('hangul', cp, 'Hangul syllable U+%04X decomposes to %s, expected %s' % (cp, v, ref)))
    for cp, (a, r, n, chars) in F.items():
        if cp == 0: continue
        if n != max(a, 1): problems.append(('fold-length', cp, 'iswfc(U+%04X) announces %d but towfc_s emitted %d characters (returned %d)' % (cp, a, n, r)))
    return dict(X=X, D=D, C=C, P=P, H=H, F=F, rD=rD, rC=rC, rP=rP, misc=misc), problems

def write_gen(g, coqdir):
    def zl(l): return '[' + '; '.join(str(x) for x in l) + ']'
    new15 = sorted(set(cp for cp in list(g['D']) + list(g['C']) if not assigned14(cp)) | set(a for (a, b) in g['P'] if not (assigned14(a) and assigned14(b) and assigned14(g['P'][(a, b)][0]))))
    L = ['(* GENERATED on every run by harness/unicode_tr.py: function graphs of the library lookups (running the working tree\'s own',
         '   code on every code point) and the UCD 14.0.0 reference graphs from Python unicodedata. *)',
         'From Coq Require Import List ZArith.', 'Import ListNotations.', 'Local Open Scope Z_scope.']
    L.append('Definition impl_decomp : list (Z * list Z) := [\n' + ';\n'.join('(%d, %s)' % (k, zl(v)) for k, v in sorted(g['D'].items())) + '].')
    L.append('Definition ref_decomp : list (Z * list Z) := [\n' + ';\n'.join('(%d, %s)' % (k, zl(v)) for k, v in sorted(g['rD'].items())) + '].')
    L.append('Definition impl_ccc : list (Z * Z) := [' + '; '.join('(%d, %d)' % kv for kv in sorted(g['C'].items())) + '].')
    L.append('Definition ref_ccc : list (Z * Z) := [' + '; '.join('(%d, %d)' % kv for kv in sorted(g['rC'].items())) + '].')
    L.append('Definition impl_compose : list (Z * Z * Z) := [' + '; '.join('(%d, %d, %d)' % (a, b, c[1]) for (a, b), c in sorted(g['P'].items())) + '].')
    L.append('Definition impl_excl : list Z := ' + zl(sorted(g['X'])) + '.')
    L.append('Definition ref_compose : list (Z * Z * Z) := [' + '; '.join('(%d, %d, %d)' % (a, b, c) for (a, b), c in sorted(g['rP'].items())) + '].')
    L.append('(* code points with library entries that UCD 14 does not assign (newer Unicode): outside the comparison *)')
    L.append('Definition newer_than_ref : list Z := ' + zl(new15) + '.')
    L.append('(* folding: code point, iswfc, number of characters towfc_s emitted (non-trivial entries only) *)')
    L.append('Definition impl_fold : list (Z * Z * Z) := [' + '; '.join('(%d, %d, %d)' % (cp, v[0], v[2]) for cp, v in sorted(g['F'].items()) if cp != 0) + '].')
    txt = '\n'.join(L) + '\n'
    path = coqdir + '/Gen/UniTables.v'
    if not os.path.exists(path) or open(path).read() != txt: open(path, 'w').write(txt)
if __name__ == '__main__':
    import shutil
    sys.path.insert(0, '/verif/harness'); import vlib
    scr = vlib.Scratch('uni'); impl = vlib.build_impl(scr, 'O1')
    g, pr = analyse(run_dumpers('/repo', impl, scr.dir)); print(len(pr)); print(pr[:10]); print(g['misc'])
    write_gen(g, '/verif/coq'); scr.cleanup()
