/* unidump_norm.c -- C17 translator input: the function graphs of the library's own normalisation lookups,
   obtained by calling them on EVERY code point (the .c file is included to reach the static functions). */
#include "extwchar/wcsnorm_s.c"
#include <stdio.h>
static void nohandler(const char *m, void *p, errno_t e) { (void)m; (void)p; (void)e; }
int main(void) {
    set_str_constraint_handler_s(nohandler);
    wchar_t buf[16];
    for (uint32_t cp = 0; cp <= 0x10ffff; cp++) {
        if (cp >= 0xd800 && cp <= 0xdfff) continue;
        int c = _decomp_s(buf, 16, cp, false);
        if (c > 0 && !(cp >= 0xac00 && cp <= 0xd7a3)) { printf("D %x", cp); for (int i = 0; i < c; i++) printf(" %x", (unsigned)buf[i]); printf("\n"); }
        else if (c < 0) printf("E %x %d\n", cp, c);
        unsigned cc = _combin_class(cp);
        if (cc) printf("C %x %u\n", cp, cc);
    }
    /* Hangul: algorithmic, sampled exhaustively as (syllable -> jamo) */
    for (uint32_t cp = 0xac00; cp <= 0xd7a3; cp++) { int c = _decomp_s(buf, 16, cp, false); printf("H %x", cp); for (int i = 0; i < c; i++) printf(" %x", (unsigned)buf[i]); printf("\n"); }
    /* composition lists: every (first, second) -> composite stored in the tables */
    for (uint32_t cp = 0; cp <= 0x10ffff; cp++) {
        const UNWIF_complist_s ***plane = UNWIF_compos[cp >> 16]; if (!plane) continue;
        const UNWIF_complist_s **row = plane[(cp >> 8) & 0xff]; if (!row) continue;
        const UNWIF_complist_s *cell = row[cp & 0xff]; if (!cell) continue;
        if (cp < UNWIF_COMPLIST_FIRST_LONG) { for (const UNWIF_complist_s *i = cell; i->nextchar; i++) printf("P %x %x %x %x\n", cp, (unsigned)i->nextchar, (unsigned)i->composite, (unsigned)_composite_cp(cp, i->nextchar)); }
        else { for (const UNWIF_complist *i = (const UNWIF_complist *)cell; i->nextchar; i++) printf("P %x %x %x %x\n", cp, (unsigned)i->nextchar, (unsigned)i->composite, (unsigned)_composite_cp(cp, i->nextchar)); }
    }
    for (uint32_t cp = 0; cp <= 0x10ffff; cp++) if (isExclusion(cp)) printf("X %x\n", cp);
    /* out-of-range code points must be rejected, not used as table indices */
    printf("R 110000 %d\n", _decomp_s(buf, 16, 0x110000, false));
    return 0;
}
