/* unidump_fold.c -- C17(c): iswfc(cp) and what towfc_s emits, for every code point */
#include <stdio.h>
#include <wchar.h>
#include <locale.h>
#include <stdint.h>
#include "safe_str_lib.h"
static void nohandler(const char *m, void *p, errno_t e) { (void)m; (void)p; (void)e; }
int main(void) {
    setlocale(LC_ALL, "C.UTF-8");
    set_str_constraint_handler_s(nohandler);
    wchar_t buf[8];
    for (uint32_t cp = 0; cp <= 0x10ffff; cp++) {
        if (cp >= 0xd800 && cp <= 0xdfff) continue;
        int a = iswfc(cp);
        buf[0] = buf[1] = buf[2] = buf[3] = 0x7777;
        int r = _towfc_s_chk(buf, 4, cp, BOS_UNKNOWN);
        int n = 0; while (n < 4 && buf[n] != 0) n++;
        /* trivial: announced 0, nothing folded, the character itself emitted */
        if (a == 0 && r == -409 && n == 1 && (uint32_t)buf[0] == cp) continue;
        printf("F %x %d %d %d", cp, a, r, n); for (int i = 0; i < n; i++) printf(" %x", (unsigned)buf[i]); printf("\n");
    }
    int r = _towfc_s_chk(buf, 4, 0x110000, BOS_UNKNOWN); printf("R 110000 %d %d\n", iswfc(0x110000), r);
    return 0;
}
