#!/usr/bin/env python3
"""One-off tool (NOT run by any check): runs the fixed floating-conversion grid of C11 on the current tree and writes the
deviating (directive, value) pairs to /verif/known_float_cases.tsv.  Run only on a tree whose float behaviour has been reviewed."""
import sys, os, random
sys.path.insert(0, '/verif/harness')
import vlib, props, fam_copy
def label(d, got, want):
    v = d.args[-1][1]
    if v != v or v in (float('inf'), float('-inf')): return 'nonfinite-sign-or-padding'
    if v == 0.0: return 'zero-or-negative-zero'
    if abs(v) < 1e-300: return 'denormal'
    if d.length == 'L': return 'long-double-via-libc-format'
    if abs(v) > 1e9 and d.conv in 'fF': return 'beyond-1e9-in-exponent-form'
    if d.prec == 12: return 'precision-above-9'
    if '#' in d.flags: return 'hash-ignored'
    if d.conv in 'gG': return 'g-stripping-or-exponent-choice'
    if d.conv in 'eE': return 'exponent-normalisation'
    return 'other'
def main():
    scr = vlib.Scratch('fbase'); impl = vlib.build_impl(scr, 'O1'); rng = random.Random(1)
    grid = props.C11_FLOAT_GRID
    def run(func, dmaxf):
        cs = [props.c11_case(i, func, d.text().encode(), d.args, dmaxf(i), rng) for i, d in enumerate(grid)]
        cf = scr.dir + '/g.txt'; open(cf, 'w').write(''.join(c.line() + '\n' for c in cs))
        return cs, vlib.run_impl(impl, cf, cs, locale='C.UTF-8')
    rc, ro = run('x:libc_snprintf', lambda i: 4096)
    ref = {}
    for i, c in enumerate(rc):
        a = ro[c.id]; ref[i] = a.blocks[0][:int(a.ret)]
    ic, io = run('x:snprintf_s', lambda i: len(ref[i]) + 12)
    rows = []
    for i, c in enumerate(ic):
        a = io[c.id]; d = grid[i]; want = ref[i]
        ok = False
        if a.fault == '-' and int(a.ret) >= 0:
            dest = a.blocks[0]; got = dest[:dest.index(0)] if 0 in dest else None
            ok = got is not None and int(a.ret) == len(got) and (got == want or (len(got) == len(want) and props.c11_float_ok(None, got, want)))
        else: got = b''
        if not ok: rows.append('%s\t%s\t%s\t%s' % (props.c11_float_key(d), label(d, got, want), (got or b'').decode('latin1'), want.decode('latin1')))
    open('/verif/known_float_cases.tsv', 'w').write('\n'.join(rows) + '\n')
    print(len(rows), 'of', len(grid)); scr.cleanup()
main()
