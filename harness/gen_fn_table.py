#!/usr/bin/env python3
# generates fn_table.ml (name -> extracted constructor, return kind) from coq/Dispatch.v
import re,sys,os
V=os.environ.get('VERIF_ROOT') or os.path.dirname(os.path.dirname(os.path.abspath(__file__)))
src=open(V+'/coq/Dispatch.v').read()
m=re.search(r'Inductive fn :=(.*?)\.\n',src,re.S)
names=re.findall(r'F_(\w+)',m.group(1))
# functions whose first result is a pointer
ptr_ret=set(l.strip() for l in open(V+'/harness/ptr_ret.txt')) if __import__('os').path.exists(V+'/harness/ptr_ret.txt') else set()
out=["let fn_of_string = function"]
for n in names:
    out.append('  | "%s" -> Some (Model.F_%s, \'%s\')'%(n,n,'P' if n in ptr_ret else 'I'))
out.append("  | _ -> None")
out.append("let all_names = [%s]"%'; '.join('"%s"'%n for n in names))
open(sys.argv[1],'w').write('\n'.join(out)+'\n')
