#!/usr/bin/env python3
"""sweep.py -- the cross-cutting properties (C01, C02, C03, C04, C06, C08) on the destination-writing entry
points outside the copy/concatenate/memory core: the pointer-returning copies, field copies, memccpy_s,
wide memory copies, in-place string functions, line input, and -- by re-using the generators of C11, C15
and C17 -- the formatted-output, conversion and normalisation families.

Every case carries a destination descriptor  meta['gd']  (block, offset, element count, element width, what
else the call may legitimately write, how failure is indicated); the oracles below are generic in it.  Where a
Coq model of the function exists the caller also compares with the model; for the others this is an
implementation-side oracle (a test), which is what the evidence says."""
import random, itertools
import vlib, fam_copy, known
from vlib import BOS_UNKNOWN as UNK

EOK, ESNULLP, ESZEROL, ESLEMIN, ESLEMAX, ESOVRLP, ESEMPTY, ESNOSPC, ESUNTERM = 0, 400, 401, 402, 403, 404, 405, 406, 407

def gd(blk, off, dmax, w, producer=False, slack=False, fail='ret', writable=(), copylike=False, srcnull=False, ref=None, readonly=()):
    return dict(blk=blk, off=off, dmax=dmax, w=w, producer=producer, slack=slack, fail=fail, writable=list(writable),
                copylike=copylike, srcnull=srcnull, ref=ref, readonly=list(readonly))

def failed(case, o):
    """None: no failure indication available; else (bool, code)"""
    g = case.meta['gd']; f = g['fail']
    try:
        if f == 'ret': v = int(o.ret.split(',')[0]); return (v != 0, v)
        if f == 'errp':
            eb = [b for (b, lo, n) in g['writable'] if n == 4][0]; v = int.from_bytes(o.blocks[eb][:4], 'little', signed=True); return (v != 0, v)
        if f == 'neg': v = int(o.ret.split(',')[0]); return (v < 0, -v)
        if f == 'null': return (o.ret.split(',')[0] == 'N', None)
    except Exception:
        return None
    return None

def dest_after(case, o):
    g = case.meta['gd']
    if g['blk'] is None: return None
    b = o.blocks[g['blk']]; return fam_copy.dec(b[g['off']:g['off'] + g['dmax'] * g['w']], g['w'])
def dest_before(case):
    g = case.meta['gd']
    if g['blk'] is None: return None
    b = case.blocks[g['blk']][1]; return fam_copy.dec(b[g['off']:g['off'] + g['dmax'] * g['w']], g['w'])

def usable(case, consts):
    g = case.meta['gd']
    if g['blk'] is None or g['dmax'] <= 0: return False
    lim = consts['rmax_str'] if g['w'] == 1 else consts['rmax_wstr']
    if g.get('mem'): lim = consts['rmax_mem']
    return g['dmax'] <= lim and g['dmax'] * g['w'] <= len(case.blocks[g['blk']][1]) - g['off']

def oracle(pid, case, o, consts):
    g = case.meta['gd']; fails = []
    if o.fault != '-' or o.ret in ('FAULT', 'CRASH', 'HANG'):
        fk = o.fields.get('fk', '?')
        if pid == 'C01' and fk != 'R': fails.append(('fault', 'call faulted on a store at %s (every operand is exactly as large as declared and flush against an inaccessible page)' % o.fault))
        if pid == 'C02' and fk != 'W': fails.append(('fault', 'call faulted on a load at %s (every operand is exactly as large as declared and flush against an inaccessible page)' % o.fault))
        return fails
    if pid == 'C01':
        ok = [(g['blk'], g['off'], g['off'] + g['dmax'] * g['w'])] if g['blk'] is not None and g['dmax'] > 0 and usable(case, consts) else []
        ok += [(b, lo, lo + n) for (b, lo, n) in g['writable']]
        for bi, (mode, before) in enumerate(case.blocks):
            after = o.blocks[bi]
            for k in range(len(before)):
                if after[k] != before[k] and not any(b == bi and lo <= k < hi for (b, lo, hi) in ok):
                    fails.append(('write-outside', 'byte changed outside the declared destination: block %d offset %d (allowed %s)' % (bi, k, ok))); return fails
        return fails
    if pid == 'C02': return fails
    if pid == 'C05':
        # a failing call reports exactly once, with the code it returns, through the handler of its family; a succeeding call never reports
        fl = failed(case, o)
        if fl is None or g['fail'] in ('none', 'null'): return fails
        hs = [(k, int(cd)) for (k, cd) in o.handlers]
        if fl[0]:
            if len(hs) != 1: fails.append(('handler-count', 'failed with %s but the handler was invoked %d times %s' % (fl[1], len(hs), hs)))
            elif hs[0][1] != fl[1]: fails.append(('handler-code', 'failed with %s but the handler received %d' % (fl[1], hs[0][1])))
            elif hs[0][0] != ('M' if g.get('mem') else 'S'): fails.append(('handler-kind', 'a %s function reported through the %s handler' % ('memory' if g.get('mem') else 'string', hs[0][0])))
        elif hs: fails.append(('handler-on-success', 'succeeded but the handler was invoked: %s' % hs))
        return fails
    if not usable(case, consts): return fails
    da = dest_after(case, o); db = dest_before(case); fl = failed(case, o)
    if pid == 'C03':
        if g['producer'] and not case.meta.get('noop') and 0 not in da:
            fails.append(('unterminated', 'dest has no NUL within its first %d elements after return %s' % (g['dmax'], o.ret)))
    if pid == 'C04' and g['copylike'] and fl and fl[0]:
        rc = fl[1]
        if da[0] != 0: fails.append(('first-nonzero', 'failed call (%s) left dest[0] = %#x' % (rc, da[0])))
        else:
            for i, (x, y) in enumerate(zip(db, da)):
                if y != 0 and y != x: fails.append(('partial', 'failed call (%s) left dest[%d] = %#x written by the call' % (rc, i, y))); break
        after_copy = rc in (ESNOSPC, ESOVRLP, ESUNTERM) or g['srcnull']
        if (consts['null_slack'] or g.get('mem')) and after_copy and not fails and any(da):
            i = [k for k, y in enumerate(da) if y][0]
            fails.append(('not-all-zero', 'failed call (%s) left dest[%d] = %#x, all dmax elements must be zero' % (rc, i, da[i])))
        for (b, lo, n) in g['readonly']:
            if o.blocks[b][lo:lo + n] != case.blocks[b][1][lo:lo + n]: fails.append(('source-modified', 'failed call (%s) modified its source operand' % rc))
    if pid == 'C08' and g['slack'] and fl and not fl[0] and not case.meta.get('noop'):
        if 0 in da:
            t = da.index(0)
            if consts['null_slack'] and any(da[t:]):
                i = t + [k for k, y in enumerate(da[t:]) if y][0]
                fails.append(('stale-slack', 'success, terminator at %d, but dest[%d] = %#x is not zero (dmax %d)' % (t, i, da[i], g['dmax'])))
        elif g['producer']: fails.append(('no-terminator', 'success but no terminator within dmax %d' % g['dmax']))
    if pid == 'C06' and g['ref'] is not None and fl is not None:
        want = g['ref']       # ('ok', elems, retcheck) | ('fail',)
        if want[0] == 'ok':
            if fl[0]: fails.append(('valid-rejected', 'the complete result (%d elements incl. terminator) fits dmax %d but the call failed with %s' % (len(want[1]), g['dmax'], fl[1])))
            else:
                if da[:len(want[1])] != want[1]: fails.append(('wrong-result', 'dest = %s.., the standard counterpart gives %s' % (da[:len(want[1]) + 2], want[1])))
                elif len(want) > 2 and want[2] is not None and o.ret.split(',')[0] != want[2]: fails.append(('wrong-return', 'returned %s, expected %s' % (o.ret, want[2])))
        elif want[0] == 'fail' and not fl[0]:
            fails.append(('truncated-success', 'the complete result does not fit dmax %d (or a constraint is violated) but the call reported success' % g['dmax']))
    return fails

# ------------------------------------------------------------------ generators: families (a) and (b)
ALPHA = [0x61, 0x42, 0x20, 0x09, 0x39, 0xe9]
def rstr(rng, n, nz=True): return [rng.choice(ALPHA) for _ in range(n)]

def ext_cases(seed, tier, consts, pid):
    rng = random.Random(seed * 7 + 3); cs = []; n = [0]
    rmax = consts['rmax_str']
    def add(func, blocks, args, g, **meta):
        n[0] += 1; meta.update(cls='sweep', func=func, gd=g); cs.append(vlib.Case('w%d' % n[0], func, blocks, args, meta))
    dmaxes = [1, 2, 3, 5, 8, 33, 40] + ([4, 6, 16, 32, 34, 64] if tier == 'thorough' else [])
    errp0 = b'\x7f\x7f\x7f\x7f'
    for dmax in dmaxes:
        Ls = sorted(set(x for x in (0, 1, dmax - 2, dmax - 1, dmax, dmax + 1, dmax + 5) if x >= 0))
        for L in Ls:
            for prior in ('garbage', 'zero'):
                dest = fam_copy.garbage(rng, dmax) if prior == 'garbage' else b'\0' * dmax
                s = rstr(rng, L); src = bytes(s) + b'\0'
                # stpcpy_s(dest, dmax, src, errp, destbos, srcbos)
                ref = ('ok', s + [0], 'P0:%d' % L) if L < dmax else ('fail',)
                add('stpcpy_s', [('R', dest), ('R', src), ('R', errp0)], [(0, 0), dmax, (1, 0), (2, 0), UNK, UNK],
                    gd(0, 0, dmax, 1, producer=True, slack=True, fail='errp', writable=[(2, 0, 4)], copylike=True, ref=ref, readonly=[(1, 0, len(src))]), L=L, prior=prior)
                add('stpcpy_s', [('R', dest), ('R', src), ('R', errp0)], [(0, 0), dmax, (1, 0), (2, 0), dmax, len(src)],
                    gd(0, 0, dmax, 1, producer=True, slack=True, fail='errp', writable=[(2, 0, 4)], copylike=True, ref=ref, readonly=[(1, 0, len(src))]), L=L, prior=prior, bos='exact')
                # stpncpy_s(dest, dmax, src, slen, errp, destbos, srcbos): copies at most slen characters, always terminates
                for slen in sorted(set(x for x in (1, L - 1, L, L + 1, dmax - 1, dmax) if x >= 1)):
                    k = min(L, slen); refn = ('ok', s[:k] + [0], 'P0:%d' % k) if k < dmax else ('fail',)
                    srcn = bytes(s) + b'\0' if L < slen else bytes(s[:slen])      # exactly the declared extent
                    add('stpncpy_s', [('R', dest), ('R', srcn), ('R', errp0)], [(0, 0), dmax, (1, 0), slen, (2, 0), UNK, UNK],
                        gd(0, 0, dmax, 1, producer=True, slack=True, fail='errp', writable=[(2, 0, 4)], copylike=True, ref=refn, readonly=[(1, 0, len(srcn))]), L=L, slen=slen, prior=prior)
                # the source object size is known to the library and the source fills its object without a terminator: the copy
                # must stop there (ESUNTERM), whichever operand lies lower in memory (the two copy loops are separate code)
                if prior == 'garbage' and 1 <= L < dmax:
                    srcu = bytes(c if c else 0x61 for c in s)
                    for below in (True, False):
                        bl = [('R', srcu), ('R', dest), ('R', errp0)] if below else [('R', dest), ('R', srcu), ('R', errp0)]
                        di, si = (1, 0) if below else (0, 1)
                        add('stpcpy_s', bl, [(di, 0), dmax, (si, 0), (2, 0), UNK, L],
                            gd(di, 0, dmax, 1, producer=True, slack=True, fail='errp', writable=[(2, 0, 4)], copylike=True, ref=('fail',), readonly=[(si, 0, L)]), L=L, prior=prior, srcbos='exact-unterminated', below=below)
                        add('stpncpy_s', bl, [(di, 0), dmax, (si, 0), L + 2, (2, 0), UNK, L],
                            gd(di, 0, dmax, 1, producer=True, slack=True, fail='errp', writable=[(2, 0, 4)], copylike=True, ref=None, readonly=[(si, 0, L)]), L=L, slen=L + 2, prior=prior, srcbos='exact-unterminated', below=below)
                # field copies: strcpyfld_s copies exactly slen characters (no terminator), the rest of the field is zeroed
                for slen in sorted(set(x for x in (1, dmax - 1, dmax, dmax + 1) if x >= 1)):
                    fsrc = bytes(rstr(rng, slen))
                    reff = ('ok', list(fsrc) + [0] * (dmax - slen), None) if slen <= dmax else ('fail',)
                    add('strcpyfld_s', [('R', dest), ('R', fsrc)], [(0, 0), dmax, (1, 0), slen, UNK],
                        gd(0, 0, dmax, 1, fail='ret', copylike=True, ref=reff, readonly=[(1, 0, slen)]), slen=slen, prior=prior)
                    # strcpyfldout_s: at most slen characters of the field, always terminated
                    k = min(slen, dmax - 1)
                    add('strcpyfldout_s', [('R', dest), ('R', fsrc)], [(0, 0), dmax, (1, 0), slen, UNK],
                        gd(0, 0, dmax, 1, producer=True, slack=True, fail='ret', copylike=True, ref=(('ok', list(fsrc[:k]) + [0], None) if slen <= dmax else ('fail',)), readonly=[(1, 0, slen)]), slen=slen, prior=prior)
                # strcpyfldin_s: the string src (terminated) into the field, rest zeroed
                add('strcpyfldin_s', [('R', dest), ('R', src)], [(0, 0), dmax, (1, 0), min(L + 1, dmax), UNK],
                    gd(0, 0, dmax, 1, fail='ret', copylike=True, ref=(('ok', (s + [0] * dmax)[:dmax], None) if L <= dmax else None), readonly=[(1, 0, len(src))]), L=L, prior=prior)
            # memccpy_s(dest, dmax, src, c, n, destbos, srcbos): copy up to and including the first c, at most n
            for nn in sorted(set(x for x in (1, dmax - 1, dmax, dmax + 1) if x >= 1)):
                for where, c in [(wh, 0x3b) for wh in ('none', 'first', 'mid', 'last')] + [('mid', 0xe9), ('last', 0xe9), ('none', 0xe9), ('last', 0xff), ('mid', 0x00), ('last', 0x80)]:
                    body = [rng.choice([0x61, 0x62, 0x00, 0xe9]) for _ in range(nn)]
                    if where != 'none':
                        p = {'first': 0, 'mid': nn // 2, 'last': nn - 1}[where]; body[p] = c
                    else: body = [x if x != c else 0x61 for x in body]
                    stop = body.index(c) + 1 if c in body else nn
                    dest = fam_copy.garbage(rng, dmax)
                    refm = ('ok', body[:stop], None) if (nn <= dmax and (c in body or nn < dmax)) else ('fail',)
                    g = gd(0, 0, dmax, 1, fail='ret', copylike=True, ref=refm, readonly=[(1, 0, nn)]); g['mem'] = True
                    add('memccpy_s', [('R', dest), ('R', bytes(body))], [(0, 0), dmax, (1, 0), c, nn, UNK, UNK], g, n=nn, where=where, c=c)
        # wide memory copies (elements of 4 bytes)
        for smax in sorted(set(x for x in (1, dmax - 1, dmax, dmax + 1) if x >= 1)):
            wsrc = fam_copy.enc([rng.randrange(1, 0x10ffff) for _ in range(smax)], 4); wdest = fam_copy.garbage(rng, 4 * dmax)
            for f in ('wmemcpy_s', 'wmemmove_s'):
                g = gd(0, 0, dmax, 4, fail='ret', copylike=True, ref=(('ok', fam_copy.dec(wsrc, 4), None) if smax <= dmax else ('fail',)), readonly=[(1, 0, 4 * smax)]); g['mem'] = True
                add(f, [('R', wdest), ('R', wsrc)], [(0, 0), dmax, (1, 0), smax, UNK, UNK], g, smax=smax)
        # ---- in-place functions: dest holds a string of length L (terminated inside dmax) or fills dmax without terminator
        for L in sorted(set(x for x in (0, 1, dmax - 2, dmax - 1, dmax) if x >= 0)):
            for pat in ('plain', 'blanks'):
                body = rstr(rng, L) if pat == 'plain' else ([0x20, 0x09][:min(2, L)] + rstr(rng, max(L - 4, 0)) + [0x20] * min(2, max(L - 2, 0)))[:L]
                body = [c if c else 0x61 for c in body]
                tail = [rng.randrange(1, 256) for _ in range(max(dmax - L - 1, 0))]
                buf = bytes((body + ([0] + tail if L < dmax else []))[:dmax])
                term = L < dmax
                gi = lambda **kw: gd(0, 0, dmax, 1, fail='ret', **kw)
                k = min(L, dmax - 1)
                g = gd(0, 0, dmax, 1, producer=True, fail='none', ref=None); add('strnterminate_s', [('R', buf)], [(0, 0), dmax, UNK], g, L=L, term=term)
                add('strtolowercase_s', [('R', buf)], [(0, 0), dmax, UNK], gi(ref=(('ok', [c + 32 if 0x41 <= c <= 0x5a else c for c in body] + [0], None) if term else None)), L=L, term=term)
                add('strtouppercase_s', [('R', buf)], [(0, 0), dmax, UNK], gi(ref=(('ok', [c - 32 if 0x61 <= c <= 0x7a else c for c in body] + [0], None) if term else None)), L=L, term=term)
                add('strset_s', [('R', buf)], [(0, 0), dmax, 0x2a, UNK], gi(slack=term, ref=(('ok', [0x2a] * L + [0], None) if term else None)), L=L, term=term)
                for nn in sorted(set(x for x in (0, 1, L, dmax) if 0 <= x <= dmax)):
                    add('strnset_s', [('R', buf)], [(0, 0), dmax, 0x2a, nn, UNK], gi(ref=(('ok', [0x2a] * min(nn, L) + body[min(nn, L):] + [0], None) if term else None)), L=L, term=term, n=nn)
                if term:
                    lj = bytes(body).lstrip(b' \t'); add('strljustify_s', [('R', buf)], [(0, 0), dmax, UNK], gi(producer=True, ref=('ok', list(lj) + [0], None) if dmax > 1 else None), L=L, term=term)
                    rw = bytes(body).strip(b' \t'); add('strremovews_s', [('R', buf)], [(0, 0), dmax, UNK], gi(producer=True, ref=('ok', list(rw) + [0], None) if dmax > 1 else None), L=L, term=term)
                else:
                    add('strljustify_s', [('R', buf)], [(0, 0), dmax, UNK], gi(producer=True, copylike=True), L=L, term=term)
                    add('strremovews_s', [('R', buf)], [(0, 0), dmax, UNK], gi(producer=True, copylike=True), L=L, term=term)
        # in-place, strings made of blanks only (the backward strip of strremovews_s meets the start of dest):
        # right flush, left flush (the byte before dest is unreadable) and inside a block whose preceding bytes are blanks
        for L in sorted(set(x for x in (1, 2, dmax - 1) if 1 <= x < dmax)):
            for tabs in (False, True):
                body = [0x09 if (tabs and i % 2) else 0x20 for i in range(L)]
                tail = [rng.randrange(1, 256) for _ in range(max(dmax - L - 1, 0))]
                buf = bytes(body + [0] + tail)
                for mode, pre in (('R', b''), ('L', b''), ('R', b'\x41 \x09 ')):
                    for f, refb in (('strljustify_s', []), ('strremovews_s', [])):
                        add(f, [(mode, pre + buf)], [(0, len(pre)), dmax, UNK],
                            gd(0, len(pre), dmax, 1, producer=True, fail='ret', ref=('ok', refb + [0], None) if dmax > 1 else None),
                            L=L, term=True, blanks='tabs' if tabs else 'spaces', place=mode + str(len(pre)))
        # wide in-place
        for L in sorted(set(x for x in (dmax,) if x >= 1)):
            # an array of dmax non-zero wide characters without terminator, flush against the inaccessible page
            wb = [rng.choice([0x61, 0x42, 0xe9, 0x3a3, 0x10400]) for _ in range(L)]
            wbuf = fam_copy.enc(wb, 4)
            add('wcsset_s', [('R', wbuf)], [(0, 0), dmax, 0x2a, UNK], gd(0, 0, dmax, 4), L=L, term=False)
            for nn in sorted(set((0, 1, dmax))):
                add('wcsnset_s', [('R', wbuf)], [(0, 0), dmax, 0x2a, nn, UNK], gd(0, 0, dmax, 4), L=L, term=False, n=nn)
            add('wcslwr_s', [('R', wbuf)], [(0, 0), dmax, UNK], gd(0, 0, dmax, 4), L=L, term=False)
            add('wcsupr_s', [('R', wbuf)], [(0, 0), dmax, UNK], gd(0, 0, dmax, 4), L=L, term=False)
        for L in sorted(set(x for x in (0, 1, dmax - 1) if 0 <= x < dmax)):
            wb = [rng.choice([0x61, 0x42, 0xe9, 0x3a3, 0x10400]) for _ in range(L)]
            wbuf = fam_copy.enc(wb + [0] + [rng.randrange(1, 0x10000) for _ in range(dmax - L - 1)], 4)
            add('wcsset_s', [('R', wbuf)], [(0, 0), dmax, 0x2a, UNK], gd(0, 0, dmax, 4, slack=True, ref=('ok', [0x2a] * L + [0], None)), L=L)
            add('wcsnset_s', [('R', wbuf)], [(0, 0), dmax, 0x2a, min(L, 2), UNK], gd(0, 0, dmax, 4, ref=('ok', [0x2a] * min(L, 2) + wb[min(L, 2):] + [0], None)), L=L)
            add('wcslwr_s', [('R', wbuf)], [(0, 0), dmax, UNK], gd(0, 0, dmax, 4), L=L)
            add('wcsupr_s', [('R', wbuf)], [(0, 0), dmax, UNK], gd(0, 0, dmax, 4), L=L)
        # line input: the line (without its newline) plus terminator must fit
        for L in sorted(set(x for x in (0, 1, dmax - 2, dmax - 1, dmax, dmax + 3) if x >= 0)):
            line = bytes(rng.choice([0x61, 0x62, 0x20, 0x39]) for _ in range(L))
            for nl in (b'\n', b''):
                text = line + nl + (b'rest\n' if nl else b'') + b'\0'
                add('gets_s', [('R', fam_copy.garbage(rng, dmax)), ('R', text)], [(0, 0), dmax, UNK, (1, 0)],
                    gd(0, 0, dmax, 1, producer=True, slack=True, fail='null', copylike=True,
                       ref=(None if (L == 0 and not nl) else (('ok', list(line) + [0], 'P0:0') if L < dmax else ('fail',)))), L=L, nl=bool(nl), noop=False)
    # line input when the read fails (error, not end-of-file) before any character arrives: dest must come back terminated
    for dm in (1, 2, 5, 40):
        add('gets_s_err', [('R', fam_copy.garbage(rng, dm))], [(0, 0), dm, UNK],
            gd(0, 0, dm, 1, producer=True, slack=False, fail='null', copylike=True, ref=None), L=0, nl=False, noop=False, readerr=True)
    # NULL / zero / oversize arguments
    d8 = fam_copy.garbage(rng, 8)
    for f, args, g in (
        ('stpcpy_s', [(0, 0), 8, None, (1, 0), UNK, UNK], gd(0, 0, 8, 1, producer=True, fail='errp', writable=[(1, 0, 4)], copylike=True, srcnull=True, ref=('fail',))),
        ('stpncpy_s', [(0, 0), 8, None, 3, (1, 0), UNK, UNK], gd(0, 0, 8, 1, producer=True, fail='errp', writable=[(1, 0, 4)], copylike=True, srcnull=True, ref=('fail',))),
        ('strcpyfld_s', [(0, 0), 8, None, 3, UNK], gd(0, 0, 8, 1, copylike=True, srcnull=True, ref=('fail',))),
        ('strcpyfldin_s', [(0, 0), 8, None, 3, UNK], gd(0, 0, 8, 1, copylike=True, srcnull=True, ref=('fail',))),
        ('strcpyfldout_s', [(0, 0), 8, None, 3, UNK], gd(0, 0, 8, 1, producer=True, copylike=True, srcnull=True, ref=('fail',))),
        ('memccpy_s', [(0, 0), 8, None, 0x3b, 3, UNK, UNK], dict(gd(0, 0, 8, 1, copylike=True, srcnull=True, ref=('fail',)), mem=True)),
        ('wmemcpy_s', [(0, 0), 2, None, 1, UNK, UNK], dict(gd(0, 0, 2, 4, copylike=True, srcnull=True, ref=('fail',)), mem=True)),
        ('wmemmove_s', [(0, 0), 2, None, 1, UNK, UNK], dict(gd(0, 0, 2, 4, copylike=True, srcnull=True, ref=('fail',)), mem=True)),
    ):
        add(f, [('R', d8), ('R', errp0)], args, g, bad='srcnull')
    for f, args in (('stpcpy_s', [(0, 0), rmax + 1, (1, 0), (2, 0), UNK, UNK]), ('strcpyfld_s', [(0, 0), rmax + 1, (1, 0), 2, UNK]),
                    ('strtolowercase_s', [(0, 0), rmax + 1, UNK]), ('strljustify_s', [(0, 0), rmax + 1, UNK]), ('strset_s', [(0, 0), rmax + 1, 0x2a, UNK]),
                    ('stpcpy_s', [(0, 0), 0, (1, 0), (2, 0), UNK, UNK]), ('strnterminate_s', [(0, 0), rmax + 1, UNK]), ('gets_s', [(0, 0), rmax + 1, UNK, (1, 0)])):
        add(f, [('R', d8), ('R', b'ab\0'), ('R', errp0)], args, gd(0, 0, 0, 1, writable=[(2, 0, 4)], fail='none'), bad='size')
    return cs

# ------------------------------------------------------------------ family (b1): time and message strings
def misc_cases(seed, tier, consts):
    """asctime_s, ctime_s, strerror_s: string producers that delegate to the C library; every dmax around the length of the text,
    valid and out-of-range arguments; dest dirty"""
    import time as _t
    rng = random.Random(seed * 29 + 13); cs = []; n = [0]
    def add(func, blocks, args, g, **meta):
        n[0] += 1; meta.update(cls='sweep-misc', func=func, gd=g); cs.append(vlib.Case('m%d' % n[0], func, blocks, args, meta))
    days = ['Sun', 'Mon', 'Tue', 'Wed', 'Thu', 'Fri', 'Sat']; mons = ['Jan', 'Feb', 'Mar', 'Apr', 'May', 'Jun', 'Jul', 'Aug', 'Sep', 'Oct', 'Nov', 'Dec']
    tms = [(99, 0, 1, 0, 0, 0, 5, 0, True), (124, 11, 31, 23, 59, 59, 2, 365, True), (0, 5, 9, 7, 8, 9, 6, 159, True),
           (99, 12, 1, 0, 0, 0, 5, 0, False), (99, 0, 0, 0, 0, 0, 5, 0, False), (99, 0, 1, 24, 0, 0, 5, 0, False), (99, 0, 1, 0, 60, 0, 5, 0, False),
           (99, 0, 1, 0, 0, 62, 5, 0, False), (99, 0, 1, 0, 0, 0, 7, 0, False), (99, 0, 1, 0, 0, 0, 5, 366, False), (-1, 0, 1, 0, 0, 0, 5, 0, False), (8100, 0, 1, 0, 0, 0, 5, 0, False)]
    for (y, mo, md, h, mi, se, wd, yd, ok) in tms:
        text = ('%s %s %2d %02d:%02d:%02d %d\n' % (days[wd % 7], mons[mo % 12], md, h, mi, se, 1900 + y)).encode() if ok else None
        for dmax in (1, 2, 10, 25, 26, 27, 40, 119, 120, 121, 200):
            ref = None
            if ok: ref = ('ok', list(text) + [0], None) if dmax >= 26 else ('fail',)
            elif dmax >= 26: ref = ('fail',)
            add('asctime_s', [('R', fam_copy.garbage(rng, dmax))], [(0, 0), dmax, UNK, y, mo, md, h, mi, se, wd, yd],
                gd(0, 0, dmax, 1, producer=True, slack=True, fail='ret', copylike=True, ref=ref), tm=(y, mo, md, h, mi, se, wd, yd), valid=ok)
    for t in (0, 86399, 951782400, 2147483647, -1, 253402300799, 253402300800):
        for dmax in (1, 10, 25, 26, 27, 119, 120, 200):
            add('ctime_s', [('R', fam_copy.garbage(rng, dmax))], [(0, 0), dmax, UNK, t],
                gd(0, 0, dmax, 1, producer=True, slack=True, fail='ret', copylike=True, ref=None), t=t)
    for en in (0, 1, 2, 22, 34, 84, 400, 401, 407, 410, 9999, -1):
        for dmax in (1, 2, 3, 4, 5, 8, 20, 60, 100):
            add('strerror_s', [('R', fam_copy.garbage(rng, dmax))], [(0, 0), dmax, en, UNK],
                gd(0, 0, dmax, 1, producer=True, slack=True, fail='ret', copylike=True, ref=None), errnum=en)
    return cs

# ------------------------------------------------------------------ family (b2): both operands inside one object (C07)
def _isect(a, b): return max(a[0], b[0]) < min(a[1], b[1])

def overlap_cases(seed, tier, consts):
    """the modelled entry points of family (a)/(b) with dest and src at every pair of offsets of one small arena:
    meta['ovl'] = (must_fail, declared_overlap); gd['ref'] is the result the same call gives on separate objects,
    computed from the bytes the source holds BEFORE the call"""
    rng = random.Random(seed * 17 + 11); cs = []; n = [0]
    def add(func, blocks, args, g, **meta):
        n[0] += 1; meta.update(cls='sweep-ovl', func=func, gd=g); cs.append(vlib.Case('v%d' % n[0], func, blocks, args, meta))
    errp0 = b'\x7f\x7f\x7f\x7f'
    N = 12 if tier != 'thorough' else 16
    for dmax in ((3, 5) if tier != 'thorough' else (2, 3, 5, 8)):
        for a in range(0, N - dmax + 1):
            for b in range(0, N):
                if a == b: continue
                for L in sorted(set(x for x in (0, 1, 2, abs(a - b) - 1, abs(a - b), abs(a - b) + 1, dmax - 1, dmax) if 0 <= x and b + x < N)):
                    arena = [rng.choice([0x61, 0x62, 0x63, 0x3b, 0xe9]) for _ in range(N)]
                    arena[b + L] = 0
                    for i in range(b, b + L):
                        if arena[i] == 0: arena[i] = 0x61
                    src = arena[b:b + L]
                    D = (a, a + dmax)
                    # stpcpy_s
                    W = (a, a + L + 1); R = (b, b + L + 1)
                    g = gd(0, a, dmax, 1, producer=True, slack=True, fail='errp', writable=[(1, 0, 4)], copylike=True,
                           ref=(('ok', src + [0], 'P0:%d' % (a + L)) if L < dmax else ('fail',)))
                    add('stpcpy_s', [('R', bytes(arena)), ('R', errp0)], [(0, a), dmax, (0, b), (1, 0), UNK, UNK], g, L=L, a=a, b=b,
                        ovl=(L < dmax and _isect(W, R), _isect(D, R)))
                    for slen in sorted(set(x for x in (1, L, L + 1, abs(a - b), abs(a - b) + 1) if 1 <= x and b + x <= N)):
                        k = min(L, slen); W = (a, a + k + 1); R = (b, b + min(L + 1, slen))
                        g = gd(0, a, dmax, 1, producer=True, slack=True, fail='errp', writable=[(1, 0, 4)], copylike=True,
                               ref=(('ok', src[:k] + [0], 'P0:%d' % (a + k)) if k < dmax else ('fail',)))
                        add('stpncpy_s', [('R', bytes(arena)), ('R', errp0)], [(0, a), dmax, (0, b), slen, (1, 0), UNK, UNK], g, L=L, slen=slen, a=a, b=b,
                            ovl=(k < dmax and _isect(W, R), _isect(D, R)))
                    # memccpy_s(dest, dmax, src, c, n): up to and including the first c, at most n bytes
                    for nn in sorted(set(x for x in (1, 2, L, L + 1, abs(a - b), abs(a - b) + 1, dmax) if 1 <= x <= dmax and b + x <= N)):
                        c = 0x3b; body = arena[b:b + nn]
                        stop = body.index(c) + 1 if c in body else nn
                        W = (a, a + stop + (0 if c in body else 1)); R = (b, b + stop)
                        ok = (c in body or nn < dmax)
                        g = gd(0, a, dmax, 1, fail='ret', copylike=True, ref=(('ok', body[:stop], None) if ok else ('fail',))); g['mem'] = True
                        add('memccpy_s', [('R', bytes(arena))], [(0, a), dmax, (0, b), c, nn, UNK, UNK], g, n=nn, a=a, b=b,
                            ovl=(ok and _isect(W, R), _isect(D, (b, b + nn))))
                    # field copy: exactly slen characters, the rest of the field zeroed
                    for slen in sorted(set(x for x in (1, 2, abs(a - b), dmax) if 1 <= x <= dmax and b + x <= N)):
                        W = (a, a + slen); R = (b, b + slen)
                        g = gd(0, a, dmax, 1, fail='ret', copylike=True, ref=('ok', arena[b:b + slen] + [0] * (dmax - slen), None))
                        add('strcpyfld_s', [('R', bytes(arena))], [(0, a), dmax, (0, b), slen, UNK], g, slen=slen, a=a, b=b, ovl=(_isect(W, R), _isect(D, R)))
    # wide memory copies: elements of 4 bytes, dest and src at element offsets of one arena
    NW = 8
    for dlen in (2, 3, 4):
        for a in range(0, NW - dlen + 1):
            for b in range(0, NW):
                for cnt in sorted(set(x for x in (1, 2, dlen) if 1 <= x <= dlen and b + x <= NW)):
                    war = [rng.randrange(1, 0x10ffff) for _ in range(NW)]
                    W = (a, a + cnt); R = (b, b + cnt); D = (a, a + dlen)
                    for f in ('wmemcpy_s', 'wmemmove_s'):
                        g = gd(0, 4 * a, dlen, 4, fail='ret', copylike=True, ref=('ok', war[b:b + cnt], None)); g['mem'] = True
                        add(f, [('R', fam_copy.enc(war, 4))], [(0, 4 * a), dlen, (0, 4 * b), cnt, UNK, UNK], g, cnt=cnt, a=a, b=b,
                            ovl=((f == 'wmemcpy_s' and a != b and _isect(W, R)), f == 'wmemcpy_s' and a != b and _isect(D, R)))
    return cs

def oracle_C07(case, o, consts):
    """C07 on the arena cases: success only with the exact result of the same call on separate objects; when the elements
    written and the source elements read intersect the call must fail with ESOVRLP; operands that do not intersect at all
    must behave as on separate objects"""
    g = case.meta['gd']; fails = []
    must_fail, declared = case.meta['ovl']
    if o.fault != '-' or o.ret in ('FAULT', 'CRASH', 'HANG'):
        return [('fault', 'call faulted at %s with both operands inside one exactly-sized object' % o.fault)]
    fl = failed(case, o)
    if fl is None: return fails
    da = dest_after(case, o); want = g['ref']
    if not fl[0]:
        if must_fail: fails.append(('overlap-accepted', 'the elements written and the source elements read intersect (dest offset %s, src offset %s) but the call reported success' % (case.meta['a'], case.meta['b'])))
        elif want[0] == 'ok' and da[:len(want[1])] != want[1]:
            fails.append(('wrong-result', 'success with dest = %s.., the same call on separate objects gives %s' % (da[:len(want[1]) + 1], want[1])))
        elif want[0] == 'fail': fails.append(('truncated-success', 'the result does not fit but the call reported success'))
    else:
        if must_fail and fl[1] not in (None, ESOVRLP): fails.append(('overlap-wrong-code', 'overlapping operands rejected with %s, not ESOVRLP' % fl[1]))
        if not declared and want[0] == 'ok': fails.append(('disjoint-rejected', 'operands that do not intersect were rejected with %s' % fl[1]))
    return fails

# ------------------------------------------------------------------ family (c): descriptors for the cases of other generators
def conv_gd(x):
    """cases of props.gen_conv_cases: block 0 = retval (8 bytes), 1 = dest, 2 = src [, 3 = src pointer, 4 = state]"""
    m = x.meta
    if m.get('kind') in ('query', 'seq') or 'objelems' not in m: return None
    wide = m['op'] in ('mbstowcs', 'mbsrtowcs'); w = 4 if wide else 1
    single = m['op'] in ('wcrtomb', 'wctomb')
    wr = [(0, 0, 8)] + ([(3, 0, 8), (4, 0, 8)] if m['op'] in ('mbsrtowcs', 'wcsrtombs') else []) + ([(2, 0, 16)] if m['op'] == 'wcrtomb' else [])
    ref = None
    if not single and m.get('valid') and m.get('kind') in ('ok', 'len>dmax'):
        # what the standard function delivers limited to len (whole characters only); it must fit dmax together with the terminator
        s_ = m['chars']
        if wide: deliver = list(s_[:m['len']])
        else:
            deliver = []
            for c in s_:
                e = list(chr(c).encode('utf-8'))
                if len(deliver) + len(e) > m['len']: break
                deliver += e
        if len(deliver) < m['dmax']:
            ref = ('ok', deliver + [0], None) if not (m['op'] in ('wcstombs', 'wcsrtombs') and len(deliver) == 0) else None    # the empty result of wcstombs_s is a known C15 finding
        else: ref = ('fail',)
    g = gd(1, 0, m['dmax'], w, producer=not single, slack=True, fail='ret', writable=wr, copylike=True, ref=ref,
           readonly=([] if single or len(x.blocks) < 3 else [(2, 0, len(x.blocks[2][1]))]))
    return g

def fmt_cases(seed, tier, consts):
    """formatted output into a buffer with every length relation between the text and dmax (exactly fits, one short, ...)"""
    import props
    rng = random.Random(seed * 11 + 1); cs = []; i = 0
    texts = [(b'%s', [b'abcdefgh'], 8), (b'%d', [12345678], 8), (b'id=%c%04u', [0x41, 42], 8), (b'%s-%s', [b'ab', b'cde'], 6), (b'%5s|', [b'xy'], 6),
             (b'%x', [0xabc], 3), (b'plain', [], 5), (b'%s', [b''], 0), (b'%-4d.', [7], 5), (b'%lu', [4294967296], 10),
             # padded fields: the bare argument fits where the field starts, the padded field does not
             (b'%10s', [b'abcdef'], 10), (b'ab%6s', [b'xyz'], 8), (b'%-8s|', [b'abc'], 9), (b'%6c', [0x41], 6), (b'%08d', [-42], 8), (b'%3s%7d', [b'q', 5], 10)]
    for fmt, args, tl in texts:
        for func in ('x:sprintf_s', 'x:snprintf_s', 'x:vsprintf_s', 'x:vsnprintf_s'):
            for dmax in sorted(set(list(range(1, tl + 3)) + [tl + 40])):
                i += 1; c = props.c11_case('g%d' % i, func, fmt, args, dmax, rng)
                trunc_ok = func in ('x:snprintf_s', 'x:vsnprintf_s')
                c.meta.update(cls='sweep-fmt', func=func, textlen=tl, noop=False,
                              gd=gd(0, 0, dmax, 1, producer=True, slack=True, fail='neg', copylike=True))
                cs.append(c)
    return cs

def fmt_read_cases(seed, tier, consts):
    """%.Ns with an argument of exactly N characters and no terminator (C 7.21.6.1: with a precision the array need not contain
    a null character), flush against the inaccessible page: the engine may read N characters and no more"""
    import props
    rng = random.Random(seed * 31 + 3); cs = []; i = 0
    for N in (1, 2, 3, 8, 17):
        for fmt in (b'%%.%ds' % N, b'[%%.%ds]' % N, b'%%-%d.%ds|' % (N + 3, N), b'%%.*s'):
            for func in ('x:sprintf_s', 'x:snprintf_s', 'x:vsprintf_s', 'x:vsnprintf_s'):
                i += 1; dmax = N + 12
                arg = bytes(rng.choice([0x61, 0x62, 0x7a]) for _ in range(N))
                blocks = [('R', fam_copy.garbage(rng, dmax)), ('R', fmt + b'\0'), ('R', arg)]
                cargs = ([N] if b'*' in fmt else []) + [(2, 0)]
                c = vlib.Case('r%d' % i, func, blocks, [(0, 0), dmax, UNK, (1, 0), 'V'] + cargs,
                              dict(cls='sweep-fmt-read', func=func, fmt=fmt.decode(), N=N, noop=False, gd=gd(0, 0, dmax, 1, producer=True, slack=True, fail='neg', copylike=True)))
                cs.append(c)
    return cs

def wfmt_cases(seed, tier, consts):
    """wide formatted output into a buffer (swprintf_s, snwprintf_s, vswprintf_s, vsnwprintf_s): every length relation between
    the text and dmax, an argument that the C library cannot convert after some text was produced (locale C.UTF-8),
    and -- cases whose id ends in 'k' -- the same call with its first allocation request failing"""
    rng = random.Random(seed * 19 + 7); cs = []; i = 0
    W = lambda t: fam_copy.enc([ord(ch) for ch in t] + [0], 4)
    texts = [('%d', [1234567], 7, True), ('ab%lscd', [('W', [0x78, 0xe9, 0x20ac])], 7, True), ('%s!', [b'hey'], 4, True), ('plain', [], 5, True), ('%5d|', [42], 6, True),
             ('abc%sdef', [b'\xff\xfe'], 8, False), ('%ls', [('W', [])], 0, True), ('x%600d', [7], 601, True)]
    for fmt, args, tl, valid in texts:
        for func in ('swprintf_s', 'snwprintf_s', 'vswprintf_s', 'vsnwprintf_s'):
            dms = sorted(set(d for d in list(range(1, min(tl, 12) + 3)) + [tl - 1, tl, tl + 1, tl + 2, 520, 600] if d >= 1))
            for dmax in dms:
                for k in (None, 1):
                    i += 1
                    blocks = [('R', fam_copy.garbage(rng, 4 * dmax)), ('R', W(fmt))]; cargs = []
                    for a in args:
                        if isinstance(a, bytes): blocks.append(('R', a + b'\0')); cargs.append((len(blocks) - 1, 0))
                        elif isinstance(a, tuple): blocks.append(('R', fam_copy.enc(a[1] + [0], 4))); cargs.append((len(blocks) - 1, 0))
                        else: cargs.append(a)
                    full = [(0, 0), dmax, UNK, (1, 0), 'V'] + cargs + (['K%d' % k] if k else [])
                    truncating = func in ('snwprintf_s', 'vsnwprintf_s')
                    c = vlib.Case('h%d%s' % (i, 'k' if k else ''), func, blocks, full,
                                  dict(cls='sweep-wfmt', func=func, fmt=fmt, textlen=tl, valid=valid, noop=False, allocfail=bool(k),
                                       gd=gd(0, 0, dmax, 4, producer=True, slack=True, fail='neg', copylike=True)))
                    cs.append(c)
    return cs

def allocfail_variants(cases):
    """the same cases with the first allocation request of the call failing (a failed allocation is one more exit of the call)"""
    out = []
    for c in cases:
        if any(isinstance(a, str) and a.startswith('K') for a in c.args): continue
        m = dict(c.meta); m['allocfail'] = True
        out.append(vlib.Case(c.id + 'k', c.func, c.blocks, list(c.args) + ['K1'], m))
    return out

# ------------------------------------------------------------------ known findings of the sweep (predicates over the input)
@known.pred
def kf_sweep(case, o, kind, cfg, consts):
    return False

@known.pred
def kf_sweep_inplace_reads_dmax(case, o, kind, cfg, consts):
    m = case.meta
    return m.get('cls') == 'sweep' and kind == 'fault' and m.get('term') is False and o.fault == '0:%d' % m['gd']['dmax'] and o.fields.get('fk') == 'R'

@known.pred
def kf_sweep_wcsfc_expansion(case, o, kind, cfg, consts):
    m = case.meta
    if case.func != 'wcsfc_s' or kind not in ('fault', 'write-outside'): return False
    need = len(''.join(chr(c) for c in m['s']).casefold()) + 1
    return need > m['gd']['dmax']

@known.pred
def kf_sweep_wcsrtombs_noslack(case, o, kind, cfg, consts):
    m = case.meta
    if consts['null_slack'] or m.get('op') != 'wcsrtombs' or kind not in ('unterminated', 'no-terminator') or o.ret != '0': return False
    nb = len(''.join(chr(c) for c in m['chars']).encode('utf-8'))
    return m['len'] <= nb

@known.pred
def kf_sweep_wprintf_allocfail(case, o, kind, cfg, consts):
    # wide sprintf family, dmax >= 512, the probe allocation failing: crash, or -ESNOSPC without clearing / reporting (the C20 finding, seen from C01/C03/C04/C05)
    m = case.meta
    # (the probe runs whenever the first vswprintf fails: text too long, or an argument the C library cannot convert)
    if case.func == 'vswprintf_s' and (o.fault != '-' or o.ret in ('FAULT', 'CRASH')): return False      # vswprintf_s checks its probe buffer: it does not crash
    return m.get('cls') == 'sweep-wfmt' and m.get('allocfail') and m['gd']['dmax'] >= 512 and o.alloc is not None and o.alloc[2] >= 1

@known.pred
def kf_sweep_noslack_partial(case, o, kind, cfg, consts):
    if consts['null_slack'] or kind != 'partial' or 'gd' not in case.meta: return False
    da = dest_after(case, o)
    return da is not None and da[0] == 0
