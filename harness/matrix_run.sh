#!/bin/bash
# matrix_run.sh <seed-id>... : for `vp run --with-repo`: prepare the repo snapshot ($VP_RUN_REPO) with the configure-generated
# headers, build this snapshot of /verif, and run the listed seeded changes against the checks of the properties they break
set -e
R="${VP_RUN_REPO:?}"
cp /repo/config.h "$R"/; cp /repo/include/safe_config.h /repo/include/safe_lib_errno.h /repo/include/safe_types.h "$R"/include/ 2>/dev/null || true
export VERIF_REPO="$R"
bash harness/setup.sh | tail -1
bash harness/seedmatrix.sh "$@"
