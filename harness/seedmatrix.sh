#!/bin/bash
# seedmatrix.sh [seed-id...] : every seeded change against the check of the property it breaks
# (sequential; the repository $VERIF_REPO is mutated meanwhile -- use a scratch copy, e.g. under `vp run --with-repo`,
#  with VERIF_REPO=$VP_RUN_REPO, to leave /repo alone)
V="${VERIF_ROOT:-$(cd "$(dirname "${BASH_SOURCE[0]}")/.." && pwd)}"; export VERIF_ROOT="$V"
cd "$V"
ids="$@"; [ -n "$ids" ] || ids=$(ls seeded)
for id in $ids; do
  d=seeded/$id
  p=$(python3 -c "import json;print(json.load(open('$d/meta.json'))['breaks'])")
  s=$(date +%s); out=$(bash harness/seedrun.sh "$V/$d" $p 2>&1 | grep -av "ignored null byte"); e=$(date +%s)
  echo "$id -> $p: $(echo "$out" | head -1 | sed 's/^SEED [^ ]* check [^:]*: //') ($((e-s))s)"
  echo "$out" | sed -n 2,3p | cut -c1-220
done
