#!/bin/bash
# seedmatrix.sh : every seeded change against the check of the property it breaks (sequential; /repo is mutated meanwhile)
cd /verif
for d in seeded/C*/; do
  id=$(basename $d); p=$(python3 -c "import json;print(json.load(open('$d/meta.json'))['breaks'])")
  s=$(date +%s); out=$(bash harness/seedrun.sh /verif/$d $p 2>&1); e=$(date +%s)
  echo "$id -> $p: $(echo "$out" | head -1 | sed 's/^SEED [^ ]* check [^:]*: //') ($((e-s))s)"
  echo "$out" | sed -n 2,3p | cut -c1-220
done
