/* hist_driver.c -- C13: executes registration/violation histories on real threads (one fresh
 * process per history, operations serialised in history order) and prints what came back.
 * History line:  <id> <op>...   ops: S<k><t><a> set_*, T<k><t><a> thrd_set_*, V<k><t> violation,
 *   P<p><c> thread p creates thread c, C<j><t> thread t makes the valid library call number j (not a registration).
 *   k: s|m, t,p,c: thread digit (0 = main), a: n|1|2|3
 * Output: <id> <r>...  r: N (NULL) | D (ignore_handler_s) | U<i> | - (no value) */
#define _GNU_SOURCE
#include <stdio.h>
#include <stdlib.h>
#include <string.h>
#include <pthread.h>
#include <semaphore.h>
#include <unistd.h>
#include <sys/wait.h>
#include "safe_lib.h"
#include "safe_str_lib.h"
#include "safe_mem_lib.h"

#define MAXT 6
static __thread int dummy_tls;
static volatile int last_ran;      /* 0 none, -1 default, i user handler i */
static void U1(const char *m, void *p, errno_t e) { (void)m; (void)p; (void)e; last_ran = 1; }
static void U2(const char *m, void *p, errno_t e) { (void)m; (void)p; (void)e; last_ran = 2; }
static void U3(const char *m, void *p, errno_t e) { (void)m; (void)p; (void)e; last_ran = 3; }
/* the library's default handler, made observable with -Wl,--wrap=ignore_handler_s */
void __real_ignore_handler_s(const char *m, void *p, errno_t e);
void __wrap_ignore_handler_s(const char *m, void *p, errno_t e) { last_ran = -1; __real_ignore_handler_s(m, p, e); }

static constraint_handler_t harg(char a) { return a == '1' ? U1 : a == '2' ? U2 : a == '3' ? U3 : NULL; }
static void pr_handler(char *buf, constraint_handler_t h) {
    if (!h) strcpy(buf, "N");
    else if (h == U1) strcpy(buf, "U1"); else if (h == U2) strcpy(buf, "U2"); else if (h == U3) strcpy(buf, "U3");
    else if (h == __wrap_ignore_handler_s || h == ignore_handler_s || h == __real_ignore_handler_s) strcpy(buf, "D");
    else strcpy(buf, "X");
}

static sem_t go[MAXT], done;
static pthread_t th[MAXT];
static char cur_op[16]; static char cur_res[16];
static void *worker(void *arg);

static void exec_op(int self) {
    const char *o = cur_op; char k = o[1];
    strcpy(cur_res, "-");
    if (o[0] == 'S') { constraint_handler_t p = k == 's' ? set_str_constraint_handler_s(harg(o[3])) : set_mem_constraint_handler_s(harg(o[3])); pr_handler(cur_res, p); }
    else if (o[0] == 'T') { constraint_handler_t p = k == 's' ? thrd_set_str_constraint_handler_s(harg(o[3])) : thrd_set_mem_constraint_handler_s(harg(o[3])); pr_handler(cur_res, p); }
    else if (o[0] == 'V') {
        char b[4]; last_ran = 0;
        if (k == 's') _strcpy_s_chk(NULL, 4, "x", BOS_UNKNOWN); else _memcpy_s_chk(NULL, 4, b, 1, BOS_UNKNOWN, BOS_UNKNOWN);
        if (last_ran == -1) strcpy(cur_res, "D"); else if (last_ran > 0) sprintf(cur_res, "U%d", last_ran); else strcpy(cur_res, "?");
    } else if (o[0] == 'C') {
        /* successful calls of entry points that use other entry points internally; none of them may touch the registrations */
        char b[128]; wchar_t wb[64]; size_t len = 0; int ind = 0; errno_t e = 0; rsize_t dm = 0;
        switch (k) {
        case '0': { wchar_t w1[8] = L"Hello", w2[8] = L"hELLO"; e = wcsicmp_s(w1, 8, w2, 8, &ind); if (e || ind) abort(); } break;
        case '1': e = sprintf_s(b, 64, "%ls %d", L"ab", 5) < 0; break;
        case '2': e = strerror_s(b, 100, 2); if (e) abort(); break;
        case '3': e = wcsfc_s(wb, 32, L"Stra\u00dfe", &len); if (e) abort(); break;
        case '4': e = wcsnorm_s(wb, 32, L"e\u0301a", WCSNORM_NFC, &len); if (e) abort(); break;
        case '5': e = getenv_s(&len, b, 0, "PATH"); break;
        case '6': { char s[] = "a,b"; char *p = NULL; dm = 4; (void)strtok_s(s, &dm, ",", &p); (void)strtok_s(NULL, &dm, ",", &p); } break;
        case '7': { int v[5] = {3, 1, 2, 5, 4}; e = 0; (void)strcpy_s(b, 8, "ab"); (void)strcat_s(b, 8, "cd"); (void)memset_s(v, sizeof v, 0, sizeof v); } break;
        case '8': { wchar_t w1[4] = L"a10", w2[4] = L"A9"; e = wcsnatcmp_s(w1, 4, w2, 4, &ind); if (e) abort(); } break;
        case '9': { char h[8] = "abcDEF", nd[4] = "def"; char *r = NULL; e = strcasestr_s(h, 8, nd, 4, &r); if (e || r != h + 3) abort(); } break;
        }
        strcpy(cur_res, e == 0 ? "-" : "-");
    } else if (o[0] == 'P') {
        int c = o[2] - '0'; long cl = c;
        pthread_create(&th[c], NULL, worker, (void *)cl);
    }
    (void)self;
}
static void *worker(void *arg) {
    long me = (long)arg;
    for (;;) { sem_wait(&go[me]); if (cur_op[0] == 'Q') return NULL; exec_op((int)me); sem_post(&done); }
}

int main(void) {
    static char line[1 << 16];
    while (fgets(line, sizeof line, stdin)) {
        if (line[0] == '#' || line[0] == '\n') continue;
        fflush(stdout);
        pid_t pid = fork();
        if (pid == 0) {
            for (int i = 0; i < MAXT; i++) sem_init(&go[i], 0, 0);
            sem_init(&done, 0, 0);
            char *tok = strtok(line, " \n"); printf("%s", tok);
            while ((tok = strtok(NULL, " \n"))) {
                strncpy(cur_op, tok, sizeof cur_op - 1);
                int t = tok[0] == 'P' ? tok[1] - '0' : tok[2] - '0';
                if (t == 0) exec_op(0); else { sem_post(&go[t]); sem_wait(&done); }
                printf(" %s", cur_res);
            }
            printf("\n"); fflush(stdout); _exit(0);
        }
        int st; waitpid(pid, &st, 0);
        if (!WIFEXITED(st) || WEXITSTATUS(st) != 0) { char id[64]; sscanf(line, "%63s", id); printf("%s CRASH\n", id); }
    }
    return 0;
}
