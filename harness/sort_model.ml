(* sort_model.ml -- runs the extracted smoothsort model (coq/ModSort.v) on key lists.
   input line:  <id> <n> <key_0> ... <key_{n-1}>
   output line: <id> perm=<original positions in final order> ncmp=<k> tr=<i:j,...>   |   <id> NONE *)
open Model
let rec pos_of_int n = if n = 1 then XH else if n land 1 = 0 then XO (pos_of_int (n lsr 1)) else XI (pos_of_int (n lsr 1))
let z_of_int n = if n = 0 then Z0 else if n > 0 then Zpos (pos_of_int n) else Zneg (pos_of_int (-n))
let rec int_of_pos = function XH -> 1 | XO p -> 2 * int_of_pos p | XI p -> 2 * int_of_pos p + 1
let int_of_z = function Z0 -> 0 | Zpos p -> int_of_pos p | Zneg p -> - (int_of_pos p)
let () =
  try while true do
    let line = input_line stdin in
    if String.length line > 0 && line.[0] <> '#' then begin
      match List.filter (fun s -> s <> "") (String.split_on_char ' ' line) with
      | id :: _n :: keys ->
        let l = List.mapi (fun i k -> (z_of_int (int_of_string k), z_of_int i)) keys in
        (match smoothsort_keys l with
         | None -> print_endline (id ^ " NONE")
         | Some (l', tr) ->
           let perm = String.concat "," (List.map (fun (_, i) -> string_of_int (int_of_z i)) l') in
           let trs = List.rev_map (fun (a, b) -> string_of_int (int_of_z a) ^ ":" ^ string_of_int (int_of_z b)) tr in
           Printf.printf "%s perm=%s ncmp=%d tr=%s\n" id (if perm = "" then "-" else perm) (List.length trs)
             (if trs = [] then "-" else String.concat "," trs))
      | _ -> ()
    end
  done with End_of_file -> ()
