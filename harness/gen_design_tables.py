#!/usr/bin/env python3
"""gen_design_tables.py -- prints the markdown tables of DESIGN.md section 8 (repairs, open findings, seeded changes)
from known_findings.jsonl, seeded/*/meta.json and seeded/matrix_*.txt.  Not run by any check."""
import json, glob, os, re, sys
V = os.path.dirname(os.path.dirname(os.path.abspath(__file__)))
kf = [json.loads(l) for l in open(V + '/known_findings.jsonl') if l.startswith('{')]
which = sys.argv[1]
if which == 'fixed':
    seen = {}
    for d in kf:
        if d['status'] != 'fixed': continue
        what = re.sub(r'^fixed: property=\S+ \S+ ', '', d['what'])
        seen.setdefault((d.get('fix_commit', ''), ), []).append((d['property'], d.get('commit', ''), what))
    print('| property | commit(s) in /repo | what failed before |'); print('|---|---|---|')
    for d in kf:
        if d['status'] != 'fixed': continue
        cm = re.search(r'property=\S+ (\S+) ', d['what']); what = re.sub(r'^fixed: property=\S+ \S+ ', '', d['what'])
        print('| %s | %s | %s |' % (d['property'], cm.group(1) if cm else d.get('commit', ''), what.replace('|', '\\|')))
if which == 'open':
    print('| property | id | functions | what fails |'); print('|---|---|---|---|')
    for d in kf:
        if d['status'] != 'open': continue
        print('| %s | %s | %s | %s |' % (d['property'], d['id'], (d.get('function') or d.get('sites') or '-')[:60], d['what'][:300].replace('|', '\\|')))
if which == 'seeds':
    res = {}
    for f in sorted(glob.glob(V + '/seeded/matrix_*.txt')):
        for l in open(f):
            m = re.match(r'(C\d\d-[A-C])(?: -> C\d\d)?: .*?(exit=\d) (\d+) violation', l)
            if m: res.setdefault(m.group(1), []).append((os.path.basename(f), m.group(2), int(m.group(3))))
    print('| seed | function | needs | first run | after strengthening |'); print('|---|---|---|---|---|')
    for d in sorted(glob.glob(V + '/seeded/C*/')):
        i = os.path.basename(d.rstrip('/')); m = json.load(open(d + 'meta.json'))
        r = res.get(i, [])
        first = ('caught' if r and r[0][1] == 'exit=1' else 'MISSED') if r else '?'
        last = ('caught' if r and r[-1][1] == 'exit=1' else 'MISSED') if r else '?'
        print('| %s | %s | %s | %s | %s |' % (i, m['function'][:70].replace('|', '/'), m['needs'][:150].replace('|', '/').replace('\n', ' '), first, last if len(r) > 1 or first == 'caught' else last))
