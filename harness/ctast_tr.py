#!/usr/bin/env python3
"""translator "ctast" (C19, T2): clang JSON AST of timingsafe_bcmp.c / timingsafe_memcmp.c -> Gen/TsProgs.v
(terms of ConstTime.cstmt). Fails loudly on any construct it does not understand."""
import json, subprocess, sys, os
class Unsupported(Exception): pass

def ast_of(repo, incdir, path, fname):
    p = subprocess.run(['clang', '-w', '-fsyntax-only', '-Xclang', '-ast-dump=json', '-Xclang', '-ast-dump-filter=' + fname,
                        '-DHAVE_CONFIG_H', '-I' + incdir, '-I' + repo, '-I' + repo + '/src', repo + '/' + path], capture_output=True, text=True)
    if p.returncode != 0: raise Unsupported('clang failed: ' + p.stderr[-400:])
    # the filter prints one JSON object per matching declaration
    dec = json.JSONDecoder(); txt = p.stdout; i = 0; objs = []
    while i < len(txt):
        while i < len(txt) and txt[i] in ' \n\r\t': i += 1
        if i >= len(txt): break
        o, j = dec.raw_decode(txt, i); objs.append(o); i = j
    for o in objs:
        if o.get('kind') == 'FunctionDecl' and o.get('name') == fname and any(c.get('kind') == 'CompoundStmt' for c in o.get('inner', [])):
            return o
    raise Unsupported('function %s not found' % fname)

class Tr:
    def __init__(self):
        self.vars = {}; self.names = []
    def var(self, decl_id, name):
        if decl_id not in self.vars:
            self.vars[decl_id] = len(self.names); self.names.append(name)
        return self.vars[decl_id]
    def expr(self, n):
        """-> (coq expr string, list of post statements)"""
        k = n['kind']
        if k in ('ImplicitCastExpr', 'ParenExpr', 'CStyleCastExpr', 'ConstantExpr'):
            ck = n.get('castKind')
            if ck and ck not in ('LValueToRValue', 'IntegralCast', 'NoOp', 'BitCast', 'ArrayToPointerDecay'):
                raise Unsupported('cast ' + ck)
            return self.expr(n['inner'][0])
        if k == 'IntegerLiteral': return 'CConst %s' % n['value'], []
        if k == 'DeclRefExpr':
            d = n['referencedDecl']
            if d['kind'] not in ('VarDecl', 'ParmVarDecl'): raise Unsupported('reference to ' + d['kind'])
            return 'CVar %d' % self.var(d['id'], d['name']), []
        if k == 'BinaryOperator':
            op = n['opcode']; a, pa = self.expr(n['inner'][0]); b, pb = self.expr(n['inner'][1])
            m = {'^': 'OXor', '|': 'OOr', '&': 'OAnd', '-': 'OSub', '+': 'OAdd', '>>': 'OShr', '<': 'OLt', '!=': 'ONe', '*': 'OMul'}
            if op == '>': return 'CBin OLt (%s) (%s)' % (b, a), pa + pb
            if op == '==': return 'CLNot (CBin ONe (%s) (%s))' % (a, b), pa + pb
            if op == '&&': return 'CBin OAnd (CBin ONe (%s) (CConst 0)) (CBin ONe (%s) (CConst 0))' % (a, b), pa + pb   # both operands are evaluated: only sound without side effects
            if op not in m: raise Unsupported('operator ' + op)
            if op == '&&' and (pa or pb): raise Unsupported('side effect under &&')
            return 'CBin %s (%s) (%s)' % (m[op], a, b), pa + pb
        if k == 'UnaryOperator':
            op = n['opcode']; inner = n['inner'][0]
            if op == '*':
                a, pa = self.expr(inner); return 'CLoad (%s)' % a, pa
            if op == '~':
                a, pa = self.expr(inner); return 'CNot (%s)' % a, pa
            if op == '!':
                a, pa = self.expr(inner); return 'CLNot (%s)' % a, pa
            if op in ('++', '--'):
                v = self.lvar(inner); delta = 'OAdd' if op == '++' else 'OSub'
                st = 'CAssign %d (CBin %s (CVar %d) (CConst 1))' % (v, delta, v)
                if n.get('isPostfix'): return 'CVar %d' % v, [st]
                raise Unsupported('prefix increment inside an expression')
            raise Unsupported('unary ' + op)
        if k == 'ArraySubscriptExpr':
            a, pa = self.expr(n['inner'][0]); b, pb = self.expr(n['inner'][1])
            if 'char' not in n['type']['qualType']: raise Unsupported('subscript of non-byte element')
            return 'CLoad (CBin OAdd (%s) (%s))' % (a, b), pa + pb
        raise Unsupported('expression ' + k)
    def lvar(self, n):
        while n['kind'] in ('ParenExpr', 'ImplicitCastExpr'): n = n['inner'][0]
        if n['kind'] != 'DeclRefExpr': raise Unsupported('assignment target ' + n['kind'])
        d = n['referencedDecl']; return self.var(d['id'], d['name'])
    def stmt(self, n):
        k = n['kind']
        if k == 'CompoundStmt': return self.seq([self.stmt(c) for c in n.get('inner', [])])
        if k == 'NullStmt': return 'CSkip'
        if k == 'DeclStmt':
            out = []
            for d in n['inner']:
                if d['kind'] != 'VarDecl': raise Unsupported('declaration ' + d['kind'])
                v = self.var(d['id'], d['name'])
                if 'inner' in d:
                    e, p = self.expr(d['inner'][0]); out.append('CAssign %d (%s)' % (v, e)); out += p
            return self.seq(out)
        if k == 'BinaryOperator' and n['opcode'] == '=':
            v = self.lvar(n['inner'][0]); e, p = self.expr(n['inner'][1]); return self.seq(['CAssign %d (%s)' % (v, e)] + p)
        if k == 'BinaryOperator' and n['opcode'] == ',':
            return self.seq([self.stmt(c) for c in n['inner']])
        if k == 'CompoundAssignOperator':
            v = self.lvar(n['inner'][0]); e, p = self.expr(n['inner'][1])
            m = {'|=': 'OOr', '&=': 'OAnd', '^=': 'OXor', '+=': 'OAdd', '-=': 'OSub'}
            if n['opcode'] not in m: raise Unsupported('operator ' + n['opcode'])
            return self.seq(['CAssign %d (CBin %s (CVar %d) (%s))' % (v, m[n['opcode']], v, e)] + p)
        if k == 'UnaryOperator' and n['opcode'] in ('++', '--'):
            v = self.lvar(n['inner'][0]); return 'CAssign %d (CBin %s (CVar %d) (CConst 1))' % (v, 'OAdd' if n['opcode'] == '++' else 'OSub', v)
        if k == 'ForStmt':
            init, cond, inc, body = n['inner'][0], n['inner'][2], n['inner'][3], n['inner'][4]
            parts = []
            if init and init.get('kind'): parts.append(self.stmt(init))
            c, pc = self.expr(cond) if cond and cond.get('kind') else ('CConst 1', [])
            if pc: raise Unsupported('side effect in loop condition')
            b = [self.stmt(body)] + ([self.stmt(inc)] if inc and inc.get('kind') else [])
            parts.append('CWhile (%s) (%s)' % (c, self.seq(b)))
            return self.seq(parts)
        if k == 'WhileStmt':
            c, pc = self.expr(n['inner'][0])
            if pc: raise Unsupported('side effect in loop condition')
            return 'CWhile (%s) (%s)' % (c, self.stmt(n['inner'][1]))
        if k == 'IfStmt':
            c, pc = self.expr(n['inner'][0])
            if pc: raise Unsupported('side effect in condition')
            a = self.stmt(n['inner'][1]); b = self.stmt(n['inner'][2]) if len(n['inner']) > 2 else 'CSkip'
            return 'CIf (%s) (%s) (%s)' % (c, a, b)
        if k in ('ParenExpr', 'ImplicitCastExpr'): return self.stmt(n['inner'][0])
        raise Unsupported('statement ' + k)
    def seq(self, l):
        l = [x for x in l if x != 'CSkip']
        if not l: return 'CSkip'
        out = l[-1]
        for x in reversed(l[:-1]): out = 'CSeq (%s) (%s)' % (x, out)
        return out

def has_call(n, names):
    if n.get('kind') == 'CallExpr': return True
    return any(has_call(c, names) for c in n.get('inner', []) if isinstance(c, dict))

def translate(repo, incdir, path, fname):
    f = ast_of(repo, incdir, path, fname)
    tr = Tr()
    params = [c for c in f['inner'] if c['kind'] == 'ParmVarDecl']
    for p in params: tr.var(p['id'], p['name'])
    body = [c for c in f['inner'] if c['kind'] == 'CompoundStmt'][0]
    stmts = []; ret = None; skipped = 0
    for s in body.get('inner', []):
        if s['kind'] == 'IfStmt' and has_call(s, None): skipped += 1; continue      # the size checks (public parameters only, report + return)
        if s['kind'] == 'ReturnStmt':
            e, p = tr.expr(s['inner'][0])
            if p: raise Unsupported('side effect in return')
            ret = e; continue
        stmts.append(tr.stmt(s))
    if ret is None: raise Unsupported('no return expression')
    return dict(name=fname, stmt=tr.seq(stmts), ret=ret, nvars=len(tr.names), names=tr.names, params=[p['name'] for p in params], skipped_checks=skipped)

def write_gen(progs, coqdir, errors):
    L = ['(* GENERATED on every run by harness/ctast_tr.py from the clang AST of the working tree. *)',
         'From Coq Require Import List ZArith.', 'From SC Require Import ConstTime.', 'Import ListNotations.', 'Local Open Scope Z_scope.']
    for p in progs:
        L.append('(* variables: %s *)' % ', '.join('%d=%s' % (i, n) for i, n in enumerate(p['names'])))
        L.append('Definition %s_body : cstmt := %s.' % (p['name'].strip('_'), p['stmt']))
        L.append('Definition %s_ret : cexpr := %s.' % (p['name'].strip('_'), p['ret']))
        L.append('Definition %s_nvars : nat := %d%%nat.' % (p['name'].strip('_'), p['nvars']))
    L.append('Definition translation_complete : bool := %s.' % ('true' if not errors else 'false'))
    txt = '\n'.join(L) + '\n'
    path = coqdir + '/Gen/TsProgs.v'
    if not os.path.exists(path) or open(path).read() != txt: open(path, 'w').write(txt)

if __name__ == '__main__':
    for path, fn in (('src/extmem/timingsafe_bcmp.c', '_timingsafe_bcmp_chk'), ('src/extmem/timingsafe_memcmp.c', '_timingsafe_memcmp_chk')):
        print(translate('/repo', '/repo/include', path, fn))
