#!/usr/bin/env python3
"""translator "prescan" (C09, T2): for each of the 28 formatted I/O entry points read the current source
(preprocessed with the working tree's configuration), recognise the %n pre-scan idiom and the formatter
the format is then handed to, and write Gen/Prescan.v."""
import re, os, subprocess
ENTRIES = [  # (name, file, wide, scanf)
 ('sprintf_s', 'src/str/sprintf_s.c', 0, 0), ('vsprintf_s', 'src/str/vsprintf_s.c', 0, 0), ('snprintf_s', 'src/str/snprintf_s.c', 0, 0), ('vsnprintf_s', 'src/str/vsnprintf_s.c', 0, 0),
 ('printf_s', 'src/io/printf_s.c', 0, 0), ('fprintf_s', 'src/io/fprintf_s.c', 0, 0), ('vprintf_s', 'src/io/vprintf_s.c', 0, 0), ('vfprintf_s', 'src/io/vfprintf_s.c', 0, 0),
 ('swprintf_s', 'src/wchar/swprintf_s.c', 1, 0), ('vswprintf_s', 'src/wchar/vswprintf_s.c', 1, 0), ('snwprintf_s', 'src/wchar/snwprintf_s.c', 1, 0), ('vsnwprintf_s', 'src/wchar/vsnwprintf_s.c', 1, 0),
 ('wprintf_s', 'src/wchar/wprintf_s.c', 1, 0), ('vwprintf_s', 'src/wchar/vwprintf_s.c', 1, 0), ('fwprintf_s', 'src/wchar/fwprintf_s.c', 1, 0), ('vfwprintf_s', 'src/wchar/vfwprintf_s.c', 1, 0),
 ('sscanf_s', 'src/io/sscanf_s.c', 0, 1), ('vsscanf_s', 'src/io/vsscanf_s.c', 0, 1), ('fscanf_s', 'src/io/fscanf_s.c', 0, 1), ('vfscanf_s', 'src/io/vfscanf_s.c', 0, 1), ('scanf_s', 'src/io/scanf_s.c', 0, 1), ('vscanf_s', 'src/io/vscanf_s.c', 0, 1),
 ('swscanf_s', 'src/wchar/swscanf_s.c', 1, 1), ('vswscanf_s', 'src/wchar/vswscanf_s.c', 1, 1), ('fwscanf_s', 'src/wchar/fwscanf_s.c', 1, 1), ('vfwscanf_s', 'src/wchar/vfwscanf_s.c', 1, 1), ('wscanf_s', 'src/wchar/wscanf_s.c', 1, 1), ('vwscanf_s', 'src/wchar/vwscanf_s.c', 1, 1),
]
def analyse(repo, incdir):
    out = []
    for name, path, wide, scanf in ENTRIES:
        p = subprocess.run(['gcc', '-E', '-P', '-w', '-DHAVE_CONFIG_H', '-I' + incdir, '-I' + repo, '-I' + repo + '/src', repo + '/' + path],
                           capture_output=True, text=True)
        if p.returncode != 0:
            out.append(dict(name=name, idiom='unreadable', formatter='unknown', wide=wide, scanf=scanf)); continue
        src = p.stdout
        # body of the entry point: from its definition to the end of file
        m = re.search(r'\b_?' + name + r'(?:_chk)?\s*\([^;{]*\)\s*\{', src)
        body = src[m.start():] if m else src
        flat = re.sub(r'\s+', '', body)
        # the standard idiom:  p = str(n)str/wcsstr(fmt, "%n"[, N]) ; if ((p - fmt == 0) || *(p - 1) != '%') { report; return }
        idiom = 'none'
        ms = re.search(r'p=\(?(strstr|strnstr|wcsstr|__builtin_strstr)\((?:\([\w]+\*\))?fmt,L?"%n"(?:,[^)]*)?\)', flat)
        if ms:
            tail = flat[ms.end():ms.end() + 400]
            if re.search(r"if\(\(p-fmt==0\)\|\|\*\(p-1\)!=L?'%'\)\{(?:\*dest=L?'\\0';)?invoke_safe_str_constraint_handler\([^;]*;(?:\(\*__errno_location\(\)\)=22;)?return", tail):
                idiom = 'standard'
            else:
                idiom = 'nonstandard'
        # formatter
        if re.search(r'safec_vsnprintf_s\(', flat): fm = 'engine'
        elif re.search(r'=_vsnprintf_s_chk\(', flat): fm = 'entry:vsnprintf_s'
        elif re.search(r'=(vprintf|vfprintf|vsnprintf|vsprintf|vswprintf|vfwprintf|vwprintf|vsscanf|vfscanf|vscanf|vswscanf|vfwscanf|vwscanf)\(', flat): fm = 'libc'
        else: fm = 'unknown'
        out.append(dict(name=name, idiom=idiom, formatter=fm, wide=wide, scanf=scanf))
    # the engine's case 'n': must report and return without reading an argument
    eng = open(repo + '/src/str/vsnprintf_s.c').read()
    mn = re.search(r"case 'n':\s*\{(.*?)\}\s*default:", eng, re.S)
    n_ok = bool(mn) and 'va_arg' not in mn.group(1) and re.search(r'return\s+-1\s*;', mn.group(1)) is not None and '*' not in re.sub(r'"[^"]*"', '', mn.group(1)).replace('char msg', '')
    ptr_int_args = len(re.findall(r'va_arg\(\s*va\s*,\s*(?:int|long|short|signed char|long long|size_t|ptrdiff_t|intmax_t)\s*\*\s*\)', eng))
    return out, n_ok and ptr_int_args == 0

def write_gen(entries, engine_n_ok, coqdir):
    L = ['(* GENERATED on every run by harness/prescan_tr.py from the working tree: which %n pre-scan idiom each',
         '   formatted I/O entry point uses and which formatter receives the format afterwards. *)',
         'From Coq Require Import List String Bool.', 'Import ListNotations.', 'Local Open Scope string_scope.',
         '(* name, idiom, formatter, wide, scanf *)',
         'Definition entries : list (string * string * string * bool * bool) := [']
    L.append(';\n'.join('  ("%s", "%s", "%s", %s, %s)' % (e['name'], e['idiom'], e['formatter'], 'true' if e['wide'] else 'false', 'true' if e['scanf'] else 'false') for e in entries))
    L.append('].')
    L.append('Definition engine_n_case_reports_and_returns : bool := %s.' % ('true' if engine_n_ok else 'false'))
    txt = '\n'.join(L) + '\n'
    path = coqdir + '/Gen/Prescan.v'
    if not os.path.exists(path) or open(path).read() != txt: open(path, 'w').write(txt)
if __name__ == '__main__':
    import sys
    e, ok = analyse('/repo', sys.argv[1] if len(sys.argv) > 1 else '/repo/include')
    for x in e: print(x)
    print('engine n case ok:', ok)
