(* uni_model.ml -- C17: runs the extracted normalisation model.  line: <id> <D|C> <hex> <hex> ... *)
open Unimodel
let rec pos_of_int n = if n = 1 then XH else if n land 1 = 0 then XO (pos_of_int (n lsr 1)) else XI (pos_of_int (n lsr 1))
let z_of_int n = if n = 0 then Z0 else if n < 0 then Zneg (pos_of_int (-n)) else Zpos (pos_of_int n)
let rec int_of_pos = function XH -> 1 | XO p -> 2 * int_of_pos p | XI p -> 2 * int_of_pos p + 1
let int_of_z = function Z0 -> 0 | Zpos p -> int_of_pos p | Zneg p -> - (int_of_pos p)
let show l = String.concat " " (List.map (fun z -> Printf.sprintf "%x" (int_of_z z)) l)
let () =
  try while true do
    let line = input_line stdin in
    match String.split_on_char ' ' line with
    | id :: mode :: cps ->
      let s = List.map (fun h -> z_of_int (int_of_string ("0x" ^ h))) (List.filter (fun x -> x <> "") cps) in
      if mode = "D" then Printf.printf "%s %s\n" id (show (uni_nfd s))
      else Printf.printf "%s %s | %s\n" id (show (uni_nfc s)) (show (uni_nfc_ref s))
    | _ -> ()
  done with End_of_file -> ()
