#!/usr/bin/env python3
"""fam_copy.py -- case generators, reference results and property oracles for the
copy / concatenate / memory family (properties C01..C08)."""
import random
from vlib import Case, BOS_UNKNOWN

EOK, ESNULLP, ESZEROL, ESLEMIN, ESLEMAX, ESOVRLP, ESEMPTY, ESNOSPC, ESUNTERM = 0, 400, 401, 402, 403, 404, 405, 406, 407
EOVERFLOW = 75

STR_FUNCS = {  # name -> (element width, kind)
    'strcpy_s': (1, 'cpy'), 'strcat_s': (1, 'cat'), 'strncpy_s': (1, 'ncpy'), 'strncat_s': (1, 'ncat'),
    'wcscpy_s': (4, 'cpy'), 'wcscat_s': (4, 'cat'), 'wcsncpy_s': (4, 'ncpy'), 'wcsncat_s': (4, 'ncat'),
}
MEM_FUNCS = {  # name -> (element width, kind)
    'memcpy_s': (1, 'mcpy'), 'memmove_s': (1, 'mmove'), 'memcpy16_s': (2, 'mcpy'), 'memmove16_s': (2, 'mmove'),
    'memcpy32_s': (4, 'mcpy'), 'memmove32_s': (4, 'mmove'),
    'memset_s': (1, 'mset'), 'memset16_s': (2, 'mset'), 'memset32_s': (4, 'mset'),
    'memzero_s': (1, 'mzero'), 'memzero16_s': (2, 'mzero'), 'memzero32_s': (4, 'mzero'),
}
NARROW = [0x61, 0x41, 0x62, 0x31, 0x20, 0x80, 0xff]
WIDE = [0x61, 0x41, 0x20ac, 0x10348, 0x100, 0x7fffffff]

def enc(elems, w):
    return b''.join(int(e).to_bytes(w, 'little') for e in elems)
def dec(b, w):
    return [int.from_bytes(b[i:i + w], 'little') for i in range(0, len(b) - len(b) % w, w)]

def rstring(rng, n, w):
    al = NARROW if w == 1 else WIDE
    return [rng.choice(al) for _ in range(n)]
def garbage(rng, nbytes):
    return bytes(rng.choice([0x5a, 0x6b, 0x7c, 0x8d, 0x9e, 0xaf]) for _ in range(nbytes))

class Gen:
    def __init__(self, seed, consts, tier):
        self.rng = random.Random(seed)
        self.c = consts
        self.tier = tier
        self.n = 0
        self.cases = []
    def add(self, func, blocks, args, meta):
        self.n += 1
        meta['func'] = func
        self.cases.append(Case('c%d' % self.n, func, blocks, args, meta))

    # ---------------- string family, separate flush blocks
    def str_sep(self, funcs, dmaxes, srclens, bos_kinds=('unk',), flushes=('R',), priors=('garbage',), slen_rel=(None,), orders=('ds', 'sd')):
        rng = self.rng
        for func in funcs:
            w, kind = STR_FUNCS[func]
            rmax = self.c['rmax_str'] if w == 1 else self.c['rmax_wstr']
            for dmax in dmaxes:
                for L in srclens(dmax):
                    for bosk in bos_kinds:
                        for fl in flushes:
                            for prior in priors:
                                for sr in slen_rel:
                                    for order in orders:
                                        self._str_sep_one(func, w, kind, rmax, dmax, L, bosk, fl, prior, sr, order)

    def _str_sep_one(self, func, w, kind, rmax, dmax, L, bosk, fl, prior, sr, order='ds'):
        rng = self.rng
        has_slen = kind in ('ncpy', 'ncat')
        # source
        src = rstring(rng, L, w)
        if has_slen:
            slen = {None: L, 'lt': max(L - 1, 0), 'eq': L, 'gt': L + 2, 'zero': 0, 'big': rmax + 1, 'max': rmax}[sr]
        else:
            slen = None
            if sr is not None: return
        # readable extent of src: up to and including the terminator, or slen elements if shorter
        if has_slen and sr == 'unterm':
            return
        src_elems = src + [0]
        soff = 0
        if has_slen and slen < len(src_elems):
            # declared readable extent: slen elements only; the block ends right after them
            src_elems = src_elems[:slen]
            if slen == 0: src_elems = [0x7e]; soff = w      # never dereferenced: pointer flush at the guard page
        src_block = enc(src_elems, w)
        # dest prior content
        real_dmax = dmax if 0 < dmax <= rmax else 0
        if bosk == 'larger': objlen = real_dmax + 3
        elif bosk == 'smaller': objlen = max(real_dmax - 1, 1) if real_dmax > 1 else None
        else: objlen = real_dmax
        if objlen is None: return
        if kind in ('cat', 'ncat'):
            if prior == 'garbage':
                dcont = dec(garbage(rng, objlen * w), w)
                # wide garbage could contain a zero element only by accident; force non-zero
                dcont = [e if e != 0 else 0x5a for e in dcont]
            else:
                k = {'empty': 0, 'half': real_dmax // 2, 'full1': max(real_dmax - 1, 0)}[prior]
                k = min(k, max(objlen - 1, 0))
                dcont = rstring(rng, k, w) + [0] + dec(garbage(rng, max(objlen - k - 1, 0) * w), w)
                dcont = dcont[:objlen]
        else:
            if prior == 'garbage':
                dcont = [e if e != 0 else 0x5a for e in dec(garbage(rng, objlen * w), w)]
            else:
                k = min(real_dmax // 2, max(objlen - 1, 0))
                dcont = (rstring(rng, k, w) + [0] + dec(garbage(rng, max(objlen - k - 1, 0) * w), w))[:objlen]
        dest_block = enc(dcont, w)
        destbos = {'unk': BOS_UNKNOWN, 'exact': real_dmax * w, 'larger': objlen * w, 'smaller': objlen * w}[bosk]
        if bosk != 'unk' and real_dmax == 0: return
        db, sb = (0, 1) if order == 'ds' else (1, 0)
        blocks = [(fl, dest_block), ('R', src_block)] if order == 'ds' else [('R', src_block), (fl, dest_block)]
        if not len(dest_block): return
        dptr = (db, 0)
        args = [dptr, dmax, (sb, soff)]
        if has_slen: args.append(slen)
        args.append(destbos)
        if has_slen: args.append(BOS_UNKNOWN)
        meta = dict(cls='sep', w=w, kind=kind, dest=(db, 0), dmax=dmax, objlen=objlen, destbos=destbos,
                    src=(sb, soff), srclen=L, slen=slen, prior=prior, bosk=bosk, flush=fl, order=order)
        self.add(func, blocks, args, meta)

    # ---------------- NULL / zero / huge argument combinations
    def str_bad(self, funcs):
        rng = self.rng
        for func in funcs:
            w, kind = STR_FUNCS[func]
            rmax = self.c['rmax_str'] if w == 1 else self.c['rmax_wstr']
            has_slen = kind in ('ncpy', 'ncat')
            for dnull in (False, True):
                for snull in (False, True):
                    for dmax in (0, 1, 5, rmax, rmax + 1, (1 << 64) - 1):
                        for slen in ((0, 3, rmax + 1, (1 << 64) - 1) if has_slen else (None,)):
                            for bosk in ('unk', 'exact'):
                                real = dmax if 0 < dmax <= rmax else 4
                                if bosk == 'exact' and not (0 < dmax <= rmax): continue
                                k0 = rng.choice([0, min(2, real - 1)])
                                dcont = rstring(rng, k0, w) + [0]
                                dcont = dcont + [e if e else 0x5a for e in dec(garbage(rng, (real - len(dcont)) * w), w)]
                                src = rstring(rng, 2, w) + [0]
                                blocks = [('R', enc(dcont, w)), ('R', enc(src, w))]
                                args = [None if dnull else (0, 0), dmax, None if snull else (1, 0)]
                                if has_slen: args.append(slen)
                                args.append(BOS_UNKNOWN if bosk == 'unk' else real * w)
                                if has_slen: args.append(BOS_UNKNOWN)
                                meta = dict(cls='bad', w=w, kind=kind, dest=None if dnull else (0, 0), dmax=dmax, objlen=real,
                                            destbos=args[-2] if has_slen else args[-1], src=None if snull else (1, 0), srclen=2, slen=slen,
                                            prior='half', bosk=bosk, flush='R')
                                self.add(func, blocks, args, meta)

    # ---------------- overlap sweep: both operands in one arena, every offset
    def str_arena(self, funcs, dmaxes, maxL):
        rng = self.rng
        for func in funcs:
            w, kind = STR_FUNCS[func]
            has_slen = kind in ('ncpy', 'ncat')
            for dmax in dmaxes:
                for L in range(0, maxL + 1):
                    slens = (None,) if not has_slen else sorted(set([max(L - 1, 1), L, L + 2]) - {0})
                    for slen in slens:
                        span = dmax + L + 2
                        for off in range(-span, span + 1):
                            margin = 4
                            lo = min(0, off) ; hi = max(dmax, off + L + 1)
                            size = (hi - lo) + 2 * margin
                            D = margin - lo          # element index of dest in arena
                            S = D + off
                            ar = [e if e else 0x5a for e in dec(garbage(rng, size * w), w)]
                            if kind in ('cat', 'ncat'):
                                k = rng.randrange(0, dmax)
                                for i, e in enumerate(rstring(rng, k, w) + [0]): ar[D + i] = e
                            for i, e in enumerate(rstring(rng, L, w) + [0]): ar[S + i] = e
                            blocks = [('R', enc(ar, w))]
                            args = [(0, D * w), dmax, (0, S * w)]
                            if has_slen: args.append(slen)
                            args.append(BOS_UNKNOWN)
                            if has_slen: args.append(BOS_UNKNOWN)
                            meta = dict(cls='arena', w=w, kind=kind, dest=(0, D * w), dmax=dmax, objlen=dmax, destbos=BOS_UNKNOWN,
                                        src=(0, S * w), srclen=L, slen=slen, off=off, prior='arena', bosk='unk', flush='R')
                            self.add(func, blocks, args, meta)

    # ---------------- memory family
    def mem_cases(self, funcs, sizes, aligns=(0,), arena_offsets=False):
        rng = self.rng
        rmax = self.c['rmax_mem']
        for func in funcs:
            w, kind = MEM_FUNCS[func]
            for al in aligns:
                for n in sizes:         # n = element count
                    if kind in ('mcpy', 'mmove'):
                        for drel in ('eq', 'gt', 'lt'):
                            for bosk in ('unk', 'exact', 'larger'):
                                dbytes = {'eq': n * w, 'gt': n * w + 3 * w, 'lt': max(n * w - w, 0)}[drel]
                                if dbytes == 0 and n > 0 and drel != 'lt': continue
                                obj = dbytes + (2 * w if bosk == 'larger' else 0)
                                dblk = b'\xa5' * al + garbage(rng, obj)
                                sblk = b'\xa5' * al + garbage(rng, n * w)
                                if obj == 0: continue
                                destbos = BOS_UNKNOWN if bosk == 'unk' else obj
                                # dmax argument: bytes for all copy functions
                                args = [(0, al), dbytes, (1, al) if n > 0 else (1, 0), n, destbos, BOS_UNKNOWN]
                                blocks = [('L' if al else 'R', dblk), ('L' if al else 'R', sblk if len(sblk) else b'\x00')]
                                meta = dict(cls='mem', w=w, kind=kind, dest=(0, al), dmax=dbytes, objlen=obj, destbos=destbos,
                                            src=(1, al), n=n, bosk=bosk, align=al, flush='L' if al else 'R')
                                self.add(func, blocks, args, meta)
                    elif kind == 'mset':
                        for drel in ('eq', 'gt', 'lt'):
                            for bosk in ('unk', 'exact', 'larger'):
                                dbytes = {'eq': n * w, 'gt': n * w + 3 * w, 'lt': max(n * w - w, 0)}[drel]
                                obj = dbytes + (2 * w if bosk == 'larger' else 0)
                                if obj == 0: continue
                                for val in ((0, 0x41, 0x80, 0xfe, 0xff) if w == 1 else (0, 0x41, (1 << (8 * w)) - 2, 0x8081 if w == 2 else 0x80818283)):
                                    dblk = b'\xa5' * al + garbage(rng, obj)
                                    destbos = BOS_UNKNOWN if bosk == 'unk' else obj
                                    args = [(0, al), dbytes, val, n, destbos]
                                    meta = dict(cls='mem', w=w, kind=kind, dest=(0, al), dmax=dbytes, objlen=obj, destbos=destbos,
                                                n=n, val=val, bosk=bosk, align=al, flush='L' if al else 'R')
                                    self.add(func, [('L' if al else 'R', dblk)], args, meta)
                    elif kind == 'mzero':
                        for bosk in ('unk', 'exact', 'larger'):
                            obj = n * w + (2 * w if bosk == 'larger' else 0)
                            if obj == 0: continue
                            dblk = b'\xa5' * al + garbage(rng, obj)
                            destbos = BOS_UNKNOWN if bosk == 'unk' else obj
                            args = [(0, al), n, destbos]
                            meta = dict(cls='mem', w=w, kind=kind, dest=(0, al), dmax=n * w, objlen=obj, destbos=destbos,
                                        n=n, bosk=bosk, align=al, flush='L' if al else 'R')
                            self.add(func, [('L' if al else 'R', dblk)], args, meta)

    def mem_bad(self, funcs):
        rng = self.rng
        rmax = self.c['rmax_mem']
        for func in funcs:
            w, kind = MEM_FUNCS[func]
            for dnull in (False, True):
                for dmax in (0, 8, rmax + 1, (1 << 64) - 1):
                    for n in (0, 2, rmax + 1, (1 << 64) - 1):
                        if kind in ('mcpy', 'mmove'):
                            for snull in (False, True):
                                dblk = garbage(rng, 8); sblk = garbage(rng, 8)
                                args = [None if dnull else (0, 0), dmax, None if snull else (1, 0), n, BOS_UNKNOWN, BOS_UNKNOWN]
                                if n == 2 and dmax == 8 and not dnull and not snull: continue
                                # truthful only if the library rejects before touching: n<=dmax<=8 or error
                                meta = dict(cls='membad', w=w, kind=kind, dest=None if dnull else (0, 0), dmax=dmax if dmax <= 8 else 0, objlen=8,
                                            destbos=BOS_UNKNOWN, src=None if snull else (1, 0), n=n, bosk='unk', align=0, flush='R')
                                self.add(func, [('R', dblk), ('R', sblk)], args, meta)
                        elif kind == 'mset':
                            dblk = garbage(rng, 8)
                            for val in (0x41, 256, -1):
                                if w != 1 and val != 0x41: continue
                                args = [None if dnull else (0, 0), dmax, val, n, BOS_UNKNOWN]
                                meta = dict(cls='membad', w=w, kind=kind, dest=None if dnull else (0, 0), dmax=dmax if dmax <= 8 else 0, objlen=8,
                                            destbos=BOS_UNKNOWN, n=n, val=val, bosk='unk', align=0, flush='R')
                                self.add(func, [('R', dblk)], args, meta)
                        elif kind == 'mzero':
                            if dmax != 8: continue
                            dblk = garbage(rng, 8)
                            args = [None if dnull else (0, 0), n, BOS_UNKNOWN]
                            meta = dict(cls='membad', w=w, kind=kind, dest=None if dnull else (0, 0), dmax=(n * w if n * w <= 8 else 0), objlen=8,
                                        destbos=BOS_UNKNOWN, n=n, bosk='unk', align=0, flush='R')
                            self.add(func, [('R', dblk)], args, meta)

    def mem_arena(self, funcs, sizes):
        """both operands in one arena, every byte offset (C07)"""
        rng = self.rng
        for func in funcs:
            w, kind = MEM_FUNCS[func]
            if kind not in ('mcpy', 'mmove'): continue
            for n in sizes:
                for extra in (0, w):
                    dbytes = n * w + extra
                    span = dbytes + n * w + 1
                    for off in range(-span, span + 1):
                        margin = 8
                        lo = min(0, off); hi = max(dbytes, off + n * w)
                        size = hi - lo + 2 * margin
                        D = margin - lo; S = D + off
                        ar = garbage(rng, size)
                        args = [(0, D), dbytes, (0, S), n, BOS_UNKNOWN, BOS_UNKNOWN]
                        meta = dict(cls='memarena', w=w, kind=kind, dest=(0, D), dmax=dbytes, objlen=dbytes, destbos=BOS_UNKNOWN,
                                    src=(0, S), n=n, off=off, bosk='unk', align=0, flush='R')
                        self.add(func, [('R', ar)], args, meta)

# ======================================================================= reference + oracles
def first_nul(elems):
    for i, e in enumerate(elems):
        if e == 0: return i
    return None

def dest_elems(case, blocks):
    m = case.meta
    if m['dest'] is None: return None
    b, off = m['dest']; w = m['w']
    n = m['dmax'] if m['kind'] not in ('mcpy', 'mmove', 'mset', 'mzero') else None
    if n is None:
        return blocks[b][off:off + m['dmax']]
    return dec(blocks[b][off:off + n * w], w)

def usable_dest(case, consts):
    """dest and dmax themselves are usable: non-null, 0 < dmax <= RSIZE limit, within a known object size"""
    m = case.meta
    if m['dest'] is None: return False
    w = m['w']
    if m['kind'] in ('mcpy', 'mmove', 'mset', 'mzero'):
        rmax = consts['rmax_mem']; dbytes = m['dmax']
    else:
        rmax = consts['rmax_str'] if w == 1 else consts['rmax_wstr']; dbytes = m['dmax'] * w
    if not (0 < m['dmax'] <= rmax): return False
    if m['destbos'] != BOS_UNKNOWN and dbytes > m['destbos']: return False
    return True

def src_string(case):
    """the source string as it is in memory before the call (elements up to the terminator)"""
    m = case.meta
    b, off = m['src']; w = m['w']
    el = dec(case.blocks[b][1][off:], w)
    k = first_nul(el)
    return el[:k] if k is not None else el

def ref_str(case, consts):
    """('ok', result elements incl. terminator) or ('fail', reason) for a string-family call"""
    m = case.meta; w = m['w']; kind = m['kind']; dmax = m['dmax']
    rmax = consts['rmax_str'] if w == 1 else consts['rmax_wstr']
    if kind == 'ncat' and m['dest'] is None and dmax == 0 and m['slen'] == 0: return ('ok', [])   # documented no-op
    if m['dest'] is None: return ('fail', 'dest null')
    if dmax == 0: return ('fail', 'dmax zero')
    if dmax > rmax: return ('fail', 'dmax > max')
    if m['destbos'] != BOS_UNKNOWN and dmax * w > m['destbos']: return ('fail', 'dmax > bos')
    if m['src'] is None: return ('fail', 'src null')
    S = src_string(case)
    if kind in ('ncpy', 'ncat'):
        if m['slen'] > rmax: return ('fail', 'slen > max')
        S = S[:m['slen']]
    P = []
    if kind in ('cat', 'ncat'):
        b, off = m['dest']
        d = dec(case.blocks[b][1][off:off + dmax * w], w)
        k = first_nul(d)
        if k is None: return ('fail', 'dest unterminated')
        P = d[:k]
    res = P + S + [0]
    if len(res) > dmax: return ('fail', 'no space')
    return ('ok', res)

def overlap_class(case, consts):
    """for arena cases: 'disjoint' | 'intersect' | 'slackzone' following the reading of DESIGN C07"""
    m = case.meta; w = m['w']; kind = m['kind']
    d0 = m['dest'][1] // w; s0 = m['src'][1] // w; dmax = m['dmax']
    S = src_string(case)
    nread = len(S) + 1
    if kind in ('ncpy', 'ncat'): nread = min(nread, max(m['slen'], 0))
    P = 0
    if kind in ('cat', 'ncat'):
        d = dec(case.blocks[0][1][m['dest'][1]:m['dest'][1] + dmax * w], w)
        k = first_nul(d)
        P = k if k is not None else dmax
    rd = (s0, s0 + nread)
    dst = (d0, d0 + dmax)
    nwritten = min(len(S) if kind not in ('ncpy', 'ncat') else min(len(S), m['slen']), 10 ** 9) + 1
    wr = (d0 + P, min(d0 + P + nwritten, d0 + dmax))
    def inter(a, b): return max(a[0], b[0]) < min(a[1], b[1])
    if not inter(rd, dst) and (kind not in ('cat', 'ncat') or True):
        return 'disjoint'
    if inter(rd, wr): return 'intersect'
    return 'slackzone'

def blocks_equal_outside(case, o, extents):
    """first (blk, off) at which the implementation changed a byte outside the given extents"""
    for bi, (mode, before) in enumerate(case.blocks):
        after = o.blocks[bi] if bi < len(o.blocks) else b''
        if len(after) != len(before): return (bi, -1)
        if after == before: continue
        for k in range(len(before)):
            if after[k] != before[k]:
                if not any(b == bi and lo <= k < hi for (b, lo, hi) in extents):
                    return (bi, k)
    return None

def dest_extents(case, consts):
    m = case.meta
    if m['dest'] is None: return []
    if not usable_dest(case, consts):
        # unusable sizes: nothing at all may be written, except within a truthful object-size clear
        return []
    b, off = m['dest']; w = m['w']
    nbytes = m['dmax'] if m['kind'] in ('mcpy', 'mmove', 'mset', 'mzero') else m['dmax'] * w
    return [(b, off, off + nbytes)]

def handler_kind(case):
    return 'M' if case.meta['kind'] in ('mcpy', 'mmove', 'mset', 'mzero') else 'S'

def retcode(o):
    try: return int(o.ret)
    except Exception: return None

# each oracle returns a list of (failure-kind, text)
def oracle_C01(case, o, consts):
    fails = []
    if o.fault != '-': fails.append(('fault', 'call faulted at %s' % o.fault))
    else:
        ext = dest_extents(case, consts)
        m = case.meta
        # a failing call on an unusable dmax may clear up to a truthful known object size
        if not ext and m['dest'] is not None and m['destbos'] != BOS_UNKNOWN:
            ext = [(m['dest'][0], m['dest'][1], m['dest'][1] + m['destbos'])]
        bad = blocks_equal_outside(case, o, ext)
        if bad: fails.append(('write-outside', 'byte changed outside the declared destination: block %d offset %d (dest extent %s)' % (bad[0], bad[1], ext)))
    return fails

def oracle_C02(case, o, consts):
    if o.fault != '-': return [('fault', 'call faulted at %s (extent flush against an unreadable page)' % o.fault)]
    return []

def oracle_C03(case, o, consts):
    m = case.meta
    if m['kind'] in ('mcpy', 'mmove', 'mset', 'mzero') or o.fault != '-': return []
    if not usable_dest(case, consts): return []
    d = dest_elems(case, o.blocks)
    if first_nul(d) is None:
        return [('unterminated', 'dest has no NUL within its first %d elements after return %s' % (m['dmax'], o.ret))]
    return []

def oracle_C04(case, o, consts):
    m = case.meta
    rc = retcode(o)
    if o.fault != '-' or rc in (None, 0) or m['kind'] in ('mset', 'mzero'): return []
    if not usable_dest(case, consts): return []
    fails = []
    before = dest_elems(case, [b for (_, b) in case.blocks])
    after = dest_elems(case, o.blocks)
    if len(after) and after[0] != 0:
        fails.append(('first-nonzero', 'failed call (%d) left dest[0] = %#x' % (rc, after[0])))
    for i, (x, y) in enumerate(zip(before, after)):
        if y != 0 and y != x:
            fails.append(('partial', 'failed call (%d) left dest[%d] = %#x written by the call' % (rc, i, y))); break
    strk = m['kind'] in ('cpy', 'cat', 'ncpy', 'ncat')
    after_copy = rc in (ESNOSPC, ESOVRLP, ESUNTERM) or (rc == ESNULLP and m.get('src') is None)
    if (consts['null_slack'] or not strk) and after_copy and any(y != 0 for y in after):
        i = [k for k, y in enumerate(after) if y != 0][0]
        fails.append(('not-all-zero', 'failed call (%d) left dest[%d] = %#x, all dmax elements must be zero' % (rc, i, after[i])))
    return fails

def violates_str(case, consts):
    st, why = ref_str(case, consts)
    if st == 'fail': return why
    if case.meta['cls'] == 'arena' and case.meta['dest'] != case.meta['src']:
        oc = overlap_class(case, consts)
        if oc == 'intersect': return 'overlap'
        if oc == 'slackzone': return '?'
    return None

def oracle_C05(case, o, consts, violates):
    rc = retcode(o)
    if o.fault != '-' or rc is None: return []
    fails = []
    K = handler_kind(case)
    hs = [(k, int(c)) for k, c in o.handlers]
    if rc != 0:
        if hs != [(K, rc)]:
            fails.append(('handler-mismatch', 'returned %d but handler invocations were %s' % (rc, hs)))
    else:
        if hs: fails.append(('handler-on-success', 'returned EOK but handler invocations were %s' % hs))
    if violates == '?': return fails
    if violates and rc == 0: fails.append(('violation-not-reported', 'constraint violated (%s) but the call returned EOK' % violates))
    if not violates and rc != 0: fails.append(('spurious-error', 'no constraint violated but the call returned %d' % rc))
    return fails

def oracle_C06_str(case, o, consts):
    rc = retcode(o)
    if o.fault != '-' or rc is None: return []
    m = case.meta
    st, res = ref_str(case, consts)
    if m['cls'] == 'arena' and overlap_class(case, consts) != 'disjoint': return []
    fails = []
    if rc == 0:
        if st != 'ok':
            if m['kind'] in ('cpy', 'ncpy') and m['dest'] == m['src']: return []
            fails.append(('eok-but-invalid', 'returned EOK although %s' % res))
        else:
            d = dest_elems(case, o.blocks) or []
            if d[:len(res)] != res:
                fails.append(('wrong-result', 'EOK but dest = %s, expected %s' % (d[:len(res) + 2], res)))
    return fails

def oracle_C08_str(case, o, consts):
    rc = retcode(o)
    if o.fault != '-' or rc != 0 or not usable_dest(case, consts): return []
    d = dest_elems(case, o.blocks)
    t = first_nul(d)
    if t is None: return [('no-terminator', 'EOK but no terminator in dest')]
    if consts['null_slack']:
        for i in range(t, len(d)):
            if d[i] != 0: return [('stale-slack', 'EOK, terminator at %d, but dest[%d] = %#x (dmax %d)' % (t, i, d[i], len(d)))]
    return []

def oracle_C07_str(case, o, consts):
    rc = retcode(o)
    if o.fault != '-': return [('fault', 'call faulted at %s' % o.fault)]
    if rc is None: return []
    m = case.meta
    if m['dest'] == m['src']: return []
    oc = overlap_class(case, consts)
    st, res = ref_str(case, consts)
    fails = []
    d = dest_elems(case, o.blocks)
    if oc == 'disjoint':
        if st == 'ok' and rc != 0: fails.append(('disjoint-rejected', 'operands disjoint (offset %d) but returned %d' % (m['off'], rc)))
        if st == 'ok' and rc == 0 and d[:len(res)] != res: fails.append(('corrupt', 'disjoint operands, EOK, wrong dest'))
    elif oc == 'intersect':
        if st == 'ok':
            if rc != ESOVRLP: fails.append(('overlap-undetected', 'written and read elements intersect (offset %d) but returned %d' % (m['off'], rc)))
            elif any(d) and consts['null_slack']: fails.append(('overlap-not-cleared', 'ESOVRLP but dest not cleared'))
    if rc == 0 and st == 'ok' and d[:len(res)] != res and ('corrupt', 'disjoint operands, EOK, wrong dest') not in fails:
        fails.append(('corrupt', 'EOK with a corrupted copy at offset %d: %s expected %s' % (m['off'], d[:len(res)], res)))
    return fails

# ---- memory family references
def ref_mem(case, consts):
    m = case.meta; w = m['w']; kind = m['kind']; rmax = consts['rmax_mem']
    n = m['n']
    if kind in ('mcpy', 'mmove'):
        if n == 0: return ('ok', None)
        if m['dest'] is None: return ('fail', 'dest null')
        if m['dmax'] == 0 and not case.args[1]: return ('fail', 'dmax zero')
        if case.args[1] > rmax: return ('fail', 'dmax > max')
        if m['src'] is None: return ('fail', 'src null')
        if n * w > m['dmax']: return ('fail', 'no space')
        return ('ok', None)
    return ('?', None)

def oracle_C06_mem(case, o, consts):
    rc = retcode(o)
    if o.fault != '-' or rc is None: return []
    m = case.meta; w = m['w']; kind = m['kind']
    if m['cls'] not in ('mem', 'memarena') or m['dest'] is None: return []
    b, off = m['dest']
    fails = []
    if kind in ('mcpy', 'mmove') and rc == 0 and m['n'] > 0:
        sb, so = m['src']
        want = case.blocks[sb][1][so:so + m['n'] * w]
        got = o.blocks[b][off:off + m['n'] * w]
        if m['n'] * w > m['dmax']: fails.append(('eok-no-space', 'EOK although slen exceeds dmax'))
        elif got != want: fails.append(('wrong-result', 'EOK but dest != source bytes'))
        rest_b = case.blocks[b][1][off + m['n'] * w: off + m['dmax']]; rest_a = o.blocks[b][off + m['n'] * w: off + m['dmax']]
        if m['n'] * w <= m['dmax'] and rest_a != rest_b and not (m['cls'] == 'memarena'): fails.append(('tail-changed', 'EOK but dest bytes beyond slen changed'))
    if kind == 'mset' and rc == 0 and m['n'] > 0:
        want = enc([m['val'] & ((1 << (8 * w)) - 1)] * m['n'], w)
        got = o.blocks[b][off:off + m['n'] * w]
        if m['n'] * w > m['dmax'] and m['bosk'] == 'unk': fails.append(('eok-no-space', 'EOK although n exceeds dmax'))
        elif got != want: fails.append(('wrong-result', 'EOK but dest is not n copies of the value'))
    if kind == 'mzero' and rc == 0:
        got = o.blocks[b][off:off + m['n'] * w]
        if any(got): fails.append(('wrong-result', 'EOK but bytes not zero'))
    return fails

def oracle_C07_mem(case, o, consts):
    rc = retcode(o)
    if o.fault != '-': return [('fault', 'call faulted at %s' % o.fault)]
    m = case.meta; w = m['w']
    if m['cls'] != 'memarena' or rc is None: return []
    d0 = m['dest'][1]; s0 = m['src'][1]; nb = m['n'] * w
    want = case.blocks[0][1][s0:s0 + nb]
    got = o.blocks[0][d0:d0 + nb]
    fails = []
    if m['kind'] == 'mmove':
        if rc != 0: fails.append(('move-rejected', 'memmove family returned %d at offset %d' % (rc, m['off'])))
        elif got != want: fails.append(('corrupt', 'memmove family: dest != original source bytes at offset %d' % m['off']))
    else:
        disjoint = s0 + nb <= d0 or d0 + m['dmax'] <= s0
        inter_wr = max(d0, s0) < min(d0 + nb, s0 + nb)
        if s0 == d0: return fails
        if disjoint and rc != 0: fails.append(('disjoint-rejected', 'disjoint operands (offset %d) rejected with %d' % (m['off'], rc)))
        if inter_wr and rc != ESOVRLP: fails.append(('overlap-undetected', 'bytes written and read intersect (offset %d) but returned %d' % (m['off'], rc)))
        if rc == 0 and got != want: fails.append(('corrupt', 'EOK with corrupted copy at offset %d' % m['off']))
        if rc == ESOVRLP and any(o.blocks[0][d0:d0 + m['dmax']]): fails.append(('overlap-not-cleared', 'ESOVRLP but dest not cleared'))
    return fails
