#!/bin/bash
# build_model.sh : (re)build the Coq development and the extracted OCaml model driver
set -e
cd /verif/coq
[ -f Makefile ] || coq_makefile -f _CoqProject -o Makefile >/dev/null
# only what extraction needs: a broken property proof must not take the model driver down with it
timeout 1800 make -j16 Extract.vo > /verif/coq/make.log 2>&1 || { tail -20 /verif/coq/make.log; exit 1; }
mkdir -p /verif/build/model
cd /verif/build/model
if [ ! -f model_driver ] || [ /verif/coq/model.ml -nt model_driver ] || [ /verif/harness/model_driver.ml -nt model_driver ] || [ /verif/coq/Dispatch.v -nt model_driver ] || [ /verif/harness/hist_model.ml -nt model_driver ] || [ /verif/harness/fmt_model.ml -nt model_driver ] || [ /verif/harness/fmt_engine.ml -nt model_driver ]; then
  cp /verif/coq/model.ml /verif/coq/model.mli /verif/harness/model_driver.ml .
  python3 /verif/harness/gen_fn_table.py fn_table.ml
  ocamlfind ocamlopt -O3 -w -a model.mli model.ml fn_table.ml model_driver.ml -o model_driver 2>/dev/null || ocamlfind ocamlopt -w -a model.mli model.ml fn_table.ml model_driver.ml -o model_driver
  cp /verif/harness/hist_model.ml .
  ocamlfind ocamlopt -w -a model.mli model.ml hist_model.ml -o hist_model
  cp /verif/harness/fmt_model.ml .
  ocamlfind ocamlopt -w -a model.mli model.ml fmt_model.ml -o fmt_model
  cp /verif/harness/fmt_engine.ml .
  ocamlfind ocamlopt -w -a model.mli model.ml fmt_engine.ml -o fmt_engine
fi
# C17: the normalisation model over the regenerated tables (own target: a failure here only affects C17)
if [ -f /verif/coq/Gen/UniTables.v ]; then
  cd /verif/coq
  if timeout 1800 make -j16 ExtractUni.vo > /verif/coq/make_uni.log 2>&1; then
    cd /verif/build/model
    if [ ! -f uni_model ] || [ /verif/coq/unimodel.ml -nt uni_model ] || [ /verif/harness/uni_model.ml -nt uni_model ]; then
      cp /verif/coq/unimodel.ml /verif/coq/unimodel.mli /verif/harness/uni_model.ml .
      ocamlfind ocamlopt -w -a unimodel.mli unimodel.ml uni_model.ml -o uni_model
    fi
  else
    rm -f /verif/build/model/uni_model
  fi
fi
