#!/bin/bash
V="${VERIF_ROOT:-$(cd "$(dirname "${BASH_SOURCE[0]}")/.." && pwd)}"; export VERIF_ROOT="$V"
# build_model.sh : (re)build the Coq development and the extracted OCaml model driver
set -e
cd $V/coq
[ -f Makefile ] || coq_makefile -f _CoqProject -o Makefile >/dev/null
# only what extraction needs: a broken property proof must not take the model driver down with it
timeout 1800 make -j16 Extract.vo > $V/coq/make.log 2>&1 || { tail -20 $V/coq/make.log; exit 1; }
mkdir -p $V/build/model
cd $V/build/model
if [ ! -f model_driver ] || [ $V/coq/model.ml -nt model_driver ] || [ $V/harness/model_driver.ml -nt model_driver ] || [ $V/coq/Dispatch.v -nt model_driver ] || [ $V/harness/hist_model.ml -nt model_driver ] || [ $V/harness/fmt_model.ml -nt model_driver ] || [ $V/harness/fmt_engine.ml -nt model_driver ] || [ $V/harness/sort_model.ml -nt model_driver ] || [ ! -f sort_model ]; then
  cp $V/coq/model.ml $V/coq/model.mli $V/harness/model_driver.ml .
  python3 $V/harness/gen_fn_table.py fn_table.ml
  ocamlfind ocamlopt -O3 -w -a model.mli model.ml fn_table.ml model_driver.ml -o model_driver 2>/dev/null || ocamlfind ocamlopt -w -a model.mli model.ml fn_table.ml model_driver.ml -o model_driver
  cp $V/harness/hist_model.ml .
  ocamlfind ocamlopt -w -a model.mli model.ml hist_model.ml -o hist_model
  cp $V/harness/fmt_model.ml .
  ocamlfind ocamlopt -w -a model.mli model.ml fmt_model.ml -o fmt_model
  cp $V/harness/fmt_engine.ml .
  ocamlfind ocamlopt -w -a model.mli model.ml fmt_engine.ml -o fmt_engine
  cp $V/harness/sort_model.ml .
  ocamlfind ocamlopt -O3 -w -a model.mli model.ml sort_model.ml -o sort_model 2>/dev/null || ocamlfind ocamlopt -w -a model.mli model.ml sort_model.ml -o sort_model
fi
# C17: the normalisation model over the regenerated tables (own target: a failure here only affects C17)
if [ -f $V/coq/Gen/UniTables.v ]; then
  cd $V/coq
  if timeout 1800 make -j16 ExtractUni.vo > $V/coq/make_uni.log 2>&1; then
    cd $V/build/model
    if [ ! -f uni_model ] || [ $V/coq/unimodel.ml -nt uni_model ] || [ $V/harness/uni_model.ml -nt uni_model ]; then
      cp $V/coq/unimodel.ml $V/coq/unimodel.mli $V/harness/uni_model.ml .
      ocamlfind ocamlopt -w -a unimodel.mli unimodel.ml uni_model.ml -o uni_model
    fi
  else
    rm -f $V/build/model/uni_model
  fi
fi
