#!/usr/bin/env python3
"""generates coq/FnProps.v (per-function corollaries for C03,C04,C06,C07,C08) and the
Properties_C0x.v files for the copy/concatenate family from one table. Run by hand when the
table changes; the generated files are committed (they are ordinary Coq sources)."""
import sys
FNS = [
 # name, binder list, precondition body, call, spec application, kind, w, g, t, P
 dict(name='strcpy_s', vars='c d dmax s destbos m L', types='(c : cfg) (d dmax s destbos : Z) (m : mem) (L : Z)',
      pre='wf_mem m /\\ d <> 0 /\\ s <> 0 /\\ d <> s /\\ usable (rmax_str c) 1 dmax destbos /\\ is_str 1 m s L',
      intro='(Hm & Hd & Hs & Hne & Hu & Hstr)', call='strcpy_s c d dmax s destbos',
      spec='apply (strcpy_s_spec c d dmax s destbos m L); auto', kind='copy', w='1', g='(Z.abs (s - d))', t='L',
      tpos='destruct Hstr as (HL & _)', ),
 dict(name='wcscpy_s', vars='c d dmax s destbos m L g', types='(c : cfg) (d dmax s destbos : Z) (m : mem) (L g : Z)',
      pre='wf_cfg c /\\ wf_mem m /\\ d <> 0 /\\ s <> 0 /\\ d <> s /\\ Z.abs (s - d) = g * wchar_w c /\\ usable (rmax_wstr c) (wchar_w c) dmax destbos /\\ is_str (wchar_w c) m s L',
      intro='(Hc & Hm & Hd & Hs & Hne & Hg & Hu & Hstr)', call='wcscpy_s c d dmax s destbos',
      spec='apply (wcscpy_s_spec c d dmax s destbos m L g); auto', kind='copy', w='(wchar_w c)', g='g', t='L',
      tpos='destruct Hstr as (HL & _); assert (0 < wchar_w c) by (destruct Hc as (_&_&_&_&_&_&[->| ->]&_); lia)'),
 dict(name='strncpy_s', vars='c d dmax s slen destbos srcbos m t', types='(c : cfg) (d dmax s slen destbos srcbos : Z) (m : mem) (t : Z)',
      pre='wf_mem m /\\ d <> 0 /\\ s <> 0 /\\ d <> s /\\ usable (rmax_str c) 1 dmax destbos /\\ 1 <= slen <= rmax_str c /\\ (srcbos = BOS_UNKNOWN \\/ slen <= srcbos) /\\ src_ends 1 true m s slen t',
      intro='(Hm & Hd & Hs & Hne & Hu & Hsl & Hsb & Hsrc)', call='strncpy_s c d dmax s slen destbos srcbos',
      spec='apply (strncpy_s_spec c d dmax s slen destbos srcbos m t); auto', kind='copy', w='1', g='(Z.abs (s - d))', t='t',
      tpos='destruct Hsrc as (HL & _)'),
 dict(name='strcat_s', vars='c d dmax s destbos m P L', types='(c : cfg) (d dmax s destbos : Z) (m : mem) (P L : Z)',
      pre='wf_mem m /\\ d <> 0 /\\ s <> 0 /\\ d <> s /\\ usable (rmax_str c) 1 dmax destbos /\\ is_str 1 m d P /\\ P < dmax /\\ is_str 1 m s L',
      intro='(Hm & Hd & Hs & Hne & Hu & HP & HPd & Hstr)', call='strcat_s c d dmax s destbos',
      spec='apply (strcat_s_spec c d dmax s destbos m P L); auto', kind='cat', w='1', g='(Z.abs (s - d))', t='L',
      tpos='destruct Hstr as (HL & _); destruct HP as (HP0 & _)'),
 dict(name='strncat_s', vars='c d dmax s slen destbos srcbos m P t', types='(c : cfg) (d dmax s slen destbos srcbos : Z) (m : mem) (P t : Z)',
      pre='wf_mem m /\\ d <> 0 /\\ s <> 0 /\\ d <> s /\\ usable (rmax_str c) 1 dmax destbos /\\ 1 <= slen <= rmax_str c /\\ (srcbos = BOS_UNKNOWN \\/ slen <= srcbos) /\\ is_str 1 m d P /\\ P < dmax /\\ src_ends 1 true m s slen t',
      intro='(Hm & Hd & Hs & Hne & Hu & Hsl & Hsb & HP & HPd & Hsrc)', call='strncat_s c d dmax s slen destbos srcbos',
      spec='apply (strncat_s_spec c d dmax s slen destbos srcbos m P t); auto', kind='cat', w='1', g='(Z.abs (s - d))', t='t',
      tpos='destruct Hsrc as (HL & _); destruct HP as (HP0 & _)'),
]
POSTS = {
 'C03': lambda f: 'fun _ m\' => terminated %s m\' d dmax' % f['w'],
 'C04': lambda f: 'fun r m\' => r <> EOK -> cleared c %s m\' d dmax' % f['w'],
 'C06': lambda f: ('fun r m\' => (r = EOK -> exact_result %s m m\' d dmax s %s %s) /\\ (dmax%s <= %s -> r <> EOK)'
                   % (f['w'], '0' if f['kind'] == 'copy' else 'P', f['t'], '' if f['kind'] == 'copy' else ' - P', f['t'])),
 'C07': lambda f: (('fun r m\' => let g := %s in ' % f['g']) +
                   ('(g <= %(t)s -> g < dmax -> r = ESOVRLP /\\ cleared c %(w)s m\' d dmax) /\\ (%(t)s < g -> %(t)s < dmax -> r = EOK /\\ exact_result %(w)s m m\' d dmax s 0 %(t)s) /\\ (dmax <= %(t)s -> dmax <= g -> r = ESNOSPC /\\ cleared c %(w)s m\' d dmax)' % f
                    if f['kind'] == 'copy' else
                    'let cg := cat_gap d s g P in (cg <= %(t)s -> cg < dmax - P -> r = ESOVRLP /\\ cleared c 1 m\' d dmax) /\\ (%(t)s < cg -> %(t)s < dmax - P -> r = EOK /\\ exact_result 1 m m\' d dmax s P %(t)s) /\\ (dmax - P <= %(t)s -> dmax - P <= cg -> r = ESNOSPC /\\ cleared c 1 m\' d dmax)' % f)),
 'C08': lambda f: 'fun r m\' => r = EOK -> slack_clean c %s m m\' d dmax %s' % (f['w'], f['t'] if f['kind'] == 'copy' else '(P + %s)' % f['t']),
}
def proof(f, pid):
    k = f['kind']
    base = 'intros %s. eapply wp_weaken; [|%s]. intros r m\' Ho. destruct Hu as [H1 Hu2]. %s.\n  ' % (f['intro'], f['spec'], f['tpos'])
    if k == 'copy':
        w = dict(s='s', g=f['g'], t=f['t'])
        withs = 'with (s := s) (g := %s) (t := %s) (m := m) (r := r)' % (f['g'], f['t'])
        if pid == 'C03': return base + 'eapply copy_C03 with (s := s) (g := %s) (t := %s) (m := m) (r := r); try eassumption; lia.' % (f['g'], f['t'])
        if pid == 'C04': return base + 'intros Hr. eapply copy_C04 %s; eassumption.' % withs
        if pid == 'C06': return base + 'destruct (copy_C06 c %s d dmax s %s %s m r m\' H1 Ho) as [A B]. split; [intros Hr; apply A; exact Hr|exact B].' % (f['w'], f['g'], f['t'])
        if pid == 'C07': return base + 'cbv zeta. exact (copy_C07 c %s d dmax s %s %s m r m\' H1 Ho).' % (f['w'], f['g'], f['t'])
        if pid == 'C08': return base + 'intros Hr. eapply copy_C08 %s; try eassumption; lia.' % withs
    else:
        args = 'c d dmax s %s P %s m r m\'' % (f['g'], f['t'])
        if pid == 'C03': return base + 'eapply cat_C03 with (s := s) (g := %s) (P := P) (t := %s) (m := m) (r := r); try eassumption; try reflexivity; lia.' % (f['g'], f['t'])
        if pid == 'C04': return base + 'intros Hr. eapply cat_C04 with (s := s) (g := %s) (P := P) (t := %s) (m := m) (r := r); try eassumption; try reflexivity; lia.' % (f['g'], f['t'])
        if pid == 'C06': return base + 'destruct (cat_C06 %s H1 HP0 HPd eq_refl Ho) as [A B]. split; [intros Hr; apply A; exact Hr|exact B].' % args
        if pid == 'C07': return base + 'cbv zeta. exact (cat_C07 %s H1 HP0 HPd HL eq_refl Ho).' % args
        if pid == 'C08': return base + 'intros Hr. eapply cat_C08 with (s := s) (g := %s) (P := P) (t := %s) (m := m) (r := r); try eassumption; try reflexivity; lia.' % (f['g'], f['t'])

out = ['(* FnProps.v -- GENERATED by harness/gen_fnprops.py: per-function corollaries of the functional',
       '   specifications in the shapes of properties C03, C04, C06, C07, C08. *)',
       'From Coq Require Import List ZArith Lia Bool.',
       'From SC Require Import Base Wp Cfg Comb CombProofs CopySpec ModStr SpecStr PropStr.',
       'Local Open Scope Z_scope.', '']
for f in FNS:
    out.append('Definition pre_%s %s : Prop :=\n  %s.' % (f['name'], f['types'], f['pre']))
    for pid in ('C03', 'C04', 'C06', 'C07', 'C08'):
        out.append('Lemma %s_%s %s : pre_%s %s ->\n  wp (%s) m (%s).\nProof.\n  %s\nQed.' %
                   (f['name'], pid, f['types'], f['name'], f['vars'], f['call'], POSTS[pid](f), proof(f, pid)))
    out.append('')
open('/verif/coq/FnProps.v', 'w').write('\n'.join(out))
# property files: appended sections (the rest of each Properties file is hand-written)
for pid in ('C03', 'C04', 'C06', 'C07', 'C08'):
    o = []
    for f in FNS:
        o.append('Theorem %s_%s : forall %s, pre_%s %s ->\n  wp (%s) m (%s).\nProof. exact %s_%s. Qed.\nPrint Assumptions %s_%s.' %
                 (pid, f['name'], f['types'], f['name'], f['vars'], f['call'], POSTS[pid](f), f['name'], pid, pid, f['name']))
    open('/verif/coq/gen_%s_str.inc' % pid, 'w').write('\n'.join(o) + '\n')
