#!/bin/bash
V="${VERIF_ROOT:-$(cd "$(dirname "${BASH_SOURCE[0]}")/.." && pwd)}"; export VERIF_ROOT="$V"
# run_all.sh [tier] : every registered check on the current tree, sequentially; summary line per check
tier="${1:-quick}"
cd $V
for p in $(python3 -c "import json;print(' '.join(c['property_id'] for c in json.load(open('MANIFEST.json'))['checks']))"); do
  s=$(date +%s); out=$(python3 harness/check.py $p --tier $tier 2>&1); rc=$?; e=$(date +%s)
  echo "$p exit=$rc $((e-s))s known=$(echo "$out" | grep -c '^KNOWN-FINDING') viol=$(echo "$out" | grep -c '^VIOLATION')"
done
