#!/usr/bin/env python3
"""vlib.py -- shared machinery of the checks: building the implementation from /repo's
working tree, running the translators and the Coq build, running both drivers on a case
file, comparing outcomes, classifying failures against known_findings.jsonl, evidence."""
import os, sys, json, subprocess, time, shutil, random, re, hashlib

VERIF = os.environ.get('VERIF_ROOT') or os.path.dirname(os.path.dirname(os.path.abspath(__file__)))
REPO = os.environ.get('VERIF_REPO', '/repo')
HARN = VERIF + '/harness'
COQ = VERIF + '/coq'
BOS_UNKNOWN = (1 << 64) - 1

def sh(cmd, timeout=1800, cwd=None, inp=None, env=None):
    p = subprocess.run(cmd, shell=isinstance(cmd, str), cwd=cwd, input=inp, capture_output=True,
                       text=True, timeout=timeout, env=env)
    return p.returncode, p.stdout, p.stderr

class Scratch:
    """scratch directory outside /repo and /verif, removed at the end of the check"""
    def __init__(self, tag):
        self.dir = '/tmp/verif_%s_%d' % (tag, os.getpid())
        shutil.rmtree(self.dir, ignore_errors=True)
        os.makedirs(self.dir)
    def cleanup(self):
        shutil.rmtree(self.dir, ignore_errors=True)

# ---------------------------------------------------------------- building
def build_impl(scr, variant):
    out = '%s/impl_%s' % (scr.dir, variant)
    rc, o, e = sh([HARN + '/build_impl.sh', out, variant], timeout=600)
    if rc != 0 or not os.path.exists(out + '/impl_driver'):
        raise RuntimeError('build of implementation variant %s failed:\n%s\n%s' % (variant, o[-2000:], e[-2000:]))
    return out

def consts(scr, impl_dir):
    """T2 translator 'consts': compile a dumper against the working tree's headers."""
    src = scr.dir + '/dump_consts.c'
    open(src, 'w').write(r'''
#include <stdio.h>
#include <wchar.h>
#include <errno.h>
#include "safe_lib.h"
#include "safe_str_lib.h"
#include "safe_mem_lib.h"
int main(void){
#ifdef SAFECLIB_STR_NULL_SLACK
 int ns=1;
#else
 int ns=0;
#endif
 printf("{\"null_slack\":%d,\"rmax_str\":%lu,\"rmax_mem\":%lu,\"rmax_wstr\":%lu,\"rmax_mem16\":%lu,\"rmax_mem32\":%lu,\"tok_delim_max\":%d,\"wchar_w\":%d,",
   ns,(unsigned long)RSIZE_MAX_STR,(unsigned long)RSIZE_MAX_MEM,(unsigned long)RSIZE_MAX_WSTR,(unsigned long)RSIZE_MAX_MEM16,(unsigned long)RSIZE_MAX_MEM32,(int)STRTOK_DELIM_MAX_LEN,(int)sizeof(wchar_t));
 printf("\"errcodes\":[%d,%d,%d,%d,%d,%d,%d,%d,%d,%d,%d,%d,%d,%d,%d,%d]}\n",EOK,ESNULLP,ESZEROL,ESLEMIN,ESLEMAX,ESOVRLP,ESEMPTY,ESNOSPC,ESUNTERM,ESNODIFF,ESNOTFND,ESLEWRNG,EOVERFLOW,EINVAL,ERANGE,EILSEQ);
 return 0;}
''')
    exe = scr.dir + '/dump_consts_' + os.path.basename(impl_dir)
    rc, o, e = sh(['gcc', '-w', '-I' + impl_dir + '/inc', '-I' + REPO, src, '-o', exe])
    if rc != 0:
        raise RuntimeError('consts translator: cannot compile dumper: ' + e[-1500:])
    rc, o, e = sh([exe])
    return json.loads(o)

def write_gen_consts(c):
    os.makedirs(COQ + '/Gen', exist_ok=True)
    txt = '''(* GENERATED on every run by harness/vlib.py (translator "consts") from %s/include. *)
From Coq Require Import List ZArith Lia.
From SC Require Import Base Cfg.
Import ListNotations.
Local Open Scope Z_scope.
Definition cfg_repo : cfg := mkCfg %s %d %d %d %d %d %d %d.
Definition errcodes_repo : list Z := [%s].
Theorem wf_cfg_repo : wf_cfg cfg_repo.
Proof. unfold wf_cfg, cfg_repo; cbn. lia. Qed.
Theorem errcodes_agree : errcodes_repo = errcodes_model.
Proof. reflexivity. Qed.
''' % (REPO, 'true' if c['null_slack'] else 'false', c['rmax_str'], c['rmax_mem'], c['rmax_wstr'],
       c['rmax_mem16'], c['rmax_mem32'], c['tok_delim_max'], c['wchar_w'], '; '.join(str(x) for x in c['errcodes']))
    path = COQ + '/Gen/Consts.v'
    old = open(path).read() if os.path.exists(path) else None
    if old != txt:
        open(path, 'w').write(txt)

def coq_build(targets, log):
    """full .vo build of the requested targets (never -vos). Returns (ok, output)."""
    if not os.path.exists(COQ + '/Makefile'):
        sh('coq_makefile -f _CoqProject -o Makefile', cwd=COQ)
    rc, o, e = sh(['timeout', '1500', 'make', '-k', '-j16'] + targets, cwd=COQ, timeout=1600)
    open(log, 'w').write(o + '\n' + e)
    return rc == 0, o + '\n' + e

def build_model():
    rc, o, e = sh([HARN + '/build_model.sh'], timeout=1800)
    if rc != 0:
        raise RuntimeError('model build failed:\n' + o[-3000:] + e[-3000:])
    return VERIF + '/build/model/model_driver'

def model_args(c, null_slack=None):
    ns = c['null_slack'] if null_slack is None else null_slack
    return [str(int(ns)), str(c['rmax_str']), str(c['rmax_mem']), str(c['rmax_wstr']), str(c['rmax_mem16']),
            str(c['rmax_mem32']), str(c['tok_delim_max']), str(c['wchar_w'])]

def theorems_of(vfile):
    """names of the Theorem statements of a Properties file = the proof obligations"""
    txt = open(vfile).read()
    return re.findall(r'^\s*Theorem\s+(\w+)', txt, re.M)

def compile_properties(pid, scr):
    """compile Properties_<pid>.v (and everything it needs) ; returns dict"""
    vfile = '%s/Properties_%s.v' % (COQ, pid)
    names = theorems_of(vfile)
    ok, out = coq_build(['Properties_%s.vo' % pid], scr.dir + '/coq_%s.log' % pid)
    assumptions = []
    failed = []
    if ok:
        # re-run coqc on the property file alone to capture Print Assumptions output
        rc, o, e = sh(['timeout', '600', 'coqc', '-Q', '.', 'SC', 'Properties_%s.v' % pid], cwd=COQ)
        assumptions = [l.strip() for l in o.split('\n') if l.strip()]
        if rc != 0:
            ok = False; out += o + e
    if not ok:
        m = re.findall(r'File "\./([\w/]+\.v)", line (\d+)', out)
        failed = ['%s:%s' % (f, l) for f, l in m] or ['build failed']
    return {'ok': ok, 'theorems': names, 'assumptions': assumptions, 'failed': failed, 'log': out[-4000:]}

# ---------------------------------------------------------------- cases
class Case:
    __slots__ = ('id', 'func', 'blocks', 'args', 'meta')
    def __init__(self, id, func, blocks, args, meta=None):
        self.id = id; self.func = func; self.blocks = blocks; self.args = args; self.meta = meta or {}
    def line(self):
        parts = [self.id, self.func, str(len(self.blocks))]
        for mode, data in self.blocks:
            parts += [mode, data.hex() if len(data) else '-']
        parts.append(str(len(self.args)))
        for a in self.args:
            if a is None: parts.append('N')
            elif isinstance(a, tuple): parts.append('P%d:%d' % a)
            elif isinstance(a, str): parts.append(a)
            else: parts.append('I%d' % a if a >= 0 else 'S%d' % a)
        return ' '.join(parts)
    def to_json(self):
        return {'id': self.id, 'func': self.func, 'blocks': [[m, d.hex()] for m, d in self.blocks],
                'args': [('P%d:%d' % a if isinstance(a, tuple) else ('N' if a is None else a)) for a in self.args],
                'meta': self.meta}

class Outcome:
    __slots__ = ('ret', 'handlers', 'fault', 'blocks', 'raw', 'statics', 'alloc', 'fields')
    def __init__(self, line):
        self.raw = line
        f = line.split()
        d = dict(x.split('=', 1) for x in f[1:])
        self.ret = d.get('ret'); self.fields = d
        h = d.get('h', '-')
        self.handlers = [] if h == '-' else [tuple(x.split(':')) for x in h.split(',')]
        self.fault = d.get('fault', '-')
        self.statics = d['st'].split(',') if 'st' in d else []
        self.alloc = tuple(int(z) for z in d['al'].split('/')) if 'al' in d else None
        self.blocks = []
        i = 0
        while 'b%d' % i in d:
            v = d['b%d' % i]
            self.blocks.append(b'' if v == '-' else bytes.fromhex(v)); i += 1

def run_driver(cmd, case_file, timeout=120, env=None):
    with open(case_file) as f:
        p = subprocess.run(cmd, stdin=(subprocess.DEVNULL if cmd[-1] == case_file else f), capture_output=True, text=True, timeout=timeout, env=env)
    res = {}
    for l in p.stdout.split('\n'):
        if not l or l[0] == '#': continue
        res[l.split(' ', 1)[0]] = Outcome(l)
    return res, p.returncode, p.stderr

def run_impl(impl_dir, case_file, cases, locale=None, wrapper=None, statics=None, budget=150):
    """runs the C driver. A run that dies (a crash the signal handlers cannot absorb) or hangs is bisected:
    the culprit case gets the outcome CRASH / HANG (both are reported by the oracles as faults)."""
    base = (wrapper or []) + [impl_dir + '/impl_driver', locale or '-', statics or '-']
    def go(cs, tag, tmo):
        path = '%s.%s' % (case_file, tag)
        with open(path, 'w') as f:
            for c in cs: f.write(c.line() + '\n')
        try:
            res, rc, err = run_driver(base + [path], path, timeout=tmo)
            hung = False
        except subprocess.TimeoutExpired:
            res, hung = {}, True
        os.unlink(path)
        missing = [c for c in cs if c.id not in res]
        if not missing: return res
        if len(cs) == 1:
            res[cs[0].id] = Outcome('%s ret=%s h=- fault=?%s' % (cs[0].id, 'HANG' if hung else 'CRASH', 'hang' if hung else 'crash'))
            return res
        if hung:
            # nothing usable came back: bisect everything with a shorter leash
            mid = len(cs) // 2
            res.update(go(cs[:mid], tag + 'a', max(tmo // 2, 10))); res.update(go(cs[mid:], tag + 'b', max(tmo // 2, 10)))
        else:
            # the driver died at the first missing case: that one is the culprit, the rest still has to run
            first = missing[0]
            res[first.id] = Outcome('%s ret=CRASH h=- fault=?crash' % first.id)
            rest = [c for c in missing if c.id != first.id]
            if rest: res.update(go(rest, tag + 'r', tmo))
        return res
    return go(cases, 'i', budget)

def run_model(model_driver, margs, case_file, shards=16):
    """the extracted model is pure: shard the case file over the cores"""
    lines = [l for l in open(case_file) if l.strip()]
    shards = max(1, min(shards, len(lines) // 50 + 1))
    procs = []
    for i in range(shards):
        part = case_file + '.m%d' % i
        with open(part, 'w') as f: f.writelines(lines[i::shards])
        fin = open(part)
        procs.append((subprocess.Popen([model_driver] + margs, stdin=fin, stdout=subprocess.PIPE, stderr=subprocess.PIPE, text=True), fin, part))
    res = {}
    for p, fin, part in procs:
        out, err = p.communicate(timeout=3000)
        fin.close(); os.unlink(part)
        if p.returncode != 0:
            raise RuntimeError('model driver failed: ' + err[-2000:])
        for l in out.split('\n'):
            if not l or l[0] == '#': continue
            res[l.split(' ', 1)[0]] = Outcome(l)
    return res

# ---------------------------------------------------------------- known findings
def load_known():
    path = VERIF + '/known_findings.jsonl'
    out = []
    if os.path.exists(path):
        for l in open(path):
            l = l.strip()
            if l and not l.startswith('#'):
                out.append(json.loads(l))
    return out

# ---------------------------------------------------------------- reporting
class Report:
    def __init__(self, pid, tier, seed):
        self.pid = pid; self.tier = tier; self.seed = seed
        self.t0 = time.time()
        self.violations = []      # (what, replay dict)
        self.known_hits = {}      # finding id -> count
        self.mismatches = []      # correspondence disagreements without property failure
        self.evals = 0
        self.nontrivial = set()
        self.samples = []
        self.dist = {}
        self.obligations = 0; self.discharged = 0
        self.trusted = []
        self.notes = []
        self.extra = {}
        self.known = [k for k in load_known() if k.get('property') == pid and k.get('status') == 'open']
    def count(self, key, n=1):
        self.dist[key] = self.dist.get(key, 0) + n
    def violation(self, what, replay):
        self.violations.append((what, replay))
    def finish(self, rule, checker_cmd, level='proof', explanation=None):
        os.makedirs(VERIF + '/evidence', exist_ok=True)
        os.makedirs(VERIF + '/replays', exist_ok=True)
        nviol = 0
        for kid, n in sorted(self.known_hits.items()):
            k = [x for x in self.known if x['id'] == kid][0]
            print('KNOWN-FINDING: property=%s %s [%s] (%d cases)' % (self.pid, k['what'], kid, n))
        seen = set()
        for what, replay in self.violations:
            key = replay.get('key', what)
            if key in seen: continue
            seen.add(key)
            if nviol >= 12: continue
            path = '%s/replays/%s_%s_%d.json' % (VERIF, self.pid, self.tier, nviol)
            json.dump(replay, open(path, 'w'), indent=1, default=str)
            suffix = ' no-failing-input-found' if replay.get('no_failing_input') else ''
            print('VIOLATION property=%s replay=%s%s' % (self.pid, path, suffix))
            print('  what: %s' % what)
            nviol += 1
        cov = {
            'obligations': self.obligations, 'discharged': self.discharged,
            'checker_cmd': checker_cmd, 'trusted_base': self.trusted,
            'evaluations': self.evals, 'distinct_nontrivial': len(self.nontrivial),
            'rule': rule, 'samples': self.samples[:8], 'input_distribution': self.dist,
            'known_findings_hit': self.known_hits, 'correspondence_mismatches': len(self.mismatches),
            'notes': self.notes,
        }
        cov.update(self.extra)
        if explanation: cov['explanation'] = explanation
        ev = {'property_id': self.pid, 'tier': self.tier, 'seed': self.seed, 'level': level,
              'coverage': cov, 'assumptions': self.trusted, 'wall_s': round(time.time() - self.t0, 2),
              'violations': len(seen)}
        json.dump(ev, open('%s/evidence/%s.json' % (VERIF, self.pid), 'w'), indent=1, default=str)
        return 1 if seen else 0

# ---------------------------------------------------------------- translator "statics" (C12)
HANDLER_VARS = {'str_handler', 'mem_handler', 'thrd_str_handler', 'thrd_mem_handler'}
def statics_inventory(impl_dir):
    """nm on every freshly compiled library object: all symbols living in writable sections"""
    inv = []
    for o in sorted(os.listdir(impl_dir + '/obj')):
        rc, out, err = sh(['nm', '-S', impl_dir + '/obj/' + o])
        for l in out.split('\n'):
            f = l.split()
            if len(f) == 4 and f[2] in 'bBdDsSgGcC':
                inv.append((o[:-2], f[3], int(f[1], 16), f[2]))
    return inv

def write_gen_statics(inv, known_static):
    lines = ['(* GENERATED on every run by harness/vlib.py (translator "statics"): nm -S on the objects compiled',
             '   from the working tree; every symbol in a writable section. *)',
             'From Coq Require Import List String ZArith Bool.', 'Import ListNotations.', 'Local Open Scope string_scope.',
             'Definition inventory : list (string * string * Z * string) := [']
    lines.append(';\n'.join('  ("%s", "%s", %d%%Z, "%s")' % e for e in inv))
    lines.append('].')
    lines.append('Definition known_finding_statics : list (string * string) := [%s].' % '; '.join('("%s", "%s")' % k for k in known_static))
    path = COQ + '/Gen/Statics.v'
    txt = '\n'.join(lines) + '\n'
    if not os.path.exists(path) or open(path).read() != txt: open(path, 'w').write(txt)

def statics_ranges(impl_dir, inv, out_path):
    """addresses of the inventory symbols inside the (non-PIE) driver executable; the linker map tells
    which object file each section contribution (hence each local symbol) came from"""
    import re
    contrib = []   # (lo, hi, object)
    cur = None
    for l in open(impl_dir + '/driver.map', errors='replace'):
        m = re.match(r'\s*(\.(?:bss|data|tbss|tdata)[\w.]*)?\s+0x([0-9a-f]+)\s+0x([0-9a-f]+)\s+\S*libimpl\.a\((\w+)\.o\)', l)
        if m and int(m.group(3), 16) > 0:
            lo = int(m.group(2), 16); contrib.append((lo, lo + int(m.group(3), 16), m.group(4)))
    rc, out, err = sh(['nm', '-S', impl_dir + '/impl_driver'])
    want = set((name, size) for (o, name, size, sec) in inv if name not in HANDLER_VARS)
    n = 0
    with open(out_path, 'w') as f:
        for l in out.split('\n'):
            p = l.split()
            if len(p) == 4 and p[2] in 'bBdDsSgGcC' and (p[3], int(p[1], 16)) in want:
                ad = int(p[0], 16)
                obj = next((o for lo, hi, o in contrib if lo <= ad < hi), '?')
                f.write('%s:%s %s %s\n' % (obj, p[3], p[0], p[1])); n += 1
    return n
