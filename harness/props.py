#!/usr/bin/env python3
"""props.py -- per-property check drivers."""
import os, json, time, subprocess
import vlib, fam_copy, known
from vlib import Report, BOS_UNKNOWN

TRUSTED_COMMON = [
    'Coq 8.16.1 kernel and vm_compute (no native_compute)',
    'extraction with ExtrOcamlBasic only (no Extract Constant); OCaml reader/printer harness/model_driver.ml',
    'harness/impl_driver.c (block placement, guard pages, signal capture, handler log), gcc, Linux page protection',
    'translator consts (C dumper compiled against the working tree headers) -> Gen/Consts.v',
    'libc memset/memmove modelled as Fill/Move primitives (modelled, not verified)',
    'correspondence = differential run of the extracted models against the freshly compiled working tree on generated cases (bounded)',
]

def setup(rep, scr, variants):
    """compile implementation variants, regenerate Gen/Consts.v, build model driver"""
    impls = {v: vlib.build_impl(scr, v) for v in variants}
    consts = {v: vlib.consts(scr, impls[v]) for v in variants}
    first = variants[0]
    vlib.write_gen_consts(consts[first])
    md = vlib.build_model()
    return impls, consts, md

def public_macros(rep, pid):
    """T2 (interface): every public function-like macro of the working tree's headers still expands to a plain call of its
    _<name>_chk entry point -- the object the models, the theorems and the drivers are about (harness/macros_tr.py)"""
    import macros_tr
    try:
        ent, prob = macros_tr.analyse(vlib.REPO, [vlib.REPO, vlib.REPO + '/include'])
    except Exception as ex:
        rep.violation('translator macros_tr failed on the headers of the working tree: %s' % ex, {'key': 'macros-tr', 'property': pid, 'no_failing_input': True}); return
    rep.extra['public_macros_checked'] = len(ent)
    for name, why, e in prob:
        rep.violation('public macro %s %s: "%s" -- callers of %s no longer reach the entry point the model describes' % (name, why, e[:200], name),
                      {'key': ('macro', name), 'property': pid, 'function': name, 'no_failing_input': True, 'broken': 'correspondence T2 (harness/macros_tr.py): expansion of %s in include/' % name, 'expansion': e})

def proofs(rep, scr, pid):
    public_macros(rep, pid)
    pr = vlib.compile_properties(pid, scr)
    rep.obligations = len(pr['theorems'])
    rep.discharged = len(pr['theorems']) if pr['ok'] else 0
    rep.extra['theorems'] = pr['theorems']
    rep.extra['print_assumptions'] = pr['assumptions'][:60]
    return pr

def run_cases(rep, scr, impl_dir, md, consts, cases, tag, locale=None):
    cf = '%s/cases_%s.txt' % (scr.dir, tag)
    with open(cf, 'w') as f:
        for c in cases: f.write(c.line() + '\n')
    oi = vlib.run_impl(impl_dir, cf, cases, locale=locale)
    om = vlib.run_model(md, vlib.model_args(consts), cf)
    return oi, om

def judge(rep, cases, oi, om, consts, cfgname, oracle, projection, describe):
    """oracle(case, impl_outcome) -> failures ; projection(case, outcome) -> comparable value"""
    for c in cases:
        a = oi.get(c.id); b = om.get(c.id)
        rep.evals += 1
        rep.count('%s/%s/%s' % (c.func, c.meta.get('cls'), cfgname))
        if a is None or b is None:
            rep.violation('driver produced no outcome for a case', {'key': 'nooutcome', 'case': c.to_json(), 'no_failing_input': True})
            continue
        fails = oracle(c, a)
        key = (c.func, c.meta.get('cls'), a.ret, tuple(a.handlers), cfgname)
        rep.nontrivial.add(key)
        if len(rep.samples) < 6 and rep.evals % 997 == 1:
            rep.samples.append({'case': c.line()[:300], 'impl': a.raw[:300], 'model': b.raw[:300], 'cfg': cfgname})
        if fails:
            for kind, text in fails:
                kid = known.classify(rep, c, a, kind, cfgname, consts)
                if kid:
                    rep.known_hits[kid] = rep.known_hits.get(kid, 0) + 1
                else:
                    rep.violation('%s(%s): %s' % (c.func, cfgname, text),
                                  {'key': (c.func, kind, cfgname), 'property': rep.pid, 'function': c.func, 'config': cfgname,
                                   'failure': kind, 'text': text, 'case': c.to_json(), 'case_line': c.line(),
                                   'impl_outcome': a.raw, 'model_outcome': b.raw,
                                   'replay_cmd': 'python3 /verif/harness/check.py replay <this file>'})
        else:
            pa = projection(c, a); pb = projection(c, b)
            if pa != pb:
                kid = known.classify(rep, c, a, 'model-mismatch', cfgname, consts)
                if kid:
                    rep.known_hits[kid] = rep.known_hits.get(kid, 0) + 1
                else:
                    rep.mismatches.append((c, a, b, cfgname))

def report_mismatches(rep, what_corr):
    """correspondence broken without a property failure found"""
    seen = set()
    for c, a, b, cfgname in rep.mismatches:
        k = (c.func, cfgname)
        if k in seen: continue
        seen.add(k)
        rep.violation('%s(%s): model and implementation disagree under the %s projection; no input violating the property was found'
                      % (c.func, cfgname, rep.pid),
                      {'key': ('mismatch',) + k, 'property': rep.pid, 'function': c.func, 'config': cfgname,
                       'no_failing_input': True, 'broken': 'correspondence %s (model of %s vs implementation)' % (what_corr, c.func),
                       'case': c.to_json(), 'case_line': c.line(), 'impl_outcome': a.raw, 'model_outcome': b.raw})

def report_proofs(rep, pr, pid):
    if not pr['ok']:
        rep.violation('proof obligations of Properties_%s.v no longer check (%s)' % (pid, ', '.join(pr['failed'][:4])),
                      {'key': 'proof', 'property': pid, 'no_failing_input': True,
                       'broken': 'theorems %s at %s' % (pr['theorems'], pr['failed']), 'log': pr['log']})

# ------------------------------------------------------------------ generators per property
STRF = ['strcpy_s', 'strcat_s', 'strncpy_s', 'strncat_s', 'wcscpy_s', 'wcscat_s', 'wcsncpy_s', 'wcsncat_s']
MEMF = ['memcpy_s', 'memmove_s', 'memset_s', 'memzero_s', 'memcpy16_s', 'memmove16_s', 'memset16_s', 'memzero16_s',
        'memcpy32_s', 'memmove32_s', 'memset32_s', 'memzero32_s']

def gen_copy(pid, seed, consts, tier):
    g = fam_copy.Gen(seed, consts, tier)
    thorough = tier == 'thorough'
    small = [1, 2, 3, 4, 5, 7] + ([6, 8, 9, 10, 12] if thorough else [])
    switch = [31, 32, 33, 34] + ([64, 65] if thorough else [])
    rmax = consts['rmax_str']
    lens = lambda dmax: sorted(set(x for x in [0, 1, 2, dmax - 2, dmax - 1, dmax, dmax + 1] if 0 <= x <= min(dmax + 2, 70)))
    narrow = [f for f in STRF if fam_copy.STR_FUNCS[f][0] == 1]
    nfun = [f for f in STRF if fam_copy.STR_FUNCS[f][1] in ('ncpy', 'ncat')]
    ofun = [f for f in STRF if f not in nfun]
    if pid in ('C01', 'C02', 'C03', 'C04', 'C05', 'C06', 'C08'):
        bos = ('unk', 'exact', 'larger', 'smaller') if pid in ('C01', 'C03', 'C04', 'C05') else ('unk', 'exact')
        fl = ('R', 'L') if pid in ('C01', 'C02') else ('R',)
        pri = ('garbage', 'half', 'empty') if pid != 'C03' else ('garbage',)
        g.str_sep(ofun, small + switch, lens, bos, fl, pri + (('full1',) if pid in ('C06', 'C08', 'C01') else ()), (None,))
        g.str_sep(nfun, small + switch, lens, bos, fl, pri, ('lt', 'eq', 'gt', 'zero') + (('big', 'max') if pid in ('C05', 'C04', 'C03') else (('big',) if pid in ('C01', 'C02') else ())))
        # RSIZE_MAX-sized operands: the extracted model is quadratic in the number of element stores, keep these few
        g.str_sep(narrow[:2], [rmax], lambda d: [3], ('unk',), ('R',), ('garbage',), (None,))
        g.str_sep(narrow[:1], [rmax], lambda d: [d - 1] if thorough else [d // 4], ('unk',), ('R',), ('garbage',), (None,), orders=('ds',))
        g.str_bad(STRF)
    if pid in ('C07',):
        g.str_arena(STRF, [1, 2, 3, 5] + ([4, 6, 8] if thorough else []), 4 if not thorough else 6)
        g.str_arena(['strcpy_s', 'strcat_s'], [34], 3)
    if pid in ('C03', 'C04', 'C08', 'C01', 'C02'):
        g.str_arena(STRF, [2, 4] + ([3, 6] if thorough else []), 3)
    if pid in ('C01', 'C04', 'C05', 'C06'):
        sizes = [0, 1, 2, 3, 7, 8, 9, 15, 16, 17, 31, 32, 33, 63, 64, 65, 100] + (list(range(101, 300, 7)) if thorough else [])
        g.mem_cases(MEMF, sizes, aligns=(0, 1, 3, 7) if not thorough else tuple(range(16)))
        g.mem_bad(MEMF)
    if pid == 'C07':
        g.mem_arena(MEMF, [1, 2, 3, 8, 17] + ([5, 9, 33] if thorough else []))
    if pid == 'C06':
        # the move family with overlapping operands at every byte offset (both directions, every alignment, odd and even counts):
        # the result must be what memmove() gives
        g.mem_arena([f for f in MEMF if fam_copy.MEM_FUNCS[f][1] == 'mmove'], [3, 5, 8, 17] + ([9, 33] if thorough else []))
    return g.cases

def projection_for(pid, consts):
    def dest_slice(c, o):
        m = c.meta
        if m['dest'] is None or o.fault != '-': return None
        b, off = m['dest']
        nb = m['dmax'] if m['kind'] in ('mcpy', 'mmove', 'mset', 'mzero') else m['dmax'] * m['w']
        nb = min(nb, 1 << 20)
        return o.blocks[b][off:off + nb] if b < len(o.blocks) else None
    def p(c, o):
        flt = o.fault != '-'
        if flt and pid != 'C01': return (True,)      # a faulting call has no further outcome to compare
        if pid == 'C01': return (flt, None if flt else tuple(o.blocks))
        if pid == 'C02': return flt
        if pid == 'C03':
            d = dest_slice(c, o); return (flt, None if d is None else fam_copy.first_nul(fam_copy.dec(d, c.meta['w'])))
        if pid == 'C04': return (flt, None if flt else (o.ret != '0', tuple(o.blocks) if o.ret != '0' else None))
        if pid == 'C05': return (flt, o.ret, tuple(o.handlers))
        return (flt, o.ret, dest_slice(c, o))
    return p

def oracle_for(pid, consts):
    F = fam_copy
    def o(c, a):
        k = c.meta['kind']; strk = k in ('cpy', 'cat', 'ncpy', 'ncat')
        if pid == 'C01': return F.oracle_C01(c, a, consts)
        if pid == 'C02': return F.oracle_C02(c, a, consts)
        if pid == 'C03': return F.oracle_C03(c, a, consts)
        if pid == 'C04': return F.oracle_C04(c, a, consts)
        if pid == 'C05':
            if strk: return F.oracle_C05(c, a, consts, F.violates_str(c, consts))
            return F.oracle_C05(c, a, consts, '?')
        if pid == 'C06': return F.oracle_C06_str(c, a, consts) if strk else (F.oracle_C07_mem(c, a, consts) if c.meta['cls'] == 'memarena' else F.oracle_C06_mem(c, a, consts))
        if pid == 'C07': return F.oracle_C07_str(c, a, consts) if strk else F.oracle_C07_mem(c, a, consts)
        if pid == 'C08': return F.oracle_C08_str(c, a, consts) if strk else []
        return []
    return o

def check_copy_family(rep, scr, tier, seed):
    pid = rep.pid
    variants = ['O1', 'noslack'] + (['O0', 'O3'] if tier == 'thorough' else [])
    if pid in ('C02', 'C05', 'C06', 'C07') and tier != 'thorough': variants = ['O1']
    impls, consts, md = setup(rep, scr, variants)
    pr = proofs(rep, scr, pid)
    for v in variants:
        cases = gen_copy(pid, seed, consts[v], tier)
        oi, om = run_cases(rep, scr, impls[v], md, consts[v], cases, v)
        judge(rep, cases, oi, om, consts[v], v, oracle_for(pid, consts[v]), projection_for(pid, consts[v]), None)
    if pid == 'C02': c02_query_extents(rep, scr, impls['O1'], md, consts['O1'], tier, seed)
    if pid in ('C01', 'C03', 'C04', 'C05', 'C06', 'C08'):
        for v in variants: getenv_batch(rep, scr, impls[v], md, consts[v], pid, v, tier, seed)
    if pid in ('C01', 'C02'): sort_bounds_batch(rep, scr, impls['O1'], consts['O1'], pid, tier, seed)
    if pid == 'C05': printf_report_batch(rep, scr, impls['O1'], consts['O1'], tier, seed); sort_report_batch(rep, scr, impls['O1'], consts['O1'], tier, seed); query_report_batch(rep, scr, impls['O1'], consts['O1'], tier, seed)
    if pid in ('C01', 'C02', 'C03', 'C04', 'C05', 'C06', 'C07', 'C08'):
        for v in variants: sweep_batch(rep, scr, impls[v], consts[v], pid, v, tier, seed, md)
    report_proofs(rep, pr, pid)
    report_mismatches(rep, 'T1')
    rep.trusted = TRUSTED_COMMON
    rep.extra['functions_in_scope'] = STRF + MEMF + (C02_QUERY if pid == 'C02' else [])
    rep.extra['build_variants'] = variants
    return rep.finish('size lattice x contents x placements x object-size classes x build variants (see input_distribution); '
                      'non-trivial = distinct (function, case class, return value, handler list, build variant)',
                      'make -C /verif/coq Properties_%s.vo (coqc, full .vo) + harness/check.py %s' % (pid, pid))

def printf_report_batch(rep, scr, impl, consts, tier, seed):
    """C05 for the printf family: a failing call reports exactly once, with the code it returns; a succeeding call never reports"""
    import random
    rng = random.Random(seed + 5); cs = []; ml = []; k = [0]
    slack = bool(consts['null_slack']); rmax = consts['rmax_str']
    fmts = []
    for conv in 'dxus':
        for flags in ('', '-', '0', '-+'):
            for width in (None, 6, 12, 20):
                for prec in (None, 3):
                    if conv == 's' and ('0' in flags or '+' in flags): continue
                    d = Dir(flags, width, prec, '', conv, [rng.choice([5, -7, 123456]) if conv != 's' else rng.choice([b'ab', b'hello world'])], ['i' if conv != 's' else 's'])
                    fmts.append(([d], d.text().encode(), d.args))
    fmts += [([], b'plain text that is long', []), ([], b'ab%d' , [77]), ([], b'%s', [None]), ([], b'%q', [1]), ([], b'x%n', [0])]
    for ds, fmt, args in fmts:
        for dmax in (1, 2, 5, 8, 11, 13, 40):
            for func in ('x:snprintf_s', 'x:sprintf_s', 'x:vsprintf_s', 'x:vsnprintf_s'):
                k[0] += 1; c = c11_case(0, func, fmt, args, dmax, rng); c.id = 'p%d' % k[0]
                c.meta = dict(cls='printf-report', func=func[2:], fmt=fmt.decode('latin1'), dmax=dmax, ds=ds, kind='buffer', text=None)
                cs.append(c); ml.append(c11_model_line(c.id, 'vsprintf_s' if func == 'x:vsprintf_s' else 'vsnprintf_s', slack, rmax, c.blocks[0][1], fmt, args))
    cf = '%s/cases_c05p.txt' % scr.dir
    with open(cf, 'w') as f:
        for c in cs: f.write(c.line() + '\n')
    oi = vlib.run_impl(impl, cf, cs)
    p = subprocess.run([vlib.VERIF + '/build/model/fmt_engine'], input='\n'.join(ml) + '\n', capture_output=True, text=True, timeout=600)
    om = {}
    for l in p.stdout.split('\n'):
        f = l.split()
        if f: om[f[0]] = dict(x.split('=', 1) for x in f[1:])
    for c in cs:
        a = oi.get(c.id); m = c.meta; b = om.get(c.id)
        rep.evals += 1; rep.count('%s/printf-report' % m['func'])
        if a is None or a.fault != '-': continue
        rc = int(a.ret); hs = [int(cc) for kk, cc in a.handlers]
        rep.nontrivial.add((m['func'], 'printf-report', rc < 0, len(hs)))
        fails = []
        if rc >= 0 and hs: fails.append(('handler-on-success', 'returned %d but handler invocations were %s' % (rc, hs)))
        if rc < 0 and hs != [22 if rc == -1 else -rc]: fails.append(('handler-mismatch', 'returned %d but handler invocations were %s' % (rc, hs)))
        for kind, t in fails:
            kid = known.classify(rep, c, a, kind, 'O1', consts)
            if kid: rep.known_hits[kid] = rep.known_hits.get(kid, 0) + 1
            else: rep.violation('%s("%s", dmax %d): %s' % (m['func'], m['fmt'], m['dmax'], t), {'key': (m['func'], kind, 'printf'), 'property': 'C05', 'function': m['func'], 'failure': kind, 'case': c.to_json(), 'case_line': c.line(), 'impl_outcome': a.raw, 'what': t})
        if b is not None and b.get('known') == '1':
            mine = (a.ret, ','.join(str(h) for h in hs) or '-'); theirs = (b['ret'], b['h'])
            if mine != theirs: rep.mismatches.append((c, a, vlib.Outcome('%s ret=%s model=%s' % (c.id, b['ret'], ';'.join('%s:%s' % kv for kv in sorted(b.items())))), 'O1'))

def sort_report_batch(rep, scr, impl, consts, tier, seed):
    """C05 for qsort_s / bsearch_s (C11 K.3.6.3): nmemb or size above RSIZE_MAX, or (nmemb != 0 and a null base / comparator / key)
    is reported exactly once with the returned code; every other call reports nothing -- the whole cross product of the argument classes"""
    rmax = consts['rmax_mem']; cs = []; k = 0
    data = bytes(range(16, 48))
    for base_null in (False, True):
        for nm in (0, 1, 3, rmax, rmax + 1):
            for size in (0, 1, 4, rmax, rmax + 1):
                for cmp_null in (False, True):
                    if not base_null and not cmp_null and nm * size > len(data): continue      # a valid, huge request: would really sort
                    k += 1
                    cs.append(vlib.Case('sr%d' % k, 'qsort_s', [('R', data)], [None if base_null else (0, 0), nm, size, UNK, 0 if cmp_null else 1],
                                        dict(cls='sort-report', func='qsort_s', nmemb=nm, size=size, base_null=base_null, cmp_null=cmp_null,
                                             violates=(nm > rmax or size > rmax or (nm != 0 and (base_null or cmp_null))))))
    cf = '%s/cases_c05s.txt' % scr.dir
    with open(cf, 'w') as f:
        for c in cs: f.write(c.line() + '\n')
    oi = vlib.run_impl(impl, cf, cs)
    for c in cs:
        a = oi.get(c.id); m = c.meta
        rep.evals += 1; rep.count('qsort_s/sort-report/%s' % ('violating' if m['violates'] else 'valid'))
        if a is None: continue
        fails = []
        if a.fault != '-': fails.append(('fault', 'faulted at %s' % a.fault))
        else:
            rc = int(a.ret.split(',')[0]); hs = [int(cc) for kk, cc in a.handlers]
            rep.nontrivial.add(('qsort_s', 'sort-report', rc, len(hs)))
            if m['violates']:
                if rc == 0 or hs != [rc]: fails.append(('violation-not-reported', 'nmemb=%d size=%d base %s comparator %s violates a runtime constraint but the call returned %d with handler invocations %s' % (m['nmemb'], m['size'], 'null' if m['base_null'] else 'non-null', 'null' if m['cmp_null'] else 'non-null', rc, hs)))
            elif rc != 0 or hs: fails.append(('valid-reported', 'valid arguments (nmemb=%d size=%d) but the call returned %d with handler invocations %s' % (m['nmemb'], m['size'], rc, hs)))
        for kind, t in fails:
            kid = known.classify(rep, c, a, kind, 'O1', consts)
            if kid: rep.known_hits[kid] = rep.known_hits.get(kid, 0) + 1
            else: rep.violation('qsort_s: %s' % t, {'key': ('qsort_s', kind, 'sort-report'), 'property': 'C05', 'function': 'qsort_s', 'failure': kind, 'case': c.to_json(), 'case_line': c.line(), 'impl_outcome': a.raw, 'what': t})

def query_report_batch(rep, scr, impl, consts, tier, seed):
    """C05 for the read-only (query) entry points: valid calls of C10's generator with one argument made invalid at a time
    (a pointer null, dmax zero, dmax above the limit): a failing call reports exactly once, with the code it returns, through the
    handler of its family; a succeeding call never reports"""
    base = c10_cases(seed, 'quick'); per = {}; cs = []; k = 0
    for c in base:
        if per.get(c.func, 0) >= 3: continue
        per[c.func] = per.get(c.func, 0) + 1
        muts = [('valid', list(c.args))]
        for i, a in enumerate(c.args):
            if isinstance(a, tuple): m2 = list(c.args); m2[i] = None; muts.append(('null%d' % i, m2))
        if len(c.args) > 1 and isinstance(c.args[1], int):
            lim = consts['rmax_mem'] if c.func.startswith(('mem', 'wmem', 'timingsafe')) else (consts['rmax_wstr'] if c.func.startswith('wcs') else consts['rmax_str'])
            for tag, v in (('zero', 0), ('huge', lim + 1)):
                m2 = list(c.args); m2[1] = v; muts.append((tag, m2))
        if c.func in ('memchr_s', 'memrchr_s', 'strchr_s', 'strrchr_s') and len(c.args) > 2 and isinstance(c.args[2], int):
            m2 = list(c.args); m2[2] = 300; muts.append(('chhuge', m2))       # the character argument above 255
        for tag, args in muts:
            k += 1; cs.append(vlib.Case('qr%d' % k, c.func, c.blocks, args, dict(cls='query-report', func=c.func, mut=tag)))
    cf = '%s/cases_c05q.txt' % scr.dir
    with open(cf, 'w') as f:
        for c in cs: f.write(c.line() + '\n')
    oi = vlib.run_impl(impl, cf, cs)
    for c in cs:
        a = oi.get(c.id); m = c.meta
        rep.evals += 1; rep.count('%s/query-report/%s' % (c.func, 'valid' if m['mut'] == 'valid' else 'invalid'))
        if a is None or a.fault != '-' or a.ret in ('UNKNOWN', 'FAULT', 'CRASH'): continue
        try: rc = int(a.ret.split(',')[0])
        except ValueError: continue            # pointer-returning entry points are judged elsewhere
        hs = [(kk, int(cc)) for kk, cc in a.handlers]
        rep.nontrivial.add((c.func, 'query-report', m['mut'], rc, len(hs)))
        want_kind = 'M' if c.func.startswith(('mem', 'wmem', 'timingsafe')) else 'S'
        fails = []
        noterrno = c.func.startswith('stris') or c.func in ('wcsnlen_s', 'strnlen_s')      # answer a bool / a length: 0 also means "violation"
        if m['mut'] == 'valid' and hs and rc == 0 and not noterrno: fails.append(('handler-on-success', 'returned 0 but handler invocations were %s' % hs))
        if noterrno:
            if m['mut'] != 'valid' and len(hs) > 1: fails.append(('handler-count', '%s: the handler was invoked %d times %s' % (m['mut'], len(hs), hs)))
            if m['mut'] != 'valid' and len(hs) == 1 and hs[0][0] != want_kind: fails.append(('handler-kind', '%s: a string function reported through the %s handler' % (m['mut'], hs[0][0])))
        elif m['mut'] != 'valid':
            if rc == 0 and hs: fails.append(('handler-on-success', 'returned 0 but handler invocations were %s' % hs))
            if rc != 0 and rc not in (408, 409) and len(hs) != 1: fails.append(('handler-count', '%s: returned %d but the handler was invoked %d times %s' % (m['mut'], rc, len(hs), hs)))
            elif rc != 0 and len(hs) == 1 and hs[0][1] != abs(rc): fails.append(('handler-code', '%s: returned %d but the handler received %d' % (m['mut'], rc, hs[0][1])))
            elif rc != 0 and len(hs) == 1 and hs[0][0] != want_kind: fails.append(('handler-kind', '%s: a %s function reported through the %s handler' % (m['mut'], 'memory' if want_kind == 'M' else 'string', hs[0][0])))
        for kind, t in fails:
            kid = known.classify(rep, c, a, kind, 'O1', consts)
            if kid: rep.known_hits[kid] = rep.known_hits.get(kid, 0) + 1
            else: rep.violation('%s: %s' % (c.func, t), {'key': (c.func, kind, 'query-report'), 'property': 'C05', 'function': c.func, 'failure': kind, 'case': c.to_json(), 'case_line': c.line(), 'impl_outcome': a.raw, 'what': t})

def sort_bounds_batch(rep, scr, impl, consts, pid, tier, seed):
    """C01/C02 for qsort_s and bsearch_s: the array exactly fills its object, flush against an inaccessible page (and a second time
    with the page in front), element sizes around the 256-byte chunk of the rotation; any access outside nmemb*size bytes faults"""
    import random
    rng = random.Random(seed + 23); cs = []; k = [0]
    sizes = (1, 3, 4, 8, 255, 256, 257, 300, 511, 513) + ((700, 1000) if tier == 'thorough' else ())
    for size in sizes:
        for nm in (0, 1, 2, 3, 5, 9, 17) + ((40,) if size <= 8 or tier == 'thorough' else ()):
            for mode in ('R', 'L'):
                for order in ('random', 'descending'):
                    keys = [rng.randrange(256) for _ in range(nm)] if order == 'random' else list(range(nm, 0, -1))
                    data = b''.join(bytes([kk]) + bytes(rng.randrange(256) for _ in range(size - 1)) for kk in keys) or b'\0'
                    k[0] += 1
                    cs.append(vlib.Case('sb%d' % k[0], 'qsort_s', [(mode, data)], [(0, 0), nm, size, UNK], dict(cls='sort-bounds', func='qsort_s', nmemb=nm, size=size, mode=mode, order=order)))
    cf = '%s/cases_sortbounds.txt' % scr.dir
    with open(cf, 'w') as f:
        for c in cs: f.write(c.line() + '\n')
    oi = vlib.run_impl(impl, cf, cs)
    for c in cs:
        a = oi.get(c.id); m = c.meta
        rep.evals += 1; rep.count('qsort_s/sort-bounds/%s' % ('chunked' if m['size'] > 256 else 'single-chunk'))
        if a is None: continue
        fails = []
        if a.fault != '-': fails.append(('fault', 'faulted at %s: an access outside the %d x %d bytes of the array' % (a.fault, m['nmemb'], m['size'])))
        else:
            rep.nontrivial.add(('qsort_s', 'sort-bounds', m['size'], m['nmemb'], a.ret))
            rv, bad = (a.ret.split(',') + ['0'])[:2]
            if bad != '0': fails.append(('comparator-outside', 'the comparator was handed a pointer that is not an element of the array'))
        for kind, t in fails:
            rep.violation('qsort_s(nmemb=%d, size=%d, %s, array %s): %s' % (m['nmemb'], m['size'], m['order'], 'flush against the page behind it' if m['mode'] == 'R' else 'directly behind an inaccessible page', t),
                          {'key': ('qsort_s', kind, 'sort-bounds'), 'property': pid, 'function': 'qsort_s', 'failure': kind, 'case': c.to_json(), 'case_line': c.line(), 'impl_outcome': a.raw, 'what': t})

def getenv_batch(rep, scr, impl, md, consts, pid, var, tier, seed):
    """getenv_s: value lengths around dmax, unset variable, null arguments; model (libc getenv as an oracle) and reference"""
    import random
    rng = random.Random(seed + 17); cs = []; k = [0]
    slack = bool(consts['null_slack'])
    name = b'VERIF_ENV\0'
    def add(value, dmax, dest_null=False, len_null=False, name_null=False, destbos=UNK, cls='value'):
        k[0] += 1
        blocks = [('R', (value + b'\0') if value is not None else b'\0'), ('R', b'\xee' * 8), ('R', fam_copy.garbage(rng, max(dmax, 1) if dmax < 5000 else 8)), ('R', name)]
        args = [None if len_null else (1, 0), None if dest_null else (2, 0), dmax, None if name_null else (3, 0), destbos, (0, 0) if value is not None else None]
        cs.append(vlib.Case('g%s%d' % (var, k[0]), 'getenv_s', blocks, args, dict(cls=cls, value=value, dmax=dmax, dest_null=dest_null, len_null=len_null, name_null=name_null, func='getenv_s')))
    for dmax in (1, 2, 3, 8, 33, 64):
        for L in sorted(set(x for x in (0, 1, dmax - 2, dmax - 1, dmax, dmax + 1, dmax + 7) if x >= 0)):
            add(bytes(rng.choice(b'abcXYZ019/:') for _ in range(L)), dmax)
        add(None, dmax, cls='unset')
        add(b'abc', dmax, len_null=True, cls='len-null'); add(b'abc', dmax, name_null=True, cls='name-null'); add(b'abc', dmax, dest_null=True, cls='dest-null-dmax')
    add(b'abc', 0, dest_null=True, cls='query'); add(b'', 0, dest_null=True, cls='query'); add(None, 0, dest_null=True, cls='query-unset')
    add(b'abc', 0, cls='dmax-zero'); add(b'abc', consts['rmax_str'] + 1, cls='dmax-max')
    cf = '%s/cases_getenv_%s.txt' % (scr.dir, var)
    with open(cf, 'w') as f:
        for c in cs: f.write(c.line() + '\n')
    oi = vlib.run_impl(impl, cf, cs); om = vlib.run_model(md, vlib.model_args(consts), cf)
    for c in cs:
        a = oi.get(c.id); b = om.get(c.id); m = c.meta
        rep.evals += 1; rep.count('getenv_s/%s/%s' % (m['cls'], var))
        if a is None: continue
        fails = []
        if a.fault != '-': fails.append(('fault', 'faulted at %s' % a.fault))
        else:
            rc = int(a.ret); dmax = m['dmax']; dest = a.blocks[2]; lenv = int.from_bytes(a.blocks[1], 'little'); hs = [(kk, int(cc)) for kk, cc in a.handlers]
            rep.nontrivial.add(('getenv_s', m['cls'], rc, var))
            usable = not m['dest_null'] and 0 < dmax <= consts['rmax_str']
            if pid == 'C01':
                for bi in (0, 3):
                    if a.blocks[bi] != c.blocks[bi][1]: fails.append(('write-outside', 'block %d (not the destination) was modified' % bi))
                if m['len_null'] and a.blocks[1] != c.blocks[1][1]: fails.append(('write-outside', 'the length cell was written although len is NULL'))
            if pid == 'C03' and usable and 0 not in dest[:dmax]: fails.append(('unterminated', 'dest has no NUL within its first %d bytes after return %d' % (dmax, rc)))
            if pid == 'C04' and usable and rc != 0:
                if dest[0] != 0: fails.append(('first-nonzero', 'failed call (%d) left dest[0] = %#x' % (rc, dest[0])))
                elif slack and any(dest[:dmax]): fails.append(('not-all-zero', 'failed call (%d) left dest not all zero' % rc))
            if pid == 'C05':
                if rc == 0 and hs: fails.append(('handler-on-success', 'returned EOK but handler invocations were %s' % hs))
                if rc not in (0, -1) and hs != [('S', rc)]: fails.append(('handler-mismatch', 'returned %d but handler invocations were %s' % (rc, hs)))
                v = m['value']
                if v is not None and not m['name_null'] and usable and len(v) >= dmax and rc == 0: fails.append(('violation-not-reported', 'the value (%d characters) does not fit dmax %d but the call returned EOK' % (len(v), dmax)))
            if pid == 'C08' and rc == 0 and usable and slack and m['value'] is not None:
                t0 = bytes(dest[:dmax]).find(b'\0')
                if t0 >= 0 and any(dest[t0:dmax]): fails.append(('stale-slack', 'EOK, terminator at %d, but dest[%d..%d) is not all zero' % (t0, t0 + 1, dmax)))
            if pid == 'C06' and rc == 0:
                v = m['value']
                if v is None: fails.append(('eok-but-invalid', 'EOK although the variable is not set'))
                else:
                    if usable and bytes(dest[:len(v) + 1]) != v + b'\0': fails.append(('wrong-result', 'EOK but dest = %r, the value is %r' % (bytes(dest[:len(v) + 2]), v)))
                    if not m['len_null'] and lenv != len(v): fails.append(('wrong-length', 'EOK but *len = %d, the value has %d characters' % (lenv, len(v))))
        for kind, t in fails:
            rep.violation('getenv_s(value=%r, dmax=%s, %s; %s): %s' % (m['value'], m['dmax'], m['cls'], var, t), {'key': ('getenv_s', kind), 'property': pid, 'function': 'getenv_s', 'failure': kind, 'case': c.to_json(), 'case_line': c.line(), 'impl_outcome': a.raw, 'what': t})
        if b is not None and a.fault == '-' and (a.ret, a.blocks, a.handlers) != (b.ret, b.blocks, b.handlers): rep.mismatches.append((c, a, b, var))

C02_QUERY = ['wcsnlen_s', 'strcmp_s', 'strcasecmp_s', 'strfirstdiff_s', 'strfirstsame_s', 'strlastdiff_s', 'strlastsame_s', 'strprefix_s', 'strspn_s', 'strcspn_s', 'strpbrk_s', 'strstr_s',
             'strcasestr_s', 'strchr_s', 'strrchr_s', 'strfirstchar_s', 'strlastchar_s', 'memchr_s', 'memrchr_s', 'memcmp_s', 'strisalphanumeric_s', 'strisascii_s', 'strisdigit_s', 'strishex_s',
             'strislowercase_s', 'strismixedcase_s', 'strisuppercase_s', 'wcscmp_s', 'wcsncmp_s', 'wcsstr_s', 'strnatcmp_s', 'strcoll_s', 'strcmpfld_s', 'strispassword_s']
def c02_query_extents(rep, scr, impl, md, consts, tier, seed):
    """read-only functions on unterminated arrays that exactly fill their declared size, flush against an unreadable page"""
    cs = []; k = [0]
    def add(func, blocks, args, **meta):
        k[0] += 1; meta.update(func=func, cls='query-extent'); cs.append(vlib.Case('e%d' % k[0], func, blocks, args, meta))
    res = ('R', b'\xee' * 8)
    for n in (1, 2, 3, 8) + ((5, 16, 33) if tier == 'thorough' else ()):
        for fillc, name in ((0x61, 'letters'), (0x31, 'digits'), (0x20, 'blanks'), (0x41, 'upper')):
            D = bytes([fillc] * n)                           # no terminator inside the object
            WD = fam_copy.enc([fillc] * n, 4)
            srcs = {'same+nul': bytes([fillc] * n) + b'\0', 'longer': bytes([fillc] * (n + 2)) + b'\0', 'shorter': bytes([fillc] * (n - 1)) + b'\0', 'other': b'b\0', 'set': bytes([fillc]) + b'\0'}
            add('wcsnlen_s', [res, ('R', WD)], [(1, 0), n, UNK], n=n, fill=name, which='dest')
            for sn, S in srcs.items():
                for f in ('strcmp_s', 'strcasecmp_s'):
                    add(f, [res, ('R', D), ('R', S)], [(1, 0), n, (2, 0), (0, 0), UNK] + ([UNK] if f == 'strcmp_s' else []), n=n, fill=name, src=sn, which='dest')
                for f in ('strfirstdiff_s', 'strfirstsame_s', 'strlastdiff_s', 'strlastsame_s'):
                    add(f, [res, ('R', D), ('R', S)], [(1, 0), n, (2, 0), (0, 0), UNK], n=n, fill=name, src=sn, which='dest')
                add('strprefix_s', [res, ('R', D), ('R', S)], [(1, 0), n, (2, 0), UNK], n=n, fill=name, src=sn, which='dest')
                for f in ('strspn_s', 'strcspn_s', 'strpbrk_s', 'strstr_s', 'strcasestr_s'):
                    sl = max(len(S) - 1, 1)
                    add(f, [res, ('R', D), ('R', S)], [(1, 0), n, (2, 0), sl, (0, 0), UNK, UNK], n=n, fill=name, src=sn, which='dest')
                WS = fam_copy.enc(list(S[:-1]) + [0], 4)
                add('wcscmp_s', [res, ('R', WD), ('R', WS)], [(1, 0), n, (2, 0), len(S), (0, 0), UNK, UNK], n=n, fill=name, src=sn, which='dest')
                add('wcsncmp_s', [res, ('R', WD), ('R', WS)], [(1, 0), n, (2, 0), len(S), n, (0, 0), UNK, UNK], n=n, fill=name, src=sn, which='dest')
                add('wcsstr_s', [res, ('R', WD), ('R', WS)], [(1, 0), n, (2, 0), max(len(S) - 1, 1), (0, 0), UNK, UNK], n=n, fill=name, src=sn, which='dest')
            # the source side: an unterminated set / pattern of exactly slen elements
            T = D + b'\0'
            for f in ('strspn_s', 'strcspn_s', 'strpbrk_s', 'strstr_s', 'strcasestr_s'):
                for SU in (D, bytes([0x7a] * n)):
                    add(f, [res, ('R', T), ('R', SU)], [(1, 0), n + 1, (2, 0), n, (0, 0), UNK, UNK], n=n, fill=name, src='unterminated', which='src')
            add('memcmp_s', [res, ('R', D), ('R', D[:-1] + b'z')], [(1, 0), n, (2, 0), n, (0, 0), UNK, UNK], n=n, fill=name, src='flush', which='both')
            add('memcmp_s', [res, ('R', D), ('R', D)], [(1, 0), n, (2, 0), n, (0, 0), UNK, UNK], n=n, fill=name, src='flush-equal', which='both')
            for ch in (fillc, 0x7a, 0):
                for f in ('strchr_s', 'strrchr_s', 'memchr_s', 'memrchr_s') + (('strfirstchar_s', 'strlastchar_s') if ch else ()):
                    add(f, [res, ('R', D)], [(1, 0), n, ch, (0, 0), UNK], n=n, fill=name, ch=ch, which='dest')
            for f in ('strisalphanumeric_s', 'strisascii_s', 'strisdigit_s', 'strishex_s', 'strislowercase_s', 'strismixedcase_s', 'strisuppercase_s'):
                add(f, [res, ('R', D)], [(1, 0), n, UNK], n=n, fill=name, which='dest')
            # further comparisons (natural order, collation, fields) and the password predicate
            for sn, S in srcs.items():
                add('strnatcmp_s', [res, ('R', D), ('R', S)], [(1, 0), n, (2, 0), 0, (0, 0), UNK, UNK], n=n, fill=name, src=sn, which='dest')
                add('strcoll_s', [res, ('R', D), ('R', S)], [(1, 0), n, (2, 0), (0, 0), UNK], n=n, fill=name, src=sn, which='dest')
            add('strcmpfld_s', [res, ('R', D), ('R', D[:-1] + b'z')], [(1, 0), n, (2, 0), (0, 0), UNK], n=n, fill=name, src='field', which='both')
            add('strispassword_s', [res, ('R', bytes(([0x61, 0x42, 0x31, 0x21, 0x63, 0x44, 0x32, 0x23] * 5)[:max(n, 6)]))], [(1, 0), max(n, 6), UNK], n=max(n, 6), fill='password', which='dest')
    cf = '%s/cases_c02q.txt' % scr.dir
    with open(cf, 'w') as f:
        for c in cs: f.write(c.line() + '\n')
    oi = vlib.run_impl(impl, cf, cs)
    mc = [c for c in cs if c.func in C10_MODELLED]
    cfm = '%s/cases_c02qm.txt' % scr.dir
    with open(cfm, 'w') as f:
        for c in mc: f.write(c.line() + '\n')
    om = vlib.run_model(md, vlib.model_args(consts), cfm)
    for c in cs:
        a = oi.get(c.id); m = c.meta
        rep.evals += 1; rep.count('%s/query-extent/%s' % (c.func, m['which']))
        if a is None: continue
        rep.nontrivial.add((c.func, 'query-extent', a.ret, a.fault != '-'))
        if a.fault != '-':
            kid = known.classify(rep, c, a, 'fault', 'O1', consts)
            if kid: rep.known_hits[kid] = rep.known_hits.get(kid, 0) + 1
            else: rep.violation('%s on an unterminated %s-element array flush against an unreadable page (%s): faulted at %s' % (c.func, m['n'], {k2: v for k2, v in m.items() if k2 in ('fill', 'src', 'ch', 'which')}, a.fault),
                                {'key': (c.func, 'query-extent', m['which']), 'property': 'C02', 'function': c.func, 'failure': 'fault', 'case': c.to_json(), 'case_line': c.line(), 'impl_outcome': a.raw})
        b = om.get(c.id) if c.func in C10_MODELLED else None
        if b is not None and a.fault == '-' and (a.ret, a.blocks, a.handlers) != (b.ret, b.blocks, b.handlers): rep.mismatches.append((c, a, b, 'O1'))

SWEEP_MODELLED = ['strtolowercase_s', 'strtouppercase_s', 'strset_s', 'strnset_s', 'strnterminate_s', 'strcpyfld_s', 'strcpyfldin_s', 'strcpyfldout_s',
                  'memccpy_s', 'wmemcpy_s', 'wmemmove_s', 'stpcpy_s', 'stpncpy_s', 'strljustify_s', 'strremovews_s', 'wcsset_s', 'wcsnset_s']

def sweep_batch(rep, scr, impl, consts, pid, var, tier, seed, md=None):
    """cross-cutting properties on the destination-writing entry points outside the copy/memory core (harness/sweep.py):
    implementation-side oracles, generic in the destination descriptor of each case"""
    import sweep, random
    rng = random.Random(seed * 13 + 5)
    groups = [('C', sweep.ext_cases(seed, tier, consts, pid))] if pid != 'C07' else []
    if pid in ('C01', 'C02', 'C04', 'C07'): groups.append(('C', sweep.overlap_cases(seed, tier, consts)))
    if pid in ('C01', 'C02', 'C03', 'C04', 'C05', 'C06', 'C08'): groups.append(('C', sweep.misc_cases(seed, tier, consts)))
    if pid in ('C01', 'C02'): groups.append(('C', sweep.fmt_read_cases(seed, tier, consts)))
    if pid in ('C01', 'C03', 'C04', 'C05', 'C08'):
        fc = sweep.fmt_cases(seed, tier, consts)
        groups.append(('C', fc))
        if pid in ('C01', 'C03', 'C04'): groups.append(('C', sweep.allocfail_variants(fc[::3])))
        groups.append(('C.UTF-8', sweep.wfmt_cases(seed, tier, consts)))
    if pid in ('C01', 'C03', 'C04', 'C05', 'C06', 'C08'):
        for loc, locname in (('u8', 'C.UTF-8'), ('c', 'C')):
            cc = []
            for x in gen_conv_cases(seed, tier, consts, loc):
                g = sweep.conv_gd(x)
                if g is None: continue
                x.id = 'k' + loc + x.id; x.meta['gd'] = g; x.meta['cls'] = 'sweep-conv'; cc.append(x)
            groups.append((locname, cc))
    if pid in ('C01', 'C03', 'C04', 'C05', 'C08'):
        # normalisation / folding with every destination size from 1 to ample: Hangul, table characters, marks
        uc = []; k = 0
        pool = [[0xac01, 0xac01], [0xac00, 0xac01], [0xac00], [0xd7a3, 0x41], [0xe9, 0x41], [0x1e09], [0x41, 0x301, 0x327], [0x1100, 0x1161, 0x11a8], [0x3b1, 0x345], [0xdf], [0x130, 0x49], [0x1f80, 0xfb03],
                [0x1f82], [0x61, 0x62, 0x63, 0x1f82], [0x61, 0x1f82]]     # (a four-element decomposition at the very end: the result can fill dest exactly)
        for s in pool:
            for dmax in list(range(1, 14)) + [24]:
                src = fam_copy.enc(s + [0], 4)
                # the object size unknown to the library, and known and equal to dmax elements (what the public macros pass for an array)
                for bos in (UNK, 4 * dmax):
                    for mode in (0, 1):
                        k += 1; uc.append(vlib.Case('un%d' % k, 'wcsnorm_s', [('R', b'\xee' * 8), ('R', fam_copy.garbage(rng, 4 * dmax)), ('R', src)], [(1, 0), dmax, (2, 0), mode, (0, 0), bos],
                                          dict(cls='sweep-uni', func='wcsnorm_s', s=s, mode=mode, bos=bos, gd=sweep.gd(1, 0, dmax, 4, producer=True, slack=True, writable=[(0, 0, 8)], copylike=True, readonly=[(2, 0, len(src))]))))
                    k += 1; uc.append(vlib.Case('un%d' % k, 'wcsfc_s', [('R', b'\xee' * 8), ('R', fam_copy.garbage(rng, 4 * dmax)), ('R', src)], [(1, 0), dmax, (2, 0), (0, 0), bos],
                                      dict(cls='sweep-uni', func='wcsfc_s', s=s, mode=-1, bos=bos, gd=sweep.gd(1, 0, dmax, 4, producer=True, slack=True, writable=[(0, 0, 8)], copylike=True, readonly=[(2, 0, len(src))]))))
        for cp in (0x41, 0xdf, 0x130, 0x1f80, 0xfb03, 0x390, 0x1e9e):
            for dmax in (1, 2, 3, 4, 5):
                k += 1; uc.append(vlib.Case('un%d' % k, 'towfc_s', [('R', fam_copy.garbage(rng, 4 * dmax))], [(0, 0), dmax, cp, UNK],
                                  dict(cls='sweep-uni', func='towfc_s', s=[cp], mode=-1, gd=sweep.gd(0, 0, dmax, 4, fail='neg'))))
        groups.append(('C.UTF-8', uc))
    scope = set()
    for locname, cases in groups:
        if not cases: continue
        cf = '%s/cases_sweep_%s_%s_%d.txt' % (scr.dir, var, locname.replace('.', ''), len(cases))
        with open(cf, 'w') as f:
            for c in cases: f.write(c.line() + '\n')
        oi = vlib.run_impl(impl, cf, cases, locale=(None if locname == 'C' and cases[0].meta['cls'] != 'sweep-conv' else locname))
        om = {}
        mc = [c for c in cases if c.func in SWEEP_MODELLED]
        if md and mc:
            cfm = cf + '.model'
            with open(cfm, 'w') as f:
                for c in mc: f.write(c.line() + '\n')
            om = vlib.run_model(md, vlib.model_args(consts), cfm)
        for c in cases:
            a = oi.get(c.id)
            b = om.get(c.id)
            if a is not None and b is not None:
                # T1 for the modelled sweep functions: the whole outcome (return, handler calls, every byte of every block, fault or not)
                rep.extra['sweep_model_compared'] = rep.extra.get('sweep_model_compared', 0) + 1
                # (when both sides fault, the implementation stops there: only the place of the fault is compared)
                both_fault = a.fault != '-' and b.fault != '-'
                if (a.fault != b.fault) if both_fault else ((a.ret, a.handlers, a.blocks, a.fault != '-') != (b.ret, b.handlers, b.blocks, b.fault != '-')):
                    if not known.classify(rep, c, a, 'model-mismatch', var, consts): rep.mismatches.append((c, a, b, var))
            rep.evals += 1; rep.count('sweep/%s/%s' % (c.func, var)); scope.add(c.func)
            if a is None:
                rep.violation('driver produced no outcome for a case', {'key': 'nooutcome', 'case': c.to_json(), 'no_failing_input': True}); continue
            rep.nontrivial.add((c.func, 'sweep', a.ret, tuple(a.handlers), var))
            for kind, text in (sweep.oracle_C07(c, a, consts) if (pid == 'C07' and c.meta.get('cls') == 'sweep-ovl') else sweep.oracle(pid, c, a, consts)):
                kid = known.classify(rep, c, a, kind, var, consts)
                if kid: rep.known_hits[kid] = rep.known_hits.get(kid, 0) + 1
                else:
                    rep.violation('%s(%s): %s' % (c.func, var, text),
                                  {'key': (c.func, kind, var), 'property': pid, 'function': c.func, 'config': var, 'failure': kind, 'text': text,
                                   'case': c.to_json(), 'case_line': c.line(), 'impl_outcome': a.raw, 'model_outcome': 'none (implementation-side oracle)'})
    rep.extra['sweep_functions (implementation-side oracle only)'] = sorted(f for f in scope if f not in SWEEP_MODELLED)
    rep.extra['sweep_functions (Coq model, exact correspondence)'] = sorted(f for f in scope if f in SWEEP_MODELLED)

REGISTRY = {p: check_copy_family for p in ('C01', 'C02', 'C03', 'C04', 'C05', 'C06', 'C07', 'C08')}

# ------------------------------------------------------------------ C13: handler registration histories
def gen_histories(seed, tier):
    import random, itertools
    rng = random.Random(seed)
    hs = []
    kinds = 'sm'; args = 'n123'
    def ops_for(threads):
        o = []
        for t in threads:
            o.append('C%d%d' % (rng.randrange(10), t))      # some other (valid) library call on that thread
        for k in kinds:
            for t in threads:
                o.append('V%s%d' % (k, t))
                for a in args:
                    o.append('S%s%d%s' % (k, t, a)); o.append('T%s%d%s' % (k, t, a))
        return o
    # exhaustive: every history of length <= 3 on the main thread, one kind (the other is symmetric), + probe violations
    base = [o for o in ops_for([0]) if o[1] == 's']
    for n in (1, 2, 3):
        for combo in itertools.product(base, repeat=n):
            hs.append(list(combo) + ['Vs0', 'Vm0'])
    # every call of the table between a registration and the probes, on the main thread and on a fresh one
    for j in range(10):
        for pre in ([], ['Ss01'], ['Ss01', 'Sm02'], ['Ts03'], ['Ss0n']):
            hs.append(pre + ['C%d0' % j, 'Vs0', 'Vm0', 'Ts01', 'Tm01', 'Ss02', 'Sm02'])
            hs.append(pre + ['P01', 'C%d1' % j, 'Vs1', 'Vm1', 'Ts11', 'Tm11', 'Vs0', 'Vm0'])
    # random multi-thread histories; threads are created by different parents
    shapes = [['P01', 'P02'], ['P01', 'P12'], ['P01', 'P12', 'P13'], ['P01', 'P02', 'P23']]
    nrand = 1500 if tier == 'quick' else 12000
    for i in range(nrand):
        shape = rng.choice(shapes); alive = [0]; pending = list(shape); h = []
        L = rng.randrange(4, 14 if tier == 'quick' else 40)
        while len(h) < L:
            if pending and rng.random() < 0.25 and int(pending[0][1]) in alive:
                p = pending.pop(0); h.append(p); alive.append(int(p[2])); continue
            h.append(rng.choice(ops_for(alive)))
        for t in alive: h += ['Vs%d' % t, 'Vm%d' % t]
        hs.append(h)
    return hs

def spec_py(h):
    """independent reading of the property text: per-thread override of a global, per kind"""
    glob = {'s': None, 'm': None}; thr = {}
    out = []
    def show(v): return 'N' if v is None else ('D' if v == 'n' else 'U' + v)
    for o in h:
        if o[0] == 'S':
            out.append(show(glob[o[1]])); glob[o[1]] = o[3]
        elif o[0] == 'T':
            out.append(show(thr.get((o[1], o[2])))); thr[(o[1], o[2])] = o[3]
        elif o[0] == 'V':
            v = thr.get((o[1], o[2]))
            if v is None: v = glob[o[1]]
            out.append('D' if v in (None, 'n') else 'U' + v)
        elif o[0] == 'C': out.append('-')
        else:
            for k in 'sm': thr.pop((k, o[2]), None)
            out.append('-')
    return out

def check_C13(rep, scr, tier, seed):
    import subprocess
    impl = vlib.build_impl(scr, 'O1')
    c = vlib.consts(scr, impl); vlib.write_gen_consts(c)
    vlib.build_model()
    rc, o, e = vlib.sh(['gcc', '-O1', '-w', '-I' + impl + '/inc', '-I' + vlib.REPO, vlib.HARN + '/hist_driver.c', impl + '/libimpl.a',
                        '-o', impl + '/hist_driver', '-lpthread', '-Wl,--wrap=ignore_handler_s'])
    if rc != 0: raise RuntimeError('hist_driver build failed: ' + e[-1500:])
    pr = proofs(rep, scr, 'C13')
    hs = gen_histories(seed, tier)
    hf = scr.dir + '/hist.txt'
    with open(hf, 'w') as f:
        for i, h in enumerate(hs): f.write('h%d %s\n' % (i, ' '.join(h)))
    def run(cmd):
        with open(hf) as f:
            p = subprocess.run(cmd, stdin=f, capture_output=True, text=True, timeout=1800)
        return {l.split()[0]: l.split()[1:] for l in p.stdout.split('\n') if l.strip()}
    oi = run([impl + '/hist_driver']); om = run([vlib.VERIF + '/build/model/hist_model'])
    for i, h in enumerate(hs):
        hid = 'h%d' % i; a = oi.get(hid); b = om.get(hid); s = spec_py(h)
        rep.evals += 1; rep.count('len%d' % min(len(h), 20))
        rep.nontrivial.add(tuple(h))
        if len(rep.samples) < 5 and i % 701 == 3: rep.samples.append({'history': ' '.join(h), 'impl': a, 'model': b})
        if a != s:
            j = next((k for k in range(min(len(a or []), len(s))) if a[k] != s[k]), -1)
            rep.violation('history %s: operation %d (%s) answered %s, the dispatch rule gives %s' % (hid, j, h[j] if 0 <= j < len(h) else '?', a[j] if a and 0 <= j < len(a) else a, s[j] if 0 <= j < len(s) else '?'),
                          {'key': ('hist', h[j][:2] if 0 <= j < len(h) else '?'), 'property': 'C13', 'history': h, 'impl': a, 'model': b, 'spec': s})
        elif a != b:
            rep.mismatches.append((vlib.Case(hid, 'history', [], [], {'history': h}), vlib.Outcome('%s ret=%s' % (hid, '_'.join(a))), vlib.Outcome('%s ret=%s' % (hid, '_'.join(b or []))), 'O1'))
    report_proofs(rep, pr, 'C13')
    report_mismatches(rep, 'T1 (histories)')
    rep.trusted = TRUSTED_COMMON + ['harness/hist_driver.c: operations serialised by semaphores on real pthreads, one fresh process per history; -Wl,--wrap=ignore_handler_s makes the default handler observable',
                                    'interleavings: the model and the theorem cover every total order of operations; truly concurrent registration (data race on the global word) is not explored in the quick tier']
    return rep.finish('every history of length <= 3 on one thread (exhaustive) + random multi-thread histories with thread creation by different parents; non-trivial = distinct history',
                      'make -C /verif/coq Properties_C13.vo + harness/check.py C13')
REGISTRY['C13'] = check_C13

# ------------------------------------------------------------------ C12: reentrancy
import struct
def dbits(x): return 'F%016x' % struct.unpack('<Q', struct.pack('<d', x))[0]
def wenc(s): return b''.join(ord(ch).to_bytes(4, 'little') for ch in s) + b'\0\0\0\0'
UNK = BOS_UNKNOWN

def gen_misc_cases(seed, tier):
    """calls of the functions that are (or were) suspected of keeping scratch state: implementation side only"""
    import random
    rng = random.Random(seed); cs = []; n = [0]
    def add(func, blocks, args, **meta):
        n[0] += 1; meta['cls'] = 'misc'; meta['func'] = func
        cs.append(vlib.Case('m%d' % n[0], func, blocks, args, meta))
    for size in (1, 4, 8, 255, 256, 257, 300):
        for nm in (0, 1, 2, 5, 17, 40):
            data = bytes(rng.randrange(256) for _ in range(max(nm * size, 1)))
            add('qsort_s', [('R', data)], [(0, 0), nm, size, UNK], nmemb=nm, size=size)
    for dmax in (26, 27, 40, 119, 120, 121, 200):
        for yr in (100, 0, 8099):
            add('asctime_s', [('R', b'\x55' * dmax)], [(0, 0), dmax, UNK, yr, 0, 1, 0, 0, 0, 1, 0], dmax=dmax)
        add('ctime_s', [('R', b'\x55' * dmax)], [(0, 0), dmax, UNK, 86400 * 365])
    for fmt, arg in ((b'%Lf\0', 'G1.5'), (b'%Le\0', 'G12345.678'), (b'%a\0', dbits(1.5)), (b'%f\0', dbits(1e10)), (b'%f\0', dbits(3.25)),
                     (b'%d %s\0', 5), (b'%La tail\0', 'G0.75'), (b'%g\0', dbits(1e20))):
        for f in ('sprintf_s', 'snprintf_s', 'vsprintf_s', 'vsnprintf_s'):
            blocks = [('R', b'\x55' * 64), ('R', fmt), ('R', b'str\0')]
            add(f, blocks, [(0, 0), 64, UNK, (1, 0), 'V', arg, (2, 0)])
    for f in ('swprintf_s', 'snwprintf_s', 'vswprintf_s', 'vsnwprintf_s'):
        for dmax, text in ((4, 'abcdefgh'), (16, 'ab'), (3, 'xyz')):
            blocks = [('R', b'\x55' * (4 * dmax)), ('R', wenc('%ls-%d')), ('R', wenc(text))]
            add(f, blocks, [(0, 0), dmax, UNK, (1, 0), 'V', (2, 0), 7])
    add('tmpfile_s', [], [])
    for e in (0, 1, 400, 410, 34):
        add('strerror_s', [('R', b'\x55' * 64)], [(0, 0), 64, e, UNK])
    return cs

def check_C12(rep, scr, tier, seed):
    impl = vlib.build_impl(scr, 'O1')
    c = vlib.consts(scr, impl); vlib.write_gen_consts(c)
    inv = vlib.statics_inventory(impl)
    known_static = []
    for k in rep.known:
        if k.get('static'):
            f, s = k['static'].split(':'); known_static.append((f, s))
    vlib.write_gen_statics(inv, known_static)
    md = vlib.build_model()
    pr = proofs(rep, scr, 'C12')
    # python mirror of StaticsCheck.allowed_static, used only to name the offending objects
    def allowed(e):
        f, name, size, sec = e
        return name in vlib.HANDLER_VARS or (sec in 'dD' and (name.startswith('UNWIF_') or name.startswith('UNW16IF_') or name == 'errmsgs_s'))
    offending = [e for e in inv if not allowed(e)]
    stf = scr.dir + '/statics.txt'
    nr = vlib.statics_ranges(impl, inv, stf)
    rep.extra['inventory'] = ['%s:%s (%d bytes, .%s)' % e for e in inv if not e[1].startswith('UNWIF_')]
    rep.extra['snapshot_ranges'] = nr
    cases = gen_copy('C01', seed, c, tier) + gen_copy('C07', seed, c, tier)[:2000] + gen_misc_cases(seed, tier)
    cf = scr.dir + '/cases_c12.txt'
    with open(cf, 'w') as f:
        for x in cases: f.write(x.line() + '\n')
    oi = vlib.run_impl(impl, cf, cases, statics=stf)
    written = {}
    for x in cases:
        o = oi.get(x.id); rep.evals += 1; rep.count(x.func)
        if o is None: continue
        rep.nontrivial.add((x.func, o.ret, tuple(o.statics)))
        if len(rep.samples) < 6 and rep.evals % 3001 == 7: rep.samples.append({'case': x.line()[:200], 'impl': o.raw[:200]})
        for s in o.statics:
            written.setdefault(s, x)
    for sname, x in written.items():
        kid = next((k['id'] for k in rep.known if k.get('static', '') == sname), None)
        if kid: rep.known_hits[kid] = rep.known_hits.get(kid, 0) + 1
        else:
            rep.violation('%s writes the static object "%s": the library\'s static storage is not bit-identical before and after the call' % (x.func, sname),
                          {'key': ('static', sname), 'property': 'C12', 'function': x.func, 'static': sname, 'case': x.to_json(), 'case_line': x.line(), 'impl_outcome': oi[x.id].raw})
    # T2 (imports): C library functions that keep their result or state in hidden static storage; a call to one of them is
    # mutable state across calls that the segment snapshot above cannot see (it lives in libc, not in the library)
    HIDDEN_STATE = {'asctime', 'ctime', 'gmtime', 'localtime', 'strtok', 'wcstok', 'rand', 'srand', 'random', 'drand48', 'lrand48', 'tmpnam', 'tempnam',
                    'ecvt', 'fcvt', 'gcvt', 'l64a', 'readdir', 'getpwnam', 'getpwuid', 'getgrnam', 'ttyname', 'ctermid', 'getlogin', 'ptsname', 'inet_ntoa',
                    'crypt', 'hsearch', 'strsignal', 'mbrlen', 'mbrtowc', 'mblen', 'mbtowc'}
    imports = {}
    for o in sorted(os.listdir(impl + '/obj')):
        rc_, out_, _ = vlib.sh(['nm', '-u', impl + '/obj/' + o])
        for l in out_.split('\n'):
            f = l.split()
            if len(f) == 2 and f[1].split('@')[0] in HIDDEN_STATE: imports.setdefault(f[1].split('@')[0], []).append(o)
    rep.extra['libc_hidden_state_imports'] = imports
    rep.evals += 1
    for fn, objs in imports.items():
        rep.violation('%s calls the C library function %s(), which keeps its result/state in static storage shared by all threads' % (', '.join(objs), fn),
                      {'key': ('import', fn), 'property': 'C12', 'function': ','.join(objs), 'import': fn,
                       'how': 'nm -u on the objects compiled from the working tree; replay: call the entry point from two threads on different data (the schedule in which the second call runs between the first call\'s libc call and its copy-out shows the foreign result)'})
    for e in offending:
        f, name, size, sec = e
        if any(k == (f, name) for k in known_static):
            kid = next(k['id'] for k in rep.known if k.get('static') == '%s:%s' % (f, name))
            rep.known_hits.setdefault(kid, 1); continue
        if '%s:%s' % (f, name) in written: continue
        rep.violation('the library owns a writable static object %s:%s (%d bytes) that is neither handler registration nor a read-only table; no call was found that writes it' % (f, name, size),
                      {'key': ('inventory', f, name), 'property': 'C12', 'no_failing_input': True,
                       'broken': 'theorem C12_inventory_ok (Gen/Statics.v regenerated from nm)', 'object': '%s:%s' % (f, name)})
    if not pr['ok'] and not rep.violations:
        report_proofs(rep, pr, 'C12')
    rep.trusted = TRUSTED_COMMON + ['translator statics: nm -S on the freshly compiled objects -> Gen/Statics.v; section letters as reported by nm',
                                    'snapshot of the inventory objects inside the driver executable (static, non-PIE) before/after every call',
                                    'hardware memory ordering and libc-internal statics are outside the model (sequentially consistent interleavings)']
    return rep.finish('every modelled call of the C01/C07 generators plus sort/time/format/wide-format/tmpfile calls, each bracketed by a byte snapshot of all library statics; non-trivial = distinct (function, return, statics written)',
                      'make -C /verif/coq Properties_C12.vo + harness/check.py C12')
REGISTRY['C12'] = check_C12

# ------------------------------------------------------------------ C09: %n is never executed
import prescan_tr
MODS = set('-+ #\'I*$.hlLqjzt0123456789')
def py_convs(fmt, scanf):
    """mirror of FmtScan.convs (used only to phrase expectations; the decision uses the extracted model)"""
    out = []; s = 'lit'; supp = False; first = False
    for ch in fmt:
        if s == 'lit':
            if ch == '%': s = 'dir'; supp = False
        elif s == 'dir':
            if ch in MODS or (scanf and ch == 'm'):
                if scanf and ch == '*': supp = True
            elif scanf and ch == '[': out.append((ch, supp)); s = 'set'; first = True
            else: out.append((ch, supp)); s = 'lit'
        else:
            if ch == ']' and not first: s = 'lit'
            elif ch == '^' and first: first = True
            else: first = False
    return out
def py_has_n(fmt, scanf): return any(c == 'n' and not sp for c, sp in py_convs(fmt, scanf))

def gen_c09_formats(tier, seed):
    import random
    rng = random.Random(seed)
    ndirs = ['%n', '%ln', '%hhn', '%hn', '%lln', '%5n', '%-n', '%0n', '%jn', '%zn', '%tn', '%.3n', '%#n', '%+n', '% n', '%-5ln', '%05hhn']
    plain = ['%d', '%5d', '%-3x', '%c', '%u', '%%', '%ld']
    lits = ['', 'ab', 'x ']
    fm = set()
    for nd in ndirs:
        for l in lits:
            fm.add(l + nd); fm.add(l + nd + 'z'); fm.add(l + '%%' + nd); fm.add(l + '%%%%' + nd); fm.add('%%n' + l + nd)
            for p in plain: fm.add(l + p + nd); fm.add(p + l + nd)
    fm |= {'%%n', 'ab%%n', '%%%n', '%%%%n', '%d%%n', 'n%', 'plain', '%d %d', '%%', '100%% n', 'a%%nb%nc', '%nn', 'n%n', '%%n%%n%n'}
    if tier == 'thorough':
        for _ in range(2000):
            k = rng.randrange(1, 4)
            fm.add(''.join(rng.choice(lits + plain + ndirs + ['%%']) for _ in range(k)))
    return sorted(fm)

def check_C09(rep, scr, tier, seed):
    import subprocess
    impl = vlib.build_impl(scr, 'O1')
    c = vlib.consts(scr, impl); vlib.write_gen_consts(c)
    entries, eng_ok = prescan_tr.analyse(vlib.REPO, impl + '/inc')
    prescan_tr.write_gen(entries, eng_ok, vlib.COQ)
    vlib.build_model()
    pr = proofs(rep, scr, 'C09')
    rep.extra['entries'] = ['%(name)s: idiom=%(idiom)s formatter=%(formatter)s' % e for e in entries]
    formats = gen_c09_formats(tier, seed)
    cases = []; info = {}
    n = 0
    for e in entries:
        name, wide, scanf = e['name'], e['wide'], e['scanf']
        if name in ('wprintf_s', 'vwprintf_s', 'wscanf_s', 'vwscanf_s'): continue   # wide stdio on the shared stdout/stdin: covered by their f* twins (same code shape, see entries)
        sbuf = name in ('sprintf_s', 'vsprintf_s', 'snprintf_s', 'vsnprintf_s', 'swprintf_s', 'vswprintf_s', 'snwprintf_s', 'vsnwprintf_s')
        specials = [('%n', 'pfx', 64), ('%ln', 'pfx', 64)]      # the byte in front of the format is '%'
        if sbuf: specials += [('%.0ls%.0ls%n' if wide else '%.0s%.0s%n', '', 8), ('%.0ls%.0ls%ln' if wide else '%.0s%.0s%ln', '', 8)]   # %n beyond the first dmax characters
        # the same format buffer (same address, same length) first with a harmless text, then rewritten to contain %n:
        # a verdict remembered per address instead of per content lets the second call through
        specials += [('xyzw', '', 64), ('xy%n', '', 64), ('uvw xyzw', '', 64), ('uvw xy%n', '', 64)]
        for fmt, special, dmx in [(f, '', 64) for f in formats] + specials:
            if scanf and any(ch in 'dxcu' for ch, _ in py_convs(fmt, True)): continue
            n += 1; cid = 'f%d' % n
            w_ = 4 if wide else 1
            pre = (b'%' + b'\0' * (w_ - 1)) if special == 'pfx' else b''
            enc = (lambda s: pre + wenc(s)) if wide else (lambda s: pre + s.encode() + b'\0')
            sent = b'\xee' * 24
            if not scanf:
                if name in ('sprintf_s', 'vsprintf_s', 'snprintf_s', 'vsnprintf_s', 'swprintf_s', 'vswprintf_s', 'snwprintf_s', 'vsnwprintf_s'):
                    w = 4 if wide else 1
                    blocks = [('R', b'\x55' * (dmx * w)), ('R', enc(fmt)), ('R', sent), ('R', b'\0\0\0\0')]
                    args = [(0, 0), dmx, UNK, (1, len(pre)), 'V', (2, 0), (2, 8), (2, 16)]
                    if dmx == 8: args = [(0, 0), dmx, UNK, (1, len(pre)), 'V', (3, 0), (3, 0), (2, 16)]   # two empty strings, then the n target
                else:
                    blocks = [('R', enc(fmt)), ('R', sent)]
                    args = [(0, len(pre)), 'V', (1, 0), (1, 8), (1, 16)]
            else:
                inp = fmt.replace('%%', '\x01'); 
                import re as _re
                inp = _re.sub(r'%[^a-zA-Z%]*[a-zA-Z]+?', '', inp) if False else inp
                # input: the literal text of the format with %% -> % and the n-directives removed
                lit = ''; i = 0
                while i < len(fmt):
                    if fmt[i] == '%':
                        j = i + 1
                        while j < len(fmt) and (fmt[j] in MODS or fmt[j] == 'm'): j += 1
                        if j < len(fmt) and fmt[j] == '%' and j == i + 1: lit += '%'
                        i = j + 1
                    else: lit += fmt[i]; i += 1
                blocks = [('R', (wenc(lit) if wide else lit.encode() + b'\0')), ('R', enc(fmt)), ('R', sent)]
                args = [(0, 0), (1, len(pre)), 'V', (2, 0), (2, 8), (2, 16)]
            cases.append(vlib.Case(cid, name, blocks, args, {'cls': 'fmt', 'fmt': fmt, 'entry': e, 'sent': next(i for i, (_, b) in enumerate(blocks) if b == sent)}))
            info[cid] = (e, fmt)
    cf = scr.dir + '/cases_c09.txt'
    with open(cf, 'w') as f:
        for x in cases: f.write(x.line() + '\n')
    oi = vlib.run_impl(impl, cf, cases, locale='C.UTF-8')
    # model verdicts
    mf = scr.dir + '/fmt.txt'
    with open(mf, 'w') as f:
        for x in cases:
            fmt = x.meta['fmt']; f.write('%s %d %s\n' % (x.id, x.meta['entry']['scanf'], ','.join(str(ord(ch)) for ch in fmt) if fmt else '-'))
    p = subprocess.run([vlib.VERIF + '/build/model/fmt_model'], stdin=open(mf), capture_output=True, text=True)
    mv = {}
    for l in p.stdout.split('\n'):
        if l.strip():
            t = l.split(); mv[t[0]] = dict(kv.split('=') for kv in t[1:])
    for x in cases:
        o = oi.get(x.id); m = mv.get(x.id); e = x.meta['entry']; fmt = x.meta['fmt']
        rep.evals += 1; rep.count('%s/%s' % (e['name'], 'n' if m and m['has_n'] == '1' else 'plain'))
        if o is None or m is None:
            rep.violation('no outcome', {'key': 'nooutcome', 'no_failing_input': True, 'case': x.to_json()}); continue
        sent_after = o.blocks[x.meta['sent']] if o.fault == '-' and len(o.blocks) > x.meta['sent'] else None
        stored = sent_after is not None and sent_after != b'\xee' * 24
        rejected = (o.ret or '').startswith('-') and len(o.handlers) >= 1
        rep.nontrivial.add((e['name'], m['libc'], m['engine'], stored, rejected))
        if len(rep.samples) < 8 and rep.evals % 1499 == 5: rep.samples.append({'entry': e['name'], 'format': fmt, 'impl': o.raw[:160], 'model': m})
        libc = e['formatter'] == 'libc'
        fails = []
        if o.fault != '-': fails.append(('fault', 'call faulted at %s' % o.fault))
        if stored: fails.append(('n-executed', 'format %r: a %%n conversion stored through its argument (sentinel %s)' % (fmt, sent_after.hex())))
        elif m['has_n'] == '1' and not rejected: fails.append(('n-not-rejected', 'format %r contains an n conversion but the call returned %s with handlers %s' % (fmt, o.ret, o.handlers)))
        for kind, text in fails:
            kid = None
            for k in rep.known:
                if k.get('predicate') == 'kf_prescan_miss' and libc and m['libc'] == 'with-n' and kind in ('n-executed', 'n-not-rejected'): kid = k['id']
            if kid: rep.known_hits[kid] = rep.known_hits.get(kid, 0) + 1
            else:
                rep.violation('%s: %s' % (e['name'], text), {'key': (e['name'], kind), 'property': 'C09', 'function': e['name'], 'format': fmt, 'failure': kind,
                              'case': x.to_json(), 'case_line': x.line(), 'impl_outcome': o.raw, 'model': m})
        if not fails:
            # correspondence: the pre-scan verdict, and (engine entries) the engine's error
            pre_rej = [tuple(h) for h in o.handlers] == [('S', '22')] and (o.ret in ('-22', '-1'))
            if libc:
                if (m['prescan'] == 'reject') != pre_rej and not (m['prescan'] == 'accept' and rejected and m['has_n'] == '0'):
                    rep.mismatches.append((x, o, vlib.Outcome('%s ret=model:libc-%s/engine-%s/prescan-%s' % (x.id, m['libc'], m['engine'], m['prescan'])), 'O1'))
            else:
                model_rej = m['prescan'] == 'reject' or m['engine'] == 'error'
                if model_rej != ((o.ret or '').startswith('-')):
                    rep.mismatches.append((x, o, vlib.Outcome('%s ret=model:libc-%s/engine-%s/prescan-%s' % (x.id, m['libc'], m['engine'], m['prescan'])), 'O1'))
    report_proofs(rep, pr, 'C09')
    report_mismatches(rep, 'T1 (formats)')
    rep.trusted = TRUSTED_COMMON + ['translator prescan (harness/prescan_tr.py): regular expressions over the preprocessed entry points -> Gen/Prescan.v',
                                    'libc (vswprintf, v*scanf, vprintf) as the formatter behind 21 entry points: its directive grammar is modelled (FmtScan.convs), not verified',
                                    'wprintf_s/vwprintf_s/wscanf_s/vwscanf_s are analysed by the translator but not executed (shared wide stdio); their f* twins are']
    return rep.finish('formats from the directive grammar (every length modifier/flag/width with conversion n, escaped percent signs, second occurrences) x 24 executed entry points, sentinel words as the would-be %n targets; non-trivial = distinct (entry, model verdict, stored?, rejected?)',
                      'make -C /verif/coq Properties_C09.vo + harness/check.py C09')
REGISTRY['C09'] = check_C09

# ------------------------------------------------------------------ C14: tokenising
def tok_reference(s, delim_seq, dmax, w):
    """independent reading of the property: per call, skip characters of the current delimiter set, return the maximal
    run of other characters, overwrite the delimiter that ends it; None when the string is exhausted"""
    buf = list(s); pos = 0; out = []
    for D in delim_seq:
        while pos < len(buf) and buf[pos] != 0 and buf[pos] in D: pos += 1
        if pos >= len(buf) or buf[pos] == 0:
            out.append(None); continue
        st = pos
        while pos < len(buf) and buf[pos] != 0 and buf[pos] not in D: pos += 1
        if pos < len(buf) and buf[pos] != 0:
            buf[pos] = 0; pos += 1
        out.append(st)
    return out, buf

def gen_tok_cases(seed, tier, consts):
    import itertools, random
    rng = random.Random(seed); cs = []; n = [0]
    A, B, X, Y = 0x2c, 0x3b, 0x61, 0x62      # ',' ';' 'a' 'b'
    sets = {'A': [A], 'AB': [A, B], 'B': [B], 'E': [], 'L16': [A] + list(range(0x30, 0x3f)), 'L17': list(range(0x41, 0x52)), 'L20': list(range(0x41, 0x55))}
    maxlen = 5 if tier == 'quick' else 7
    # second family: delimiters and characters with the top bit set (plain char is signed; wchar_t is a signed 32-bit type)
    sets.update({'H': [0xa0], 'HA': [0xa0, A], 'WH': [0x80000001], 'WHA': [0x80000001, A]})
    fams = [('strtok_seq', 1, [A, B, X, Y], [A, X, B], None), ('wcstok_seq', 4, [A, B, X, Y], [A, X, B], None),
            ('strtok_seq', 1, [0xa0, A, X, 0xe9], None, (('H',), ('HA',), ('A', 'H'))), ('wcstok_seq', 4, [0x80000001, A, X, 0x20ac], None, (('WH',), ('WHA',), ('A', 'WH')))]
    for func, w, alpha4, alpha3, pats in fams:
        for L in range(0, (maxlen if pats is None else 4) + 1):
            for chars in itertools.product(alpha4 if L <= 4 else alpha3, repeat=L):
                if func == 'wcstok_seq' and L > 4: continue
                for dm_rel in ('fit', 'slack', 'unterm', 'unterm_slack') if pats is None else ('fit', 'slack'):
                    if dm_rel.startswith('unterm') and L == 0: continue
                    for pattern in (pats or (('A',), ('AB',), ('A', 'B'), ('E',), ('AB', 'L16'), ('L16',), ('L16', 'A'), ('L17',))):
                        if pattern in (('E',), ('AB', 'L16'), ('L16',), ('L16', 'A'), ('L17',)) and (L not in (2, 3, 4) or dm_rel == 'slack'): continue
                        s = list(chars)
                        if dm_rel == 'fit': body = s + [0]; dmax = L + 1
                        elif dm_rel == 'slack': body = s + [0, X, A, 0x7f]; dmax = L + 4
                        elif dm_rel == 'unterm': body = s; dmax = L   # no terminator within dmax, flush against the guard page
                        else: body = s + [X, Y, 0x7f]; dmax = L       # no terminator within dmax, readable canaries behind it
                        ncalls = L + 4
                        seq = [pattern[i % len(pattern)] for i in range(ncalls)]
                        dl = b''
                        for nm in seq:
                            d = sets[nm] + [0]; d = d + [0x7e] * (24 - len(d)); dl += fam_copy.enc(d[:24], w)
                        n[0] += 1
                        blocks = [('R', fam_copy.enc(body, w)), ('R', dl), ('R', b'\x33' * 16)]
                        cs.append(vlib.Case('t%d' % n[0], func, blocks, [(0, 0), dmax, ncalls, (1, 0), (2, 0), UNK],
                                            {'cls': 'tok', 'w': w, 'chars': s, 'dm_rel': dm_rel, 'dmax': dmax, 'seq': seq, 'sets': [sets[x] for x in seq], 'func': func}))
    return cs

def check_C14(rep, scr, tier, seed):
    impl, consts, md = setup(rep, scr, ['O1'])
    impl = impl['O1']; consts = consts['O1']
    pr = proofs(rep, scr, 'C14')
    cases = gen_tok_cases(seed, tier, consts)
    oi, om = run_cases(rep, scr, impl, md, consts, cases, 'tok')
    for x in cases:
        a = oi.get(x.id); b = om.get(x.id); m = x.meta
        rep.evals += 1; rep.count('%s/%s/%s' % (x.func, m['dm_rel'], '+'.join(sorted(set(m['seq'])))))
        if a is None or b is None:
            rep.violation('no outcome', {'key': 'nooutcome', 'no_failing_input': True, 'case': x.to_json()}); continue
        rep.nontrivial.add((x.func, a.ret, m['dm_rel']))
        if len(rep.samples) < 6 and rep.evals % 2003 == 11: rep.samples.append({'case': x.line()[:200], 'impl': a.raw[:200], 'model': b.raw[:200]})
        fails = []
        w = m['w']
        if a.fault != '-': fails.append(('fault', 'sequence faulted at %s (access outside the declared %d elements)' % (a.fault, m['dmax'])))
        else:
            vals = [int(v) for v in a.ret.split(',')] if a.ret not in ('-', None) else []
            trip = [tuple(vals[i:i + 3]) for i in range(0, len(vals), 3)]
            toks = [t[0] for t in trip]
            for (r, dm, p) in trip:
                if p >= 0 and p + dm > m['dmax']: fails.append(('remaining-length', 'after a call *ptr offset %d + *dmaxp %d exceeds the original dmax %d' % (p, dm, m['dmax']))); break
            if m['dm_rel'] == 'unterm_slack':
                tail_b = fam_copy.dec(x.blocks[0][1], w)[m['dmax']:]; tail_a = fam_copy.dec(a.blocks[0], w)[m['dmax']:]
                if tail_a != tail_b: fails.append(('write-past-dmax', 'unterminated string: elements beyond dmax changed from %s to %s' % (tail_b, tail_a)))
            if not m['dm_rel'].startswith('unterm'):
                ref, refbuf = tok_reference(m['chars'] + [0], m['sets'], m['dmax'], w)
                want = [(-1 if t is None else t) for t in ref]
                bad_delims = any(len(D) > consts['tok_delim_max'] for D in m['sets'])
                if not bad_delims:
                    if toks != want: fails.append(('wrong-tokens', 'tokens returned at offsets %s, the maximal delimiter-free substrings start at %s' % (toks, want)))
                    else:
                        after = fam_copy.dec(a.blocks[0], w)[:len(refbuf)]
                        if after != refbuf: fails.append(('buffer', 'buffer after the sequence %s, expected only delimiter positions overwritten: %s' % (after, refbuf)))
                    if toks[-2:] != [-1, -1] and toks == want: fails.append(('no-final-null', 'sequence does not end with null pointers'))
            else:
                if -1 not in toks: fails.append(('unterminated-no-error', 'unterminated string: the sequence never returned a null pointer'))
        for kind, text in fails:
            kid = known.classify(rep, x, a, kind, 'O1', consts)
            if kid: rep.known_hits[kid] = rep.known_hits.get(kid, 0) + 1
            else: rep.violation('%s: %s' % (x.func, text), {'key': (x.func, kind), 'property': 'C14', 'function': x.func, 'failure': kind, 'text': text,
                                'case': x.to_json(), 'case_line': x.line(), 'impl_outcome': a.raw, 'model_outcome': b.raw})
        if not fails and (a.ret, a.blocks, a.handlers, a.fault != '-') != (b.ret, b.blocks, b.handlers, b.fault != '-'):
            rep.mismatches.append((x, a, b, 'O1'))
    report_proofs(rep, pr, 'C14')
    report_mismatches(rep, 'T1 (call sequences)')
    rep.trusted = TRUSTED_COMMON
    return rep.finish('every string over {delimiter1, delimiter2, letter, letter} of length 0..N x dmax = strlen+1 / strlen+4 / unterminated (flush against a guard page) x delimiter-set schedules (constant, alternating, empty, 16 and 17 characters) x call sequences of strlen+4 calls, narrow and wide; non-trivial = distinct (function, result sequence, dmax class)',
                      'make -C /verif/coq Properties_C14.vo + harness/check.py C14')
REGISTRY['C14'] = check_C14

# ------------------------------------------------------------------ C19: timingsafe comparisons
import ctast_tr
def check_C19(rep, scr, tier, seed):
    import itertools, random
    rng = random.Random(seed)
    impl = vlib.build_impl(scr, 'O1'); consts = vlib.consts(scr, impl); vlib.write_gen_consts(consts)
    progs = []; errors = []
    for path, fn in (('src/extmem/timingsafe_bcmp.c', '_timingsafe_bcmp_chk'), ('src/extmem/timingsafe_memcmp.c', '_timingsafe_memcmp_chk')):
        try: progs.append(ctast_tr.translate(vlib.REPO, impl + '/inc', path, fn))
        except ctast_tr.Unsupported as e:
            errors.append('%s: %s' % (fn, e))
            progs.append(dict(name=fn, stmt='CWhile (CLoad (CConst 0)) CSkip', ret='CConst 0', nvars=1, names=['untranslatable'], params=[]))
    ctast_tr.write_gen(progs, vlib.COQ, errors)
    rep.extra['translated'] = [{'function': p['name'], 'variables': p['names']} for p in progs]; rep.extra['translator_errors'] = errors
    md = vlib.build_model()
    pr = proofs(rep, scr, 'C19')
    cases = []; n = 0
    def add(func, a, b, ln, al=0):
        nonlocal n; n += 1
        blocks = [('L' if al else 'R', b'\xa5' * al + bytes(a)), ('L' if al else 'R', b'\xa5' * al + bytes(b))]
        if not len(blocks[0][1]): blocks = [('R', b'\0'), ('R', b'\0')]
        cases.append(vlib.Case('s%d' % n, func, blocks, [(0, al), (1, al), ln, UNK, UNK], {'cls': 'ts', 'a': list(a), 'b': list(b), 'n': ln, 'func': func}))
    for func in ('timingsafe_bcmp', 'timingsafe_memcmp'):
        for ln in range(0, 5 if tier == 'quick' else 7):
            for a in itertools.product((0, 1, 0xff), repeat=ln):
                for b in itertools.product((0, 1, 0xff), repeat=ln):
                    if ln >= 4 and rng.random() < 0.7 and tier == 'quick': continue
                    add(func, a, b, ln)
        # longer regions, aligned and unaligned, a single differing byte at every position, and equal regions
        for ln in (8, 9, 15, 16, 17, 24, 33):
            for al in (0, 1, 3, 8):
                base = [rng.randrange(256) for _ in range(ln)]
                add(func, base, base, ln, al)
                for pos in range(ln):
                    for delta in (1, 0x80):
                        other = list(base); other[pos] = (other[pos] + delta) % 256
                        add(func, base, other, ln, al)
        add(func, [1, 2], [1, 2], consts['rmax_mem'] + 1)     # n above RSIZE_MAX_MEM: reported, nothing read
    oi, om = run_cases(rep, scr, impl, md, consts, cases, 'ts')
    sgn = lambda x: (x > 0) - (x < 0)
    for x in cases:
        a = oi.get(x.id); b = om.get(x.id); m = x.meta
        rep.evals += 1; rep.count('%s/n=%d' % (x.func, min(m['n'], 40)))
        if a is None or b is None: rep.violation('no outcome', {'key': 'nooutcome', 'no_failing_input': True, 'case': x.to_json()}); continue
        rep.nontrivial.add((x.func, m['n'], a.ret))
        if len(rep.samples) < 6 and rep.evals % 1777 == 3: rep.samples.append({'case': x.line()[:160], 'impl': a.raw[:120], 'model': b.raw[:120]})
        fails = []
        if a.fault != '-': fails.append(('fault', 'faulted at %s' % a.fault))
        elif m['n'] <= consts['rmax_mem']:
            r = int(a.ret); A, B = bytes(m['a']), bytes(m['b'])
            if x.func == 'timingsafe_bcmp':
                if (r == 0) != (A == B): fails.append(('wrong-result', 'timingsafe_bcmp returned %d for %s regions' % (r, 'equal' if A == B else 'unequal')))
            else:
                want = sgn((A > B) - (A < B))
                if sgn(r) != want: fails.append(('wrong-result', 'timingsafe_memcmp returned %d, memcmp sign is %d' % (r, want)))
            if any(bl != x.blocks[i][1] for i, bl in enumerate(a.blocks)): fails.append(('operand-modified', 'an operand was modified'))
        for kind, text in fails:
            rep.violation('%s: %s' % (x.func, text), {'key': (x.func, kind), 'property': 'C19', 'function': x.func, 'failure': kind, 'case': x.to_json(), 'case_line': x.line(), 'impl_outcome': a.raw, 'model_outcome': b.raw})
        if not fails and (a.ret, a.handlers, a.fault != '-') != (b.ret, b.handlers, b.fault != '-'): rep.mismatches.append((x, a, b, 'O1'))
    if errors and not rep.violations:
        rep.violation('the constant-time obligation can no longer be stated: the translator does not understand the current source (%s)' % '; '.join(errors),
                      {'key': 'translator', 'property': 'C19', 'no_failing_input': True, 'broken': 'translator ctast / theorems C19_*_source_is_constant_time', 'errors': errors})
    elif not pr['ok'] and not rep.violations:
        # the type check failed: data-dependent control flow or addressing in the source; exhibit it with the leakage semantics
        rep.violation('the regenerated loop is not well-typed for secrecy: a branch condition or an address depends on the contents of the regions (%s)' % ', '.join(pr['failed'][:3]),
                      {'key': 'ct-typecheck', 'property': 'C19', 'no_failing_input': True, 'broken': 'theorems C19_bcmp_source_is_constant_time / C19_memcmp_source_is_constant_time (Gen/TsProgs.v)', 'log': pr['log'][-1500:]})
    report_mismatches(rep, 'T1 (results)')
    rep.trusted = TRUSTED_COMMON + ['translator ctast (harness/ctast_tr.py): clang 14 JSON AST -> ConstTime.cstmt; the size checks in front of the loop (public parameters) are skipped',
                                    'machine level (what the compiler emits) is not covered by the theorem: partial, see DESIGN section 6']
    return rep.finish('all pairs of regions over {0,1,255} of length 0..4 (quick: sampled at 4) + aligned/unaligned regions of 8..33 bytes with one differing byte at every position; non-trivial = distinct (function, n, result)',
                      'make -C /verif/coq Properties_C19.vo + harness/check.py C19')
REGISTRY['C19'] = check_C19

# ------------------------------------------------------------------ C16: qsort_s sorts, bsearch_s finds
def check_C16(rep, scr, tier, seed):
    import itertools, random
    rng = random.Random(seed)
    impls, constsd, md = setup(rep, scr, ['O1'] + (['O0', 'O3'] if tier == 'thorough' else []))
    pr = proofs(rep, scr, 'C16')
    def key4(v, size):   # element whose first min(size,4) bytes encode the key big-endian (memcmp order = numeric order), rest = payload
        k = min(size, 4); return v.to_bytes(k, 'big') + bytes(rng.randrange(256) for _ in range(size - k))
    for var, impl in impls.items():
        consts = constsd[var]
        cases = []; n = 0
        # qsort_s: all key patterns over {0,1,2} for small nmemb, random beyond; sizes incl. > 256 and odd
        for size in (1, 2, 4, 5, 8, 13) + ((255, 256, 257, 300, 513) if True else ()):
            for nm in range(0, 6 if size > 13 else (7 if tier == 'quick' else 9)):
                pats = list(itertools.product((0, 1, 2), repeat=nm))
                if len(pats) > 60: pats = rng.sample(pats, min(len(pats), 60 if tier == 'quick' else 400))
                for pat in pats:
                    n += 1; data = b''.join(key4(v, size) for v in pat) or b'\0'
                    cases.append(vlib.Case('q%d' % n, 'qsort_s', [('R', data)], [(0, 0), nm, size, UNK], {'cls': 'qsort', 'nmemb': nm, 'size': size, 'func': 'qsort_s'}))
            for nm in ((20, 57, 100, 300) if size <= 13 else (12, 40)):
                for _ in range(2 if tier == 'quick' else 8):
                    n += 1; data = b''.join(key4(rng.randrange(0, 50 if size > 1 else 7), size) for _ in range(nm))
                    cases.append(vlib.Case('q%d' % n, 'qsort_s', [('R', data)], [(0, 0), nm, size, UNK], {'cls': 'qsort', 'nmemb': nm, 'size': size, 'func': 'qsort_s'}))
        # qsort_s called again from inside its own comparator (a second array, sorted completely at every comparison of the first)
        for size in (4, 24):
            for nm in (3, 7, 12, 20):
                for nm2 in (2, 5, 9):
                    n += 1
                    d1 = b''.join(key4(rng.randrange(0, 50), size) for _ in range(nm)); d2 = b''.join(key4(rng.randrange(0, 50), size) for _ in range(nm2))
                    cases.append(vlib.Case('q%d' % n, 'qsort_nested', [('R', d1), ('R', d2)], [(0, 0), nm, size, UNK, (1, 0), nm2], {'cls': 'qsort-nested', 'nmemb': nm, 'size': size, 'nmemb2': nm2, 'func': 'qsort_nested'}))
        # bsearch_s on sorted arrays: every key from below the minimum to above the maximum
        for size in (1, 4, 7):
            for nm in range(0, 12 if tier == 'quick' else 24):
                for rep_ in range(3):
                    vals = sorted(rng.randrange(0, 9) * 2 + 1 for _ in range(nm))       # odd keys, so even keys are absent
                    data = b''.join(key4(v, size) for v in vals) or b'\0'
                    for kv in range(0, 20):
                        n += 1
                        cases.append(vlib.Case('b%d' % n, 'bsearch_s', [('R', key4(kv, size)), ('R', data)], [(0, 0), (1, 0), nm, size, UNK],
                                               {'cls': 'bsearch', 'nmemb': nm, 'size': size, 'vals': vals, 'key': kv, 'func': 'bsearch_s'}))
        cf = '%s/cases_c16_%s.txt' % (scr.dir, var)
        with open(cf, 'w') as f:
            for x in cases: f.write(x.line() + '\n')
        oi = vlib.run_impl(impl, cf, cases)
        bs = [x for x in cases if x.func == 'bsearch_s']
        cfb = cf + '.b'
        with open(cfb, 'w') as f:
            for x in bs: f.write(x.line() + '\n')
        om = vlib.run_model(md, vlib.model_args(consts), cfb)
        # qsort_s: the extracted smoothsort model (coq/ModSort.v) on the same keys: final arrangement and comparator-call trace
        qs = [x for x in cases if x.func == 'qsort_s' and x.meta['nmemb'] > 0]   # (the nested cases are judged on the implementation side only)
        sm_in = '\n'.join('%s %d %s' % (x.id, x.meta['nmemb'], ' '.join(str(int.from_bytes(x.blocks[0][1][i * x.meta['size']:i * x.meta['size'] + min(x.meta['size'], 4)], 'big')) for i in range(x.meta['nmemb']))) for x in qs) + '\n'
        rc_, o_, e_ = vlib.sh([os.path.dirname(md) + '/sort_model'], inp=sm_in, timeout=900)
        smod = {}
        for l in o_.split('\n'):
            f = l.split()
            if len(f) >= 2: smod[f[0]] = None if f[1] == 'NONE' else dict(z.split('=', 1) for z in f[1:])
        for x in cases:
            a = oi.get(x.id); m = x.meta
            rep.evals += 1; rep.count('%s/size=%d/%s' % (x.func, m['size'], var))
            if a is None: continue
            rep.nontrivial.add((x.func, m['size'], m['nmemb'], a.ret, var))
            if len(rep.samples) < 6 and rep.evals % 2503 == 9: rep.samples.append({'case': x.line()[:160], 'impl': a.raw[:160]})
            fails = []
            if a.fault != '-': fails.append(('fault', 'access outside nmemb*size bytes: fault at %s' % a.fault))
            else:
                rv, bad = (a.ret.split(',') + ['0'])[:2]
                if bad != '0': fails.append(('comparator-args', 'the comparator was called with %s' % ('a foreign context' if int(bad) & 1 else 'a pointer that is not an element of the array / the key')))
                size, nm = m['size'], m['nmemb']; k = min(size, 4)
                if x.func == 'qsort_nested':
                    rv, bad, innerbad, inner = a.ret.split(',')
                    before = [x.blocks[0][1][i * size:(i + 1) * size] for i in range(nm)]; after = [a.blocks[0][i * size:(i + 1) * size] for i in range(nm)]
                    if rv != '0': fails.append(('error-return', 'qsort_s returned %s on valid arguments' % rv))
                    elif sorted(before) != sorted(after): fails.append(('nested-not-a-permutation', 'with a comparator that sorts a second array (%d elements) by qsort_s at every call, the result of the outer sort (%d elements of %d bytes) is not a permutation of its input' % (m['nmemb2'], nm, size)))
                    elif any(after[i][:k] > after[i + 1][:k] for i in range(nm - 1)): fails.append(('nested-not-sorted', 'with a comparator that sorts a second array (%d elements) by qsort_s at every call, the outer sort (%d elements of %d bytes) is not ordered' % (m['nmemb2'], nm, size)))
                    if innerbad != '0': fails.append(('nested-inner-wrong', '%s of the %s inner sorts made from inside the comparator were not ordered' % (innerbad, inner)))
                if x.func == 'qsort_s' and nm > 0:
                    before = [x.blocks[0][1][i * size:(i + 1) * size] for i in range(nm)]; after = [a.blocks[0][i * size:(i + 1) * size] for i in range(nm)]
                    if rv != '0': fails.append(('error-return', 'qsort_s returned %s on valid arguments' % rv))
                    elif sorted(before) != sorted(after): fails.append(('not-a-permutation', 'result is not a permutation of the input elements (nmemb %d, size %d)' % (nm, size)))
                    elif any(after[i][:k] > after[i + 1][:k] for i in range(nm - 1)): fails.append(('not-sorted', 'result is not ordered by the comparator (nmemb %d, size %d)' % (nm, size)))
                    sm = smod.get(x.id, 'missing')
                    if sm == 'missing': rep.violation('sort model produced no outcome', {'key': 'nooutcome-sort', 'case': x.to_json(), 'no_failing_input': True})
                    elif not fails:
                        rep.extra['qsort_model_compared'] = rep.extra.get('qsort_model_compared', 0) + 1
                        if sm is None: why = 'the model leaves the array (answers None) but the implementation completed'
                        else:
                            want = [before[int(i)] for i in sm['perm'].split(',')]
                            why = None
                            if a.fields.get('tr') != sm['tr']: why = 'comparator calls differ: implementation %s.. model %s..' % (a.fields.get('tr', '?')[:80], sm['tr'][:80])
                            elif want != after: why = 'final arrangement differs from the model'
                        if why:
                            class B: pass
                            b = B(); b.raw = 'model: %s' % (str(sm)[:400]); rep.mismatches.append((x, a, b, var)); rep.extra.setdefault('qsort_mismatch', why)
                if x.func == 'bsearch_s':
                    present = m['key'] in m['vals']
                    if rv == 'N':
                        if present and nm > 0: fails.append(('not-found', 'key %d is in the array %s but NULL was returned' % (m['key'], m['vals'])))
                    else:
                        blk, off = (rv[1:].split(':') + ['-1'])[:2] if rv.startswith('P') else ('?', '-1'); off = int(off)
                        if blk != '1' or off < 0 or off % size or off // size >= nm or m['vals'][off // size] != m['key']:
                            fails.append(('wrong-element', 'returned %s which is not an element equal to key %d' % (rv, m['key'])))
                    b = om.get(x.id)
                    if not fails and b is not None and (rv, a.handlers) != (b.ret, b.handlers): rep.mismatches.append((x, a, b, var))
            for kind, text in fails:
                rep.violation('%s(%s): %s' % (x.func, var, text), {'key': (x.func, kind), 'property': 'C16', 'function': x.func, 'failure': kind, 'case': x.to_json(), 'case_line': x.line(), 'impl_outcome': a.raw})
    report_proofs(rep, pr, 'C16')
    report_mismatches(rep, 'T1 (bsearch_s)')
    rep.trusted = TRUSTED_COMMON + ['comparator of the drivers: memcmp over the first min(size,4) bytes, checks context and pointer provenance of every call',
                                    'qsort_s: the Coq model (ModSort.v) abstracts elements to values of a type A, the two-word bit vector p to a list of booleans, lp[] to Leonardo numbers in element units and the 256-byte chunking of cycle() to one assignment per element; the tie is the exact sequence of comparator calls (pairs of element indices) and the final arrangement, compared with the implementation on every case; the argument checks of _qsort_s_chk are not modelled', 'sort_model.ml (reader/printer of the extracted smoothsort)']
    rep.extra['partial'] = 'qsort_s: permutation, in-bounds and sign-dependence proved for every array; order of the result proved for nmemb <= 7 only (unbounded sortedness of smoothsort not proved); bsearch_s: full'
    return rep.finish('qsort_s: all key patterns over {0,1,2} for nmemb <= 6..8 (sampled above 60 patterns), random arrays up to 300 elements, element sizes 1..513 incl. 255/256/257; bsearch_s: sorted arrays of 0..11 elements x sizes 1,4,7 x 20 keys (present and absent); non-trivial = distinct (function, size, nmemb, result, build)',
                      'make -C /verif/coq Properties_C16.vo + harness/check.py C16')
REGISTRY['C16'] = check_C16

# ------------------------------------------------------------------ C18: secure erase
import eraseshape_tr
def c18_dead_buffer_clients(rep, scr, tier):
    """C18(c), the search for a failing input at machine level: a caller whose buffer is dead right after the erase (it is freed),
    built together with the working tree's sources at -O2 without and with link-time optimisation (thorough: also -O3); the freed
    block is inspected out of band.  A byte of the secret that survives is the replay."""
    srcs = [l.split()[0] for l in open(scr.dir + '/O1/list.txt')] if os.path.exists(scr.dir + '/O1/list.txt') else []
    if not srcs:
        import glob
        srcs = [f for f in glob.glob(vlib.REPO + '/src/*.c') + glob.glob(vlib.REPO + '/src/*/*.c') if '/slkm/' not in f and not f.endswith(('wcsstr.c', 'tmpnam_s.c'))]
    variants = [('O2', ['-O2']), ('O2-lto', ['-O2', '-flto'])] + ([('O3-lto', ['-O3', '-flto']), ('O1-lto', ['-O1', '-flto'])] if tier == 'thorough' else [])
    for vname, flags in variants:
        od = '%s/client_%s' % (scr.dir, vname); os.makedirs(od, exist_ok=True)
        lst = od + '/list.txt'
        with open(lst, 'w') as f:
            for s_ in srcs: f.write('%s %s/%s_%s.o\n' % (s_, od, os.path.basename(os.path.dirname(s_)), os.path.basename(s_)[:-2]))
        cf = ' '.join(flags) + ' -w -DHAVE_CONFIG_H -I%s/include -I%s -I%s/src' % (vlib.REPO, vlib.REPO, vlib.REPO)
        rc, o, e = vlib.sh(['bash', '-c', "xargs -P 16 -L 1 sh -c 'gcc -c %s \"$0\" -o \"$1\"' < %s" % (cf, lst)], timeout=900)
        rc2, o2, e2 = vlib.sh(['bash', '-c', 'gcc %s -w -I%s/include -I%s %s/erase_client.c %s/*.o -o %s/client -Wl,--wrap=free -lm' % (' '.join(flags), vlib.REPO, vlib.REPO, vlib.HARN, od, od)], timeout=900)
        if rc2 != 0:
            rep.violation('C18 client (%s) does not build: %s' % (vname, (e2 or '')[-400:]), {'key': ('client-build', vname), 'property': 'C18', 'no_failing_input': True}); continue
        rc3, o3, e3 = vlib.sh([od + '/client'], timeout=60)
        rep.evals += 7; rep.count('dead-buffer client/%s' % vname)
        for line in (o3 or '').split('\n'):
            f = line.split()
            if len(f) >= 2 and f[1] == 'ok': rep.nontrivial.add(('client', vname, f[0], 'ok'))
            elif len(f) >= 5 and f[1] == 'byte':
                fn = f[0]; rep.nontrivial.add(('client', vname, fn, 'survives'))
                kid = next((k['id'] for k in rep.known if k.get('client_variant') and fn in k.get('function', '').split(',') and vname in k['client_variant'].split(',')), None)
                if kid: rep.known_hits[kid] = rep.known_hits.get(kid, 0) + 1
                else:
                    rep.violation('%s: the erased bytes survive in a buffer that is freed right after the call when caller and library are built with %s (%s)' % (fn, ' '.join(flags), line.strip()),
                                  {'key': ('client', fn, vname), 'property': 'C18', 'function': fn, 'failure': 'erase-elided', 'build': 'gcc %s (all of src/ + harness/erase_client.c, -Wl,--wrap=free)' % ' '.join(flags),
                                   'how': 'harness/erase_client.c: malloc(64), fill with 0x5a through a volatile pointer, %s(...48 bytes...), free(); __wrap_free copies the block before releasing it' % fn, 'client_output': line.strip()})
        if rc3 not in (0, 1): rep.violation('C18 client (%s) crashed (exit %s)' % (vname, rc3), {'key': ('client-crash', vname), 'property': 'C18', 'no_failing_input': True})

def check_C18(rep, scr, tier, seed):
    import random
    rng = random.Random(seed)
    variants = ['O1', 'noslack'] + (['O0', 'O3'] if tier == 'thorough' else [])
    impls = {v: vlib.build_impl(scr, v) for v in variants}
    constsd = {v: vlib.consts(scr, impls[v]) for v in variants}
    vlib.write_gen_consts(constsd['O1'])
    errors = []
    try:
        prims, entries = eraseshape_tr.analyse(vlib.REPO, impls['O1'] + '/inc')
        eraseshape_tr.write_gen(prims, entries, vlib.COQ)
        rep.extra['shapes'] = {n: a for n, a in prims + entries}
    except eraseshape_tr.Unsupported as e:
        errors.append(str(e))
    md = vlib.build_model()
    pr = proofs(rep, scr, 'C18')
    for var in variants:
        consts = constsd[var]; cases = []; n = 0
        sizes = [1, 2, 3, 7, 8, 9, 15, 16, 17, 31, 33, 64, 127, 128, 129, 200] + (list(range(201, 400, 13)) if tier == 'thorough' else [])
        for al in (0, 1, 2, 3, 4, 5, 6, 7) + ((8, 9, 15) if tier == 'thorough' else ()):
            for sz in sizes:
                for func, w in (('memset_s', 1), ('memzero_s', 1), ('memset16_s', 2), ('memzero16_s', 2), ('memset32_s', 4), ('memzero32_s', 4)):
                    if al % w: continue
                    cnt = max(sz // w, 1); nb = cnt * w
                    blk = b'\xa5' * al + fam_copy.garbage(rng, nb) + b'\x7e' * 9       # canaries behind the erased bytes
                    for val in ((0, 0x41, 0x80, 0xfe) if 'set' in func else (0,)):
                        n += 1
                        if 'set' in func: args = [(0, al), nb, val if w == 1 else (val * 0x0101 if w == 2 else val * 0x01010101), cnt, UNK]
                        else: args = [(0, al), cnt, UNK]
                        cases.append(vlib.Case('e%d' % n, func, [('L', blk)], args, {'cls': 'erase', 'w': w, 'cnt': cnt, 'al': al, 'val': args[2] if 'set' in func else 0, 'func': func, 'nb': nb}))
                        if sz in (1, 8, 17, 64, 200) and al in (0, 3, 4):
                            # the same request with the size of the whole object known to the library (BOS): no byte beyond the request may change
                            n += 1; args2 = args[:-1] + [len(blk) - al]
                            cases.append(vlib.Case('e%d' % n, func, [('L', blk)], args2, {'cls': 'erase', 'w': w, 'cnt': cnt, 'al': al, 'val': args[2] if 'set' in func else 0, 'func': func, 'nb': nb, 'bos': 'larger'}))
        for dmax in (1, 2, 3, 8, 31, 32, 33, 40, 64):
            for content in ('str', 'lead0', 'full'):
                n += 1
                k = {'str': dmax // 2, 'lead0': 0, 'full': dmax}[content]
                body = bytes(rng.choice(fam_copy.NARROW) for _ in range(k)) + (b'\0' if k < dmax else b'') + fam_copy.garbage(rng, max(dmax - k - 1, 0))
                blk = body[:dmax] + b'\x7e' * 5
                cases.append(vlib.Case('e%d' % n, 'strzero_s', [('L', blk)], [(0, 0), dmax, UNK], {'cls': 'erase', 'w': 1, 'cnt': dmax, 'al': 0, 'val': 0, 'func': 'strzero_s', 'nb': dmax, 'content': content}))
                n += 1
                cases.append(vlib.Case('e%d' % n, 'strzero_s', [('L', blk)], [(0, 0), dmax, len(blk)], {'cls': 'erase', 'w': 1, 'cnt': dmax, 'al': 0, 'val': 0, 'func': 'strzero_s', 'nb': dmax, 'content': content, 'bos': 'larger'}))
        oi, om = run_cases(rep, scr, impls[var], md, consts, cases, 'erase_' + var)
        for x in cases:
            a = oi.get(x.id); b = om.get(x.id); m = x.meta
            rep.evals += 1; rep.count('%s/%s' % (x.func, var))
            if a is None or b is None: continue
            rep.nontrivial.add((x.func, m['cnt'], m['al'], var, a.ret))
            if len(rep.samples) < 6 and rep.evals % 1999 == 5: rep.samples.append({'case': x.line()[:160], 'impl': a.raw[:160]})
            fails = []
            if a.fault != '-': fails.append(('fault', 'faulted at %s' % a.fault))
            elif a.ret != '0': fails.append(('error-return', 'valid erase request returned %s' % a.ret))
            else:
                before = x.blocks[0][1]; after = a.blocks[0]; al, nb, w = m['al'], m['nb'], m['w']
                want = fam_copy.enc([m['val']] * m['cnt'], w)
                if x.func == 'strzero_s' and not consts['null_slack']:
                    # no-slack build: only the characters of the string are required to be zero
                    k = before[:nb].find(b'\0'); k = nb if k < 0 else k
                    if any(after[:k]): fails.append(('not-erased', 'strzero_s left string characters behind'))
                elif after[al:al + nb] != want:
                    i = next(k for k in range(nb) if after[al + k] != want[k])
                    fails.append(('not-erased', 'byte %d of the %d addressed bytes holds %#x instead of the fill value (dest offset %d)' % (i, nb, after[al + i], al)))
                if after[:al] != before[:al] or after[al + nb:] != before[al + nb:]: fails.append(('extra-bytes', 'bytes outside the requested %d were changed' % nb))
            for kind, text in fails:
                kid = known.classify(rep, x, a, kind, var, consts)
                if kid: rep.known_hits[kid] = rep.known_hits.get(kid, 0) + 1
                else: rep.violation('%s(%s): %s' % (x.func, var, text), {'key': (x.func, kind, var), 'property': 'C18', 'function': x.func, 'failure': kind, 'case': x.to_json(), 'case_line': x.line(), 'impl_outcome': a.raw, 'model_outcome': b.raw})
            if not fails and (a.ret, a.blocks, a.handlers) != (b.ret, b.blocks, b.handlers): rep.mismatches.append((x, a, b, var))
    kf_shape = [k for k in rep.known if k.get('predicate') == 'kf_strzero_unprotected']
    if kf_shape: rep.known_hits[kf_shape[0]['id']] = 1
    if errors: rep.violation('erase shape translator cannot process the current source: %s' % errors, {'key': 'translator', 'property': 'C18', 'no_failing_input': True, 'broken': 'translator eraseshape / theorem C18_shapes_protected'})
    c18_dead_buffer_clients(rep, scr, tier)
    report_proofs(rep, pr, 'C18')
    report_mismatches(rep, 'T1 (fill exactness)')
    rep.trusted = TRUSTED_COMMON + ['translator eraseshape (regular expressions over the preprocessed sources): volatile-qualified pointer declarations, store statements, barrier expansions',
                                    'abstract optimiser of EraseShape.v; that gcc/clang (with or without LTO) stay within it is NOT proved (partial)']
    rep.extra['partial'] = 'compiler-level survival of the stores (O0..O3, LTO) is outside the theorem; source-level shape + functional exactness are proved'
    return rep.finish('every erase entry point x alignments 0..7 x lengths across the unrolled body x fill values, canaries on both sides, both build configurations; strzero_s on terminated / leading-NUL / full buffers; non-trivial = distinct (function, count, alignment, build, result)',
                      'make -C /verif/coq Properties_C18.vo + harness/check.py C18')
REGISTRY['C18'] = check_C18

# ------------------------------------------------------------------ C20: allocation failure
def gen_alloc_inputs(consts):
    """inputs reaching each allocation site: (site, func, blocks, args, dest block index or None)"""
    W = wenc; out = []
    for f in ('sprintf_s', 'snprintf_s', 'vsprintf_s', 'vsnprintf_s'):
        out.append(('engine-ls', f, [('R', b'\x55' * 32), ('R', b'[%ls]\0'), ('R', W('hey'))], [(0, 0), 32, UNK, (1, 0), 'V', (2, 0)], 0))
        out.append(('engine-ls-conv-error', f, [('R', b'\x55' * 32), ('R', b'[%ls]\0'), ('R', W('a') [:4] + (0xd800).to_bytes(4, 'little') + b'\0\0\0\0')], [(0, 0), 32, UNK, (1, 0), 'V', (2, 0)], 0))
        out.append(('engine-ls-nospace', f, [('R', b'\x55' * 4), ('R', b'[%ls]\0'), ('R', W('heyheyhey'))], [(0, 0), 4, UNK, (1, 0), 'V', (2, 0)], 0))
        for fmt, arg in ((b'%Lf tail\0', 'G1.5'), (b'%Le x\0', 'G12.5'), (b'%Lg!\0', 'G0.5'), (b'%La.\0', 'G1.0'), (b'%a.\0', dbits(1.5))):
            out.append(('engine-longdouble', f, [('R', b'\x55' * 64), ('R', fmt)], [(0, 0), 64, UNK, (1, 0), 'V', arg], 0))
    for f in ('swprintf_s', 'snwprintf_s', 'vswprintf_s', 'vsnwprintf_s'):
        out.append(('wprintf-probe', f, [('R', b'\x55' * (4 * 520)), ('R', W('%600d'))], [(0, 0), 520, UNK, (1, 0), 'V', 7], 0))
    res = b'\xee' * 4
    out.append(('wcsicmp', 'wcsicmp_s', [('R', W('AbC')), ('R', W('aBc')), ('R', res)], [(0, 0), 4, (1, 0), 4, (2, 0), UNK, UNK], None))
    out.append(('wcsnatcmp', 'wcsnatcmp_s', [('R', W('a10')), ('R', W('A9')), ('R', res)], [(0, 0), 4, (1, 0), 3, 1, (2, 0), UNK, UNK], None))
    marks = ''.join(chr(0x300 + (i % 20)) for i in range(40))
    for mode in (0, 1):
        out.append(('wcsnorm-%d' % mode, 'wcsnorm_s', [('R', b'\x55' * (4 * 128)), ('R', W('a' + marks + 'é')), ('R', b'\xee' * 8)], [(0, 0), 128, (1, 0), mode, (2, 0), UNK], 0))
    # the scratch buffer of wcsnorm_s is allocated when the decomposed length reaches 126: long inputs, with and without
    # the length shrinking back across that threshold when recomposed
    for tag, text in (('shrinks', '\u00e9' * 70), ('stays-long', '\u00e9' * 130), ('ascii', 'a' * 140), ('hangul', '\uac01' * 50)):
        for mode in (0, 1):
            out.append(('wcsnorm-scratch-%s-%d' % (tag, mode), 'wcsnorm_s', [('R', b'\x55' * (4 * 420)), ('R', W(text)), ('R', b'\xee' * 8)], [(0, 0), 420, (1, 0), mode, (2, 0), UNK], 0))
    return out

def check_C20(rep, scr, tier, seed):
    impl = vlib.build_impl(scr, 'O1'); consts = vlib.consts(scr, impl); vlib.write_gen_consts(consts)
    vlib.build_model()
    pr = proofs(rep, scr, 'C20')
    inputs = gen_alloc_inputs(consts)
    # pass 1: no failure, count the requests each input makes
    def mk(i, site, func, blocks, args, k): return vlib.Case('a%d_%d' % (i, k), func, blocks, ['K%d' % k] + args, {'cls': 'alloc', 'site': site, 'k': k, 'func': func})
    base = [mk(i, s, f, b, a, 0) for i, (s, f, b, a, d) in enumerate(inputs)]
    cf = scr.dir + '/alloc0.txt'
    open(cf, 'w').write(''.join(x.line() + '\n' for x in base))
    o0 = vlib.run_impl(impl, cf, base, locale='C.UTF-8')
    cases = []
    for i, (s, f, b, a, d) in enumerate(inputs):
        o = o0.get('a%d_0' % i)
        nreq = o.alloc[0] if o and o.alloc else 0
        for k in range(0, nreq + 2): cases.append((mk(i, s, f, b, a, k), d))
    cf = scr.dir + '/alloc1.txt'
    open(cf, 'w').write(''.join(x.line() + '\n' for x, _ in cases))
    oi = vlib.run_impl(impl, cf, [x for x, _ in cases], locale='C.UTF-8')
    sites_reached = {}
    for x, dblk in cases:
        o = oi.get(x.id); m = x.meta
        rep.evals += 1; rep.count('%s/%s' % (m['site'], x.func))
        if o is None: continue
        al = o.alloc or (0, 0, 0, 0)
        sites_reached[m['site']] = max(sites_reached.get(m['site'], 0), al[0])
        rep.nontrivial.add((m['site'], x.func, m['k'], o.ret, al))
        if len(rep.samples) < 8 and rep.evals % 13 == 3: rep.samples.append({'site': m['site'], 'func': x.func, 'fail_request': m['k'], 'impl': o.raw[:140]})
        fails = []
        if o.fault != '-' or o.ret in ('FAULT', 'CRASH'): fails.append(('crash', 'request %d failed and the call crashed (%s)' % (m['k'], o.fault)))
        else:
            if al[3] != 0: fails.append(('leak', '%d block(s) still allocated at return (request %d failed: %s)' % (al[3], m['k'], bool(al[2]))))
            if al[2]:
                if o.ret == '0' or not o.handlers: fails.append(('not-reported', 'a request failed but the call returned %s with handlers %s' % (o.ret, o.handlers)))
                if dblk is not None and o.blocks[dblk][:1] not in (b'\0',): fails.append(('not-cleared', 'a request failed but dest was not cleared'))
        for kind, text in fails:
            kid = None
            for kf in rep.known:
                kinds = kf.get('kinds_by_function', {}).get(x.func, kf.get('kinds', ''))     # a finding may list, per function, which ways of failing it covers
                if m['site'] in kf.get('sites', '').split(',') and kind in kinds.split(','): kid = kf['id']
            if kid: rep.known_hits[kid] = rep.known_hits.get(kid, 0) + 1
            else: rep.violation('%s [%s]: %s' % (x.func, m['site'], text), {'key': (m['site'], x.func, kind), 'property': 'C20', 'function': x.func, 'site': m['site'], 'failure': kind, 'fail_request': m['k'],
                                'case': x.to_json(), 'case_line': x.line(), 'impl_outcome': o.raw})
    rep.extra['requests_per_site'] = sites_reached
    for s, nmax in sites_reached.items():
        if nmax == 0 and not s.endswith('nospace'): rep.notes.append('site %s made no allocation with the chosen input' % s)
    report_proofs(rep, pr, 'C20')
    rep.trusted = TRUSTED_COMMON + ['allocation skeletons (AllocModel.v) are hand-written abstractions of the allocating paths; the tie is the per-site, per-position failure injection on the real library (-Wl,--wrap=malloc,realloc,calloc,free)',
                                    'wcsnorm_s and wcsnatcmp_s sites have no skeleton yet (implementation-side only)']
    return rep.finish('for every allocation site an input reaching it, then each request k = 1..n failed in turn (and none); non-trivial = distinct (site, function, k, return, allocation counters)',
                      'make -C /verif/coq Properties_C20.vo + harness/check.py C20', level='proof')
REGISTRY['C20'] = check_C20

# ------------------------------------------------------------------ C15: multibyte <-> wide conversions
def block_addr(i, mode, size):
    base = 0x100000000 + i * 0x20000
    return base + 4096 + 0x10000 - size if mode == 'R' else base + 4096

def gen_conv_cases(seed, tier, consts, loc):
    import itertools, random
    rng = random.Random(seed); cs = []; n = [0]
    sfx = '_u8' if loc == 'u8' else '_c'
    chars = [0x61, 0xe9, 0x20ac, 0x10348] if loc == 'u8' else [0x61, 0x7a]
    def mb(cps): return ''.join(chr(c) for c in cps).encode('utf-8')
    invalid_mb = [b'\x80', b'\xc0\x80', b'\xed\xa0\x80', b'\xe2\x82', b'\xf0\x80\x80\x80', b'\xff']
    maxn = 3 if tier == 'quick' else 4
    strings = [list(t) for k in range(0, maxn + 1) for t in itertools.product(chars, repeat=k)]
    if tier == 'quick' and len(strings) > 60: strings = strings[:21] + rng.sample(strings[21:], 40)
    ret8 = b'\xee' * 8
    def add(func, blocks, args, **meta):
        n[0] += 1; meta.update(cls='conv', func=func, loc=loc); cs.append(vlib.Case('v%d' % n[0], func + sfx, blocks, args, meta))
    for s in strings:
        nb = len(mb(s)); nc = len(s)
        # mbstowcs_s: dmax / len below, at, above the converted length; dest null (query) or not
        for dmax in sorted(set([1, nc, nc + 1, nc + 3]) - {0}):
            for ln in sorted(set([0, max(nc - 1, 0), nc, nc + 1, nc + 3])):
                if ln > dmax: kind = 'len>dmax'
                else: kind = 'ok'
                src = mb(s) + b'\0'
                add('mbstowcs_s', [('R', ret8), ('R', fam_copy.garbage(rng, 4 * max(dmax, ln, 1))), ('R', src)], [(0, 0), (1, 0), dmax, (2, 0), ln, UNK],
                    op='mbstowcs', chars=s, dmax=dmax, len=ln, kind=kind, valid=True, objelems=max(dmax, ln, 1))
        add('mbstowcs_s', [('R', ret8), ('R', mb(s) + b'\0')], [(0, 0), None, 0, (1, 0), nc + 1, UNK], op='mbstowcs', chars=s, dmax=0, len=nc + 1, kind='query', valid=True)
        # wcstombs_s
        wsrc = fam_copy.enc(s + [0], 4)
        # (dmax also strictly inside the last / the first multibyte character, with len beyond it: a conversion cut at dmax
        #  stops in front of the character that straddles the boundary -- that is "no room", not a shorter success)
        for dmax in sorted(set(x for x in (1, 2, nb - 2, nb - 1, nb, nb + 1, nb + 4) if x >= 1)):
            for ln in sorted(set([0, max(nb - 1, 0), nb, nb + 1, nb + 4])):
                add('wcstombs_s', [('R', ret8), ('R', fam_copy.garbage(rng, max(dmax, ln, 1))), ('R', wsrc)], [(0, 0), (1, 0), dmax, (2, 0), ln, UNK],
                    op='wcstombs', chars=s, dmax=dmax, len=ln, kind='len>dmax' if ln > dmax else 'ok', valid=True, objelems=max(dmax, ln, 1))
        add('wcstombs_s', [('R', ret8), ('R', wsrc)], [(0, 0), None, 64, (1, 0), nb + 1, UNK], op='wcstombs', chars=s, dmax=64, len=nb + 1, kind='query', valid=True)
    # NULL in both pointer positions (the size-query form called with a null source): reported, never dereferenced
    for dm in (0, 4):
        add('mbstowcs_s', [('R', ret8)], [(0, 0), None, dm, None, 1, UNK], op='mbstowcs', chars=[], dmax=dm, len=1, kind='bothnull', valid=False)
        add('wcstombs_s', [('R', ret8)], [(0, 0), None, dm, None, 1, UNK], op='wcstombs', chars=[], dmax=dm, len=1, kind='bothnull', valid=False)
        n[0] += 1; cs.append(vlib.Case('v%d' % n[0], 'mbsrtowcs_s', [('R', ret8), ('R', b'\0' * 8)], [(0, 0), None, dm, None, 1, (1, 0), UNK],
                                       dict(cls='conv', func='mbsrtowcs_s', loc=loc, op='mbsrtowcs', chars=[], dmax=dm, len=1, kind='bothnull', valid=False)))
        n[0] += 1; cs.append(vlib.Case('v%d' % n[0], 'wcsrtombs_s', [('R', ret8), ('R', b'\0' * 8)], [(0, 0), None, dm, None, 1, (1, 0), UNK],
                                       dict(cls='conv', func='wcsrtombs_s', loc=loc, op='wcsrtombs', chars=[], dmax=dm, len=1, kind='bothnull', valid=False)))
    # a null source together with a dest declared with zero elements: reported, and nothing of dest is written
    add('mbstowcs_s', [('R', ret8), ('R', fam_copy.garbage(rng, 8))], [(0, 0), (1, 0), 0, None, 1, UNK], op='mbstowcs', chars=[], dmax=0, len=1, kind='srcnull-dmax0', valid=False, objelems=0)
    add('wcstombs_s', [('R', ret8), ('R', fam_copy.garbage(rng, 8))], [(0, 0), (1, 0), 0, None, 1, UNK], op='wcstombs', chars=[], dmax=0, len=1, kind='srcnull-dmax0', valid=False, objelems=0)
    # the object size is known to the library, dmax elements fit it but len elements do not (len may exceed dmax: it only limits the conversion)
    add('mbstowcs_s', [('R', ret8), ('R', fam_copy.garbage(rng, 40)), ('R', b'ab\0')], [(0, 0), (1, 0), 2, (2, 0), 20, 40], op='mbstowcs', chars=[0x61, 0x62], dmax=2, len=20, kind='bos-len', valid=True, objelems=10)
    add('wcstombs_s', [('R', ret8), ('R', fam_copy.garbage(rng, 10)), ('R', fam_copy.enc([0x61, 0x62, 0], 4))], [(0, 0), (1, 0), 2, (2, 0), 20, 10], op='wcstombs', chars=[0x61, 0x62], dmax=2, len=20, kind='bos-len', valid=True, objelems=10)
    # restartable forms (implementation side only): srcp is a pointer to the source pointer
    for s in strings[:40]:
        nb = len(mb(s)); nc = len(s)
        for dmax in sorted(set([1, nc, nc + 1, nc + 3]) - {0}):
            for ln in sorted(set([max(nc - 1, 0), nc, nc + 2, nc + 5])):
                src = mb(s) + b'\0'
                pp = block_addr(2, 'R', len(src)).to_bytes(8, 'little')
                n[0] += 1; cs.append(vlib.Case('v%d' % n[0], 'mbsrtowcs_s', [('R', ret8), ('R', fam_copy.garbage(rng, 4 * dmax)), ('R', src), ('R', pp), ('R', b'\0' * 8)],
                    [(0, 0), (1, 0), dmax, (3, 0), ln, (4, 0), UNK], dict(cls='conv', func='mbsrtowcs_s', loc=loc, op='mbsrtowcs', chars=s, dmax=dmax, len=ln, kind='len>dmax' if ln > dmax else 'ok', valid=True, objelems=dmax)))
        wsrc = fam_copy.enc(s + [0], 4)
        for dmax in sorted(set(x for x in (1, 2, nb - 2, nb - 1, nb, nb + 1, nb + 4) if x >= 1)):
            for ln in sorted(set([max(nb - 1, 0), nb, nb + 1, nb + 6])):
                pp = block_addr(2, 'R', len(wsrc)).to_bytes(8, 'little')
                n[0] += 1; cs.append(vlib.Case('v%d' % n[0], 'wcsrtombs_s', [('R', ret8), ('R', fam_copy.garbage(rng, dmax)), ('R', wsrc), ('R', pp), ('R', b'\0' * 8)],
                    [(0, 0), (1, 0), dmax, (3, 0), ln, (4, 0), UNK], dict(cls='conv', func='wcsrtombs_s', loc=loc, op='wcsrtombs', chars=s, dmax=dmax, len=ln, kind='len>dmax' if ln > dmax else 'ok', valid=True, objelems=dmax)))
    # a conversion state that is not initial on entry (UTF-8 only): a multibyte character split between mbrtowc and mbsrtowcs_s,
    # then a second string converted with the same state
    if loc == 'u8':
        for first in (0xe9, 0x20ac, 0x10348):
            fb = chr(first).encode('utf-8')
            for k in range(1, len(fb)):
                for rest in ([], [0x61], [0x20ac, 0x62]):
                    s1 = fb + mb(rest) + b'\0'; s2 = b'xyz\0'
                    n[0] += 1; cs.append(vlib.Case('v%d' % n[0], 'mbsrtowcs_seq', [('R', fam_copy.garbage(rng, 4 * 8)), ('R', fam_copy.garbage(rng, 4 * 8)), ('R', s1), ('R', s2)],
                                                   [(0, 0), (1, 0), 8, (2, 0), k, (3, 0), 7, UNK], dict(cls='conv', func='mbsrtowcs_seq', loc=loc, op='seq', kind='seq', first=first, k=k, rest=rest)))
        # wcrtomb_s entered with such a state: it must leave the state as the C library's wcrtomb leaves it (L'\\0' returns it to initial)
        for first in (0xe9, 0x20ac, 0x10348):
            fb = chr(first).encode('utf-8')
            for k in range(1, len(fb)):
                for wc in (0, 0x61, 0x20ac):
                    for dmax in (1, 2, 8):
                        n[0] += 1; cs.append(vlib.Case('v%d' % n[0], 'wcrtomb_seq', [('R', fam_copy.garbage(rng, 8)), ('R', fb + b'\0')], [(0, 0), dmax, (1, 0), k, wc, UNK],
                                                       dict(cls='conv', func='wcrtomb_seq', loc=loc, op='wseq', kind='seq', first=first, k=k, wc=wc, dmax=dmax)))
    for bad in (invalid_mb if loc == 'u8' else [b'\x80', b'\xe9']):
        for pre in ([], [0x61]):
            src = mb(pre) + bad + b'a\0'
            add('mbstowcs_s', [('R', ret8), ('R', fam_copy.garbage(rng, 4 * 8)), ('R', src)], [(0, 0), (1, 0), 8, (2, 0), 6, UNK], op='mbstowcs', chars=pre, dmax=8, len=6, kind='invalid', valid=False, objelems=8)
    for badwc in ([0xd800, 0xdfff] if loc == 'u8' else [0x80, 0x20ac]):
        for pre in ([], [0x61]):
            add('wcstombs_s', [('R', ret8), ('R', fam_copy.garbage(rng, 16)), ('R', fam_copy.enc(pre + [badwc, 0x61, 0], 4))], [(0, 0), (1, 0), 16, (2, 0), 12, UNK], op='wcstombs', chars=pre, dmax=16, len=12, kind='invalid', valid=False, objelems=16)
    # errno left non-zero by some earlier call (e.g. EILSEQ from a rejected conversion) must not change the outcome of a valid call
    for x in list(cs):
        if x.meta.get('kind') in ('query', 'ok') and x.meta.get('valid') and x.meta.get('op') in ('mbstowcs', 'wcstombs', 'mbsrtowcs', 'wcsrtombs') and (x.meta['kind'] == 'query' or rng.random() < 0.15):
            n[0] += 1; m2 = dict(x.meta); m2['errno_on_entry'] = 84
            cs.append(vlib.Case('v%d' % n[0], x.func, x.blocks, list(x.args) + ['E84'], m2))
    # single characters
    st = b'\0' * 16
    for wc in chars + [0, 0x7f] + ([0x80, 0x7ff, 0x800, 0xffff, 0x10000, 0x10ffff, 0xd800] if loc == 'u8' else [0x80, 0xa0, 0xe9, 0xff, 0x100]):
        for dmax in (1, 2, 3, 4, 5, 8):
            add('wcrtomb_s', [('R', ret8), ('R', fam_copy.garbage(rng, max(dmax, 6))), ('R', st)], [(0, 0), (1, 0), dmax, wc, (2, 0), UNK], op='wcrtomb', wc=wc, dmax=dmax, kind='ok', objelems=max(dmax, 6))
            add('wctomb_s', [('R', ret8), ('R', fam_copy.garbage(rng, max(dmax, 6)))], [(0, 0), (1, 0), dmax, wc, UNK], op='wctomb', wc=wc, dmax=dmax, kind='ok', objelems=max(dmax, 6))
        add('wcrtomb_s', [('R', ret8), ('R', st)], [(0, 0), None, 0, wc, (1, 0), UNK], op='wcrtomb', wc=wc, dmax=0, kind='query')
        add('wctomb_s', [('R', ret8)], [(0, 0), None, 0, wc, UNK], op='wctomb', wc=wc, dmax=0, kind='query')
    return cs

def check_C15(rep, scr, tier, seed):
    impls, constsd, md = setup(rep, scr, ['O1', 'noslack'])
    pr = proofs(rep, scr, 'C15')
    for var in ('O1', 'noslack'):
        consts = constsd[var]
        for loc, locname in (('u8', 'C.UTF-8'), ('c', 'C')):
            cases = gen_conv_cases(seed, tier, consts, loc)
            for x in cases:
                # invalid input: dest as the constraint handler finds it (driver directive W; a handler need not return)
                if x.meta['kind'] == 'invalid' and len(x.blocks) > 1 and 0 < x.meta.get('dmax', 0) <= 4096:
                    unit = 4 if x.meta['op'] in ('mbstowcs', 'mbsrtowcs') else 1
                    x.args = list(x.args) + ['W1:0:%d:%d' % (min(x.meta['dmax'] * unit, len(x.blocks[1][1])), unit)]
            oi, om = run_cases(rep, scr, impls[var], md, consts, cases, 'conv_%s_%s' % (var, loc), locale=locname)
            for x in cases:
                a = oi.get(x.id); b = om.get(x.id); m = x.meta
                rep.evals += 1; rep.count('%s/%s/%s/%s' % (m['func'], m['kind'], loc, var))
                if a is None: continue
                if b is None: b = vlib.Outcome('%s ret=UNKNOWN' % x.id)
                rep.nontrivial.add((m['func'], m['kind'], loc, var, a.ret, a.blocks[0] if a.blocks else None))
                if len(rep.samples) < 8 and rep.evals % 3001 == 17: rep.samples.append({'case': x.line()[:200], 'impl': a.raw[:200], 'model': b.raw[:160]})
                fails = []
                if a.fault != '-': fails.append(('fault', 'faulted at %s' % a.fault))
                else:
                    if m['op'] in ('seq', 'wseq'):
                        v = [int(t) for t in a.ret.split(',')]
                        if m['op'] == 'wseq':
                            # rc, retval, init | libc count, libc init | same bytes, same state
                            fits = 0 <= v[3] < m['dmax']     # the function wants room behind the character (its documented success condition)
                            if fits and (not v[5] or v[2] != v[4] or not v[6]):
                                fails.append(('state-after-wcrtomb', 'wcrtomb_s(wc=%#x, dmax %d) entered with the state left by mbrtowc(%d of %d bytes of U+%04X): rc/count %s,%s, state initial afterwards: %s; the C library: count %s, state initial afterwards: %s; same bytes: %s, same state: %s'
                                              % (m['wc'], m['dmax'], m['k'], len(chr(m['first']).encode('utf-8')), m['first'], v[0], v[1], v[2], v[3], v[4], v[5], v[6])))
                            for kind, text in fails:
                                rep.violation('%s(%s,%s): %s' % (m['func'], locname, var, text), {'key': (m['func'], kind, loc), 'property': 'C15', 'function': 'wcrtomb_s', 'locale': locname, 'failure': kind, 'case': x.to_json(), 'case_line': x.line(), 'impl_outcome': a.raw})
                            continue
                        if v[0] != 0 or v[2] != 0 or v[1] != v[5] or v[3] != v[6] or v[4] != v[7] or not v[8] or not v[9]:
                            fails.append(('state-sequence', 'mbrtowc(%d of %d bytes of U+%04X) ; mbsrtowcs_s(rest) ; mbsrtowcs_s("xyz") with one state gave rc/count %s,%s then %s,%s (state initial: %s); the C library gives counts %s then %s (state initial: %s), results equal: %s %s'
                                          % (m['k'], len(chr(m['first']).encode('utf-8')), m['first'], v[0], v[1], v[2], v[3], v[4], v[5], v[6], v[7], v[8], v[9])))
                        for kind, text in fails:
                            rep.violation('%s(%s,%s): %s' % (m['func'], locname, var, text), {'key': (m['func'], kind, loc), 'property': 'C15', 'function': 'mbsrtowcs_s', 'locale': locname, 'failure': kind, 'case': x.to_json(), 'case_line': x.line(), 'impl_outcome': a.raw})
                        continue
                    rc = int(a.ret); retval = int.from_bytes(a.blocks[0][:8], 'little')
                    if m['op'] in ('mbstowcs', 'wcstombs', 'mbsrtowcs', 'wcsrtombs') and m['kind'] in ('ok', 'query', 'len>dmax') and m['valid']:
                        s = m['chars']; unit = 4 if m['op'] in ('mbstowcs', 'mbsrtowcs') else 1
                        full = s if m['op'] in ('mbstowcs', 'mbsrtowcs') else list(''.join(chr(c) for c in s).encode('utf-8'))
                        need = len(full)
                        if m['kind'] == 'query':
                            if rc != 0 or retval != need: fails.append(('query-length', 'size query returned %d / count %d, the converting form needs %d' % (rc, retval, need)))
                        else:
                            lim = m['len']
                            # what the standard function delivers limited to len: whole characters only
                            if m['op'] in ('mbstowcs', 'mbsrtowcs'): deliver = full[:lim]
                            else:
                                deliver = []; 
                                for c in s:
                                    e = list(chr(c).encode('utf-8'))
                                    if len(deliver) + len(e) > lim: break
                                    deliver += e
                            if len(deliver) < m['dmax']:
                                got = fam_copy.dec(a.blocks[1][:len(deliver) * unit + unit], unit)
                                if rc != 0: fails.append(('valid-rejected', 'valid input with room (needs %d of dmax %d) returned %d' % (len(deliver) + 1, m['dmax'], rc)))
                                elif retval != len(deliver) or got != deliver + [0]: fails.append(('wrong-conversion', 'converted %s count %d, the standard function gives %s count %d' % (got, retval, deliver + [0], len(deliver))))
                            else:
                                if rc == 0: fails.append(('truncated-success', 'result of %d elements does not fit dmax %d but EOK was returned' % (len(deliver) + 1, m['dmax'])))
                    if m['op'] in ('wcrtomb', 'wctomb') and m['kind'] == 'ok':
                        # one character: the encoding of the locale (UTF-8 / ASCII), or an error for a value the locale cannot encode
                        wc = m['wc']; cnt = int.from_bytes(a.blocks[0][:4 if m['op'] == 'wctomb' else 8], 'little', signed=True)
                        enc1 = (list(chr(wc).encode('utf-8')) if wc <= 0x10ffff and not 0xd800 <= wc <= 0xdfff else None) if loc == 'u8' else ([wc] if wc < 0x80 else None)
                        if enc1 is None:
                            if rc == 0: fails.append(('invalid-accepted', 'U+%04X has no encoding in this locale (the C library fails with EILSEQ) but the call returned EOK, count %d, dest[0] = %#x' % (wc, cnt, a.blocks[1][0])))
                        elif len(enc1) < m['dmax']:
                            if rc != 0: fails.append(('valid-rejected', 'U+%04X (%d bytes) with dmax %d returned %d' % (wc, len(enc1), m['dmax'], rc)))
                            elif cnt != len(enc1) or list(a.blocks[1][:len(enc1)]) != enc1: fails.append(('wrong-conversion', 'U+%04X converted to %s count %d, the standard function gives %s' % (wc, list(a.blocks[1][:len(enc1)]), cnt, enc1)))
                    if m['kind'] == 'bothnull' and rc != 400: fails.append(('null-not-reported', 'dest and src both null (dmax %d): returned %d, not ESNULLP' % (m['dmax'], rc)))
                    if m['kind'] == 'invalid':
                        if rc == 0: fails.append(('invalid-accepted', 'invalid sequence accepted'))
                        elif a.blocks[1][:1] != b'\0': fails.append(('invalid-not-cleared', 'invalid sequence: dest not cleared'))
                        elif 'D' in a.fields.get('hw', ''): fails.append(('invalid-reported-before-clear', 'invalid sequence: the constraint handler was invoked while dest still held the converted prefix (dest is cleared only after the report; a handler that does not return leaves it)'))
                    if 'objelems' in m:   # declared dest = dmax elements; anything beyond must be untouched
                        unit = 4 if m['op'] in ('mbstowcs', 'mbsrtowcs') else 1
                        if a.blocks[1][m['dmax'] * unit:] != x.blocks[1][1][m['dmax'] * unit:]: fails.append(('write-past-dmax', 'elements beyond dest[dmax] were written (dmax %d, len %s)' % (m['dmax'], m.get('len'))))
                for kind, text in fails:
                    kid = known.classify(rep, x, a, kind, var, consts)
                    if kid: rep.known_hits[kid] = rep.known_hits.get(kid, 0) + 1
                    else: rep.violation('%s(%s,%s): %s' % (m['func'], locname, var, text), {'key': (m['func'], kind, loc), 'property': 'C15', 'function': m['func'], 'locale': locname, 'failure': kind,
                                        'case': x.to_json(), 'case_line': x.line(), 'impl_outcome': a.raw, 'model_outcome': b.raw})
                if not fails and b.ret != 'UNKNOWN' and (a.ret, a.blocks, a.handlers, a.fault != '-') != (b.ret, b.blocks, b.handlers, b.fault != '-'): rep.mismatches.append((x, a, b, '%s/%s' % (var, loc)))
    report_proofs(rep, pr, 'C15')
    report_mismatches(rep, 'T1 (converters)')
    rep.trusted = TRUSTED_COMMON + ['libc converters (mbstowcs, wcstombs, wcrtomb, wctomb) are modelled: UTF-8 as in Utf8.v (1-4 byte forms) in C.UTF-8, ASCII in C; mbsrtowcs_s/wcsrtombs_s are not yet modelled',
                                    'reference of the oracle: Python UTF-8 codec']
    return rep.finish('all strings of 0..3 characters over {1,2,3,4-byte} characters x dmax/len below/at/above the converted length x query form x invalid classes (lone continuation, overlong, surrogate, truncated, 0xff) x locales C.UTF-8 and C x both build configurations; single characters at every encoding-length boundary; non-trivial = distinct (function, class, locale, build, return, count)',
                      'make -C /verif/coq Properties_C15.vo + harness/check.py C15')
REGISTRY['C15'] = check_C15

# ------------------------------------------------------------------------------------------------ C17
def gen_uni_cases(seed, tier, g, rng):
    """strings (lists of code points) with a class label"""
    import unicodedata as ud, itertools
    import unicode_tr as U
    out = []
    keys = sorted(set(g['D']) | set(g['rD']) | set(g['rC']) | set(g['C']) | set(c for (_, _), (c, _) in g['P'].items()) | set(a for (a, b) in g['P']) | set(b for (a, b) in g['P']))
    for cp in keys: out.append(('single-table', [cp]))
    step = 1 if tier == 'thorough' else 23
    for cp in range(0xac00, 0xd7a4, step): out.append(('single-hangul', [cp]))
    allcp = [cp for cp in range(1, 0x110000) if not (0xd800 <= cp <= 0xdfff) and U.assigned14(cp) and not (0xac00 <= cp <= 0xd7a3)]
    if tier == 'thorough': sample = allcp
    else:
        # all of the BMP scripts with tables sparse, every 41st elsewhere, seeded offset
        off = rng.randrange(41); sample = [cp for i, cp in enumerate(allcp) if i % 41 == off] + [cp for cp in allcp if cp < 0x3400 and cp % 3 == off % 3]
    for cp in sample: out.append(('single-assigned', [cp]))
    for (a, b), c in sorted(g['rP'].items()): out.append(('pair', [a, b]))
    # the 16-bit truncation boundary of the short composition lists: second character + 0x10000 must NOT compose
    for (a, b), c in sorted(g['rP'].items()):
        if b < 0x10000 and U.assigned14(b + 0x10000): out.append(('pair-high-alias', [a, b + 0x10000]))
    # Hangul L V T triples (and L V pairs)
    Ls = range(0x1100, 0x1113); Vs = range(0x1161, 0x1176); Ts = range(0x11a8, 0x11c3)
    trip = list(itertools.product(Ls, Vs, Ts))
    if tier != 'thorough': trip = rng.sample(trip, 600)
    for t in trip: out.append(('hangul-lvt', list(t)))
    for l in Ls:
        for v in Vs: out.append(('hangul-lv', [l, v]))
    # the edges of the three jamo ranges (one below the first, the first, the last, one above the last) in every combination,
    # alone and behind a precomposed LV / LVT syllable: U+11A7 (= TBase itself) and U+11C3 must never compose
    for l in (0x10ff, 0x1100, 0x1112, 0x1113):
        for v in (0x1160, 0x1161, 0x1175, 0x1176):
            out.append(('hangul-edge', [l, v]))
            for t in (0x11a7, 0x11a8, 0x11c2, 0x11c3): out.append(('hangul-edge', [l, v, t]))
    for syl in (0xac00, 0xac1c, 0xd788, 0xac01, 0xd7a3):
        for t in (0x11a7, 0x11a8, 0x11c2, 0x11c3, 0x1161, 0x1175): out.append(('hangul-edge', [syl, t])); out.append(('hangul-edge', [0x61, syl, t, 0x62]))
    # blocked composition: starter, marks that do not combine with it, then a second character that would
    marks = sorted(g['rC'])
    starters2 = [(a, b) for (a, b) in g['rP'] if ud.combining(chr(b)) == 0] + [(l, v) for l in (0x1100, 0x1112) for v in (0x1161, 0x1175)] + [(0xac00, 0x11a8), (0xd788, 0x11c2)]
    for (a, b) in starters2:
        for k in range(3 if tier == 'quick' else 8):
            m = rng.sample(marks, rng.randrange(1, 3))
            out.append(('blocked-starter', [a] + m + [b]))
    for (a, b), c in rng.sample(sorted(g['rP'].items()), 300 if tier == 'quick' else len(g['rP'])):
        cb = ud.combining(chr(b))
        if cb == 0: continue
        same = [m for m in marks if g['rC'][m] == cb and m != b]
        higher = [m for m in marks if g['rC'][m] > cb]
        lower = [m for m in marks if g['rC'][m] < cb]
        if same: out.append(('blocked-same-class', [a, rng.choice(same), b]))
        if higher: out.append(('unblocked-after-reorder', [a, rng.choice(higher), b]))
        if lower: out.append(('lower-class-between', [a, rng.choice(lower), b]))
    # random strings of starters and shuffled marks, length <= 12
    starters = [cp for cp in keys if g['rC'].get(cp, 0) == 0 and U.assigned14(cp)] + [0x41, 0x61, 0x3b1, 0x1100, 0x1161, 0x11a8, 0xac00, 0x4e00, 0x1f600]
    for i in range(1500 if tier == 'quick' else 12000):
        n = rng.randrange(1, 13); s = []
        while len(s) < n:
            s.append(rng.choice(starters))
            k = rng.randrange(0, 4); ms = [rng.choice(marks) for _ in range(k)]
            s += ms
        out.append(('random', s[:12]))
    # long runs of marks (combining-sequence growth beyond the stack buffer)
    for n in (9, 10, 11, 20, 40):
        out.append(('long-marks', [0x61] + [rng.choice(marks) for _ in range(n)]))
    # long runs of marks of one combining class (stability of the reordering beyond 8-bit positions), cycling three marks of class 230
    for n in (255, 256, 257, 300, 700):
        out.append(('long-same-class', [0x78] + [0x300 + (i % 3) for i in range(n)]))
        out.append(('long-two-classes', [0x78] + [(0x300 + (i % 3)) if i % 5 else 0x323 for i in range(n)]))
    return out

def check_C17(rep, scr, tier, seed):
    import unicodedata as ud, random
    import unicode_tr as U
    rng = random.Random(seed)
    impl = vlib.build_impl(scr, 'O1')
    # T2: graphs of the working tree's lookups -> Gen/UniTables.v
    try:
        g, problems = U.analyse(U.run_dumpers(vlib.REPO, impl, scr.dir))
        U.write_gen(g, vlib.COQ)
    except Exception as e:
        rep.violation('the table translator failed on the working tree: %s' % str(e)[:300], {'key': 'translator', 'property': 'C17', 'no_failing_input': True, 'what': str(e)[:2000]})
        g = None; problems = []
    impls, constsd, md = setup(rep, scr, ['O1'])
    consts = constsd['O1']
    pr = proofs(rep, scr, 'C17')
    def kf_or_violation(kind, cp, text, extra):
        kid = known.classify_simple(rep, kind, cp)
        if kid: rep.known_hits[kid] = rep.known_hits.get(kid, 0) + 1
        else: rep.violation(text, dict({'key': (kind, cp), 'property': 'C17', 'failure': kind, 'code_point': 'U+%04X' % cp}, **extra))
    for kind, cp, text in problems:
        rep.evals += 1
        kf_or_violation(kind, cp, 'table graph: ' + text, {'what': text, 'how': 'harness/unicode_tr.py runs the working tree lookups on every code point and compares with unicodedata %s' % ud.unidata_version})
    if g is None: 
        report_proofs(rep, pr, 'C17'); return rep.finish('-', '-')
    rep.count('graph/decomposition entries', len(g['D'])); rep.count('graph/ccc entries', len(g['C'])); rep.count('graph/composition pairs', len(g['P'])); rep.count('graph/fold entries', len(g['F'])); rep.count('graph/hangul syllables', len(g['H']))
    rep.evals += 0x110000 * 2
    # out-of-range index behaviour of the internal lookups is visible only through the public entry points: below
    strings = gen_uni_cases(seed, tier, g, rng)
    UNKB = UNK
    def mk(i, func, s, mode, dmax, cls):
        src = fam_copy.enc(list(s) + [0], 4)
        if func == 'wcsnorm_s':
            return vlib.Case('u%d' % i, func, [('R', b'\xee' * 8), ('R', fam_copy.garbage(rng, 4 * dmax)), ('R', src)], [(1, 0), dmax, (2, 0), mode, (0, 0), UNKB], dict(cls=cls, s=list(s), mode=mode, dmax=dmax, func=func))
        return vlib.Case('u%d' % i, func, [('R', b'\xee' * 8), ('R', fam_copy.garbage(rng, 4 * dmax)), ('R', src)], [(1, 0), dmax, (2, 0), (0, 0), UNKB], dict(cls=cls, s=list(s), mode=-1, dmax=dmax, func=func))
    def ref(s, mode):
        return [ord(x) for x in ud.normalize('NFC' if mode == 1 else 'NFD', ''.join(chr(c) for c in s))]
    def refok(s): return all(U.assigned14(c) for c in s)
    cases = []; i = 0
    for cls, s in strings:
        for mode in (0, 1):
            need = len(ref(s, 0)) + 1
            # the library asks for 4 spare elements while decomposing (documented ESNOSPC 'too small for the result buffer'):
            # need+4 is the smallest dmax that must succeed; below it ESNOSPC is accepted, EOK must still be right
            dm = [need + 4, need + 20, max(5, need)] if cls != 'single-assigned' else [need + 4]
            for dmax in dm:
                i += 1; cases.append(mk(i, 'wcsnorm_s', s, mode, dmax, cls))
    # too small a destination: an error, no overflow
    for cls, s in rng.sample(strings, 400):
        need = len(ref(s, 0)) + 1
        for dmax in sorted(set([1, 4, 5, max(need - 1, 1)])):
            i += 1; cases.append(mk(i, 'wcsnorm_s', s, rng.randrange(2), dmax, 'small:' + ('below5' if dmax < 5 else 'short')))
    # out of range / surrogates
    for bad in (0x110000, 0x110001, 0x1fffff, 0x200000, 0x7fffffff, 0x80000000, 0xffffffff, 0x0011ac00, 0x00110300):
        for s in ([bad], [0x41, bad], [bad, 0x301], [0x41, 0x301, bad], [0x1100, bad]):
            for mode in (0, 1):
                i += 1; cases.append(mk(i, 'wcsnorm_s', s, mode, 24, 'out-of-range'))
        i += 1; cases.append(mk(i, 'wcsfc_s', [bad], -1, 24, 'out-of-range'))
        i += 1; cases.append(mk(i, 'wcsfc_s', [0x41, bad, 0x42], -1, 24, 'out-of-range'))
    for sur in (0xd800, 0xdbff, 0xdc00, 0xdfff):
        for s in ([sur], [0x41, sur, 0x301], [sur, 0x1161]):
            for mode in (0, 1):
                i += 1; cases.append(mk(i, 'wcsnorm_s', s, mode, 24, 'surrogate'))
    # folding of strings: one character each, destination sized from the announced length
    for cp, (a, r, n, chars) in sorted(g['F'].items()):
        if cp == 0: continue
        i += 1; cases.append(mk(i, 'wcsfc_s', [cp], -1, 24, 'fold-single'))
    # folding of characters that do not fold but decompose, alone and behind one or two ASCII letters (ample destination; the
    # results are the reference for the tight destinations of the second pass)
    dk = sorted(cp for cp in g['D'] if cp not in g['F'] and U.assigned14(cp))
    for cp in rng.sample(dk, min(len(dk), 120 if tier == 'quick' else 1500)):
        for pre in ([], [0x61], [0x41, 0x62]):
            i += 1; cases.append(mk(i, 'wcsfc_s', pre + [cp], -1, 24, 'fold-decomp'))
    cf = '%s/cases_uni.txt' % scr.dir
    with open(cf, 'w') as f:
        for c in cases: f.write(c.line() + '\n')
    oi = vlib.run_impl(impls['O1'], cf, cases, locale='C.UTF-8')
    # model: the same strings
    um = vlib.VERIF + '/build/model/uni_model'
    mo = {}
    if os.path.exists(um):
        inp = '\n'.join('%s %s %s' % (c.id, 'D' if c.meta['mode'] == 0 else 'C', ' '.join('%x' % x for x in c.meta['s'])) for c in cases if c.func == 'wcsnorm_s' and c.meta['cls'] not in ('out-of-range', 'surrogate')) + '\n'
        p = subprocess.run([um], input=inp, capture_output=True, text=True, timeout=900)
        for l in p.stdout.split('\n'):
            if not l: continue
            idd, rest = l.split(' ', 1) if ' ' in l else (l, '')
            parts = rest.split('|')
            mo[idd] = [[int(x, 16) for x in part.split()] for part in parts]
    else:
        rep.violation('the normalisation model could not be built from the regenerated tables', {'key': 'unimodel', 'property': 'C17', 'no_failing_input': True, 'log': open(vlib.COQ + '/make_uni.log').read()[-2000:] if os.path.exists(vlib.COQ + '/make_uni.log') else ''})
    second = []; foldamp = []; foldamp_skipped = [0]
    def fail(c, a, kind, text):
        kid = known.classify(rep, c, a, kind, 'O1', consts)
        if kid: rep.known_hits[kid] = rep.known_hits.get(kid, 0) + 1
        else: rep.violation('%s(%s): %s' % (c.func, ' '.join('%04X' % x for x in c.meta['s']), text), {'key': (c.func, kind, c.meta['cls'].split(':')[0]), 'property': 'C17', 'failure': kind, 'string': ['U+%04X' % x for x in c.meta['s']], 'mode': {0: 'NFD', 1: 'NFC', -1: 'fold'}[c.meta['mode']],
                            'dmax': c.meta['dmax'], 'case_line': c.line(), 'impl_outcome': a.raw, 'what': text})
    for c in cases:
        a = oi.get(c.id); m = c.meta; cls = m['cls']
        rep.evals += 1; rep.count('%s/%s/%s' % (c.func, cls, {0: 'NFD', 1: 'NFC', -1: 'fold'}[m['mode']]))
        if a is None: continue
        if a.fault != '-': fail(c, a, 'fault', 'faulted at %s' % a.fault); continue
        rc = int(a.ret); lenp = int.from_bytes(a.blocks[0][:8], 'little'); dest = fam_copy.dec(a.blocks[1], 4)
        got = dest[:dest.index(0)] if 0 in dest else None
        rep.nontrivial.add((c.func, cls, m['mode'], rc, len(got) if got is not None else -1))
        if len(rep.samples) < 8 and rep.evals % 2503 == 7: rep.samples.append({'case': c.line()[:160], 'impl': a.raw[:200]})
        if cls == 'out-of-range':
            if rc == 0: fail(c, a, 'range-accepted', 'a code point above U+10FFFF was accepted (returned EOK, result %s)' % (got and ['%X' % x for x in got]))
            continue
        if cls == 'surrogate' or cls.startswith('small'):
            if rc == 0 and got is None: fail(c, a, 'unterminated', 'EOK but dest is not terminated within dmax')
            if rc == 0 and cls.startswith('small') and got is not None and refok(m['s']) and got != ref(m['s'], m['mode']): fail(c, a, 'norm-wrong', 'EOK with a too small dmax but the result %s is not the normal form' % got)
            continue
        if c.func == 'wcsfc_s':
            if rc != 0: fail(c, a, 'fold-rejected', 'folding a single assigned character returned %d' % rc)
            elif got is None: fail(c, a, 'unterminated', 'EOK but dest is not terminated within dmax')
            else:
                if lenp != len(got): fail(c, a, 'fold-len', 'reported length %d but the result has %d characters' % (lenp, len(got)))
                if cls == 'fold-decomp' or (cls == 'fold-single' and (c.meta['s'][0] >= 0xc0 and len(foldamp) % 7 == 0 or len(got) > 1)): foldamp.append((c, got))
                else: foldamp_skipped[0] += 1
            continue
        if rc != 0 and m['dmax'] < len(ref(m['s'], 0)) + 5 and rc == 406: rep.count('wcsnorm_s/tight dmax: ESNOSPC accepted'); continue
        if rc != 0: fail(c, a, 'norm-rejected', 'valid string with dmax %d (NFD length %d) returned %d' % (m['dmax'], len(ref(m['s'], 0)), rc)); continue
        if got is None: fail(c, a, 'unterminated', 'EOK but dest is not terminated within dmax'); continue
        if lenp != len(got): fail(c, a, 'norm-len', 'reported length %d but the result has %d characters' % (lenp, len(got)))
        if refok(m['s']):
            want = ref(m['s'], m['mode'])
            if got != want: fail(c, a, 'norm-wrong', '%s gives %s, UAX #15 (unicodedata %s) gives %s' % ({0: 'NFD', 1: 'NFC'}[m['mode']], ['%04X' % x for x in got], ud.unidata_version, ['%04X' % x for x in want]))
        if c.id in mo:
            mm = mo[c.id]
            if mm[0] != got: rep.mismatches.append((c, a, vlib.Outcome('%s ret=0 model=%s' % (c.id, ','.join('%x' % x for x in mm[0]))), 'O1'))
            if len(mm) > 1 and mm[0] != mm[1]:
                rep.violation('model: the transcribed composition pass and the UAX #15 reference composition differ on %s' % m['s'], {'key': 'refcompose', 'property': 'C17', 'string': m['s'], 'transcribed': mm[0], 'reference': mm[1]})
        if got != m['s'] and m['dmax'] > 5 + len(got): second.append((c, got))
    # idempotence: normalising the result again
    c2 = []
    for j, (c, got) in enumerate(second):
        c2.append(mk(10**7 + j, 'wcsnorm_s', got, c.meta['mode'], c.meta['dmax'], 'again'))
    # wcsfc_s with every destination size from 1 to ample: a size that is accepted must give the same text and length as the ample
    # destination did; the only other outcome allowed is ESNOSPC with nothing outside dest touched
    if tier == 'quick' and len(foldamp) > 500: foldamp = rng.sample(foldamp, 500)
    for j, (c, got) in enumerate(foldamp):
        for dm in range(1, len(got) + 7):
            x = mk(2 * 10**7 + 100 * j + dm, 'wcsfc_s', c.meta['s'], -1, dm, 'fold-tight'); x.meta['ample'] = got; c2.append(x)
    cf2 = '%s/cases_uni2.txt' % scr.dir
    with open(cf2, 'w') as f:
        for c in c2: f.write(c.line() + '\n')
    oi2 = vlib.run_impl(impls['O1'], cf2, c2, locale='C.UTF-8')
    for c in c2:
        a = oi2.get(c.id); rep.evals += 1
        if c.func == 'wcsfc_s':
            rep.count('wcsfc_s/fold-tight/%s' % ('fits' if c.meta['dmax'] > len(c.meta['ample']) else 'too small'))
            if a is None: continue
            if a.fault != '-': fail(c, a, 'fault', 'faulted at %s' % a.fault); continue
            rc = int(a.ret); dest = fam_copy.dec(a.blocks[1], 4); got = dest[:dest.index(0)] if 0 in dest else None; lenp = int.from_bytes(a.blocks[0][:8], 'little')
            rep.nontrivial.add(('wcsfc_s', 'fold-tight', rc, c.meta['dmax'] - len(c.meta['ample'])))
            if rc == 0:
                if got != c.meta['ample']: fail(c, a, 'fold-tight-wrong', 'dmax %d: EOK with result %s, an ample destination gives %s' % (c.meta['dmax'], got and ['%04X' % x for x in got], ['%04X' % x for x in c.meta['ample']]))
                elif lenp != len(got): fail(c, a, 'fold-len', 'dmax %d: reported length %d but the result has %d characters' % (c.meta['dmax'], lenp, len(got)))
            elif rc != 406: fail(c, a, 'fold-rejected', 'dmax %d: returned %d (neither EOK nor ESNOSPC) for a valid string' % (c.meta['dmax'], rc))
            elif c.meta['dmax'] >= len(c.meta['ample']) + 5: fail(c, a, 'fold-rejected', 'dmax %d leaves the 4 spare elements the decomposition step asks for (result %d characters) but the call returned ESNOSPC' % (c.meta['dmax'], len(c.meta['ample'])))
            continue
        rep.count('wcsnorm_s/again/%s' % {0: 'NFD', 1: 'NFC'}[c.meta['mode']])
        if a is None: continue
        if a.fault != '-': fail(c, a, 'fault', 'faulted at %s' % a.fault); continue
        dest = fam_copy.dec(a.blocks[1], 4); got = dest[:dest.index(0)] if 0 in dest else None
        if int(a.ret) != 0 or got != c.meta['s']: fail(c, a, 'norm-idem', 'normalising a normalised string changed it: %s (returned %s)' % (got and ['%04X' % x for x in got], a.ret))
    report_proofs(rep, pr, 'C17')
    report_mismatches(rep, 'T1 (normalisation model vs wcsnorm_s)')
    rep.trusted = TRUSTED_COMMON + ['translator unitables: the lookup graphs are obtained by running the working tree\'s own _decomp_s, _combin_class, _composite_cp, isExclusion, iswfc and _towfc_s_chk on every code point 0..0x10FFFF (harness/dumpers/*.c, compiled against the working tree)',
                                    'reference graphs and the T1 oracle: Python unicodedata (UCD %s), restricted to code points assigned there; entries of the library for newer code points are outside the comparison' % ud.unidata_version,
                                    'the composition pass of the model is a transcription of _wcsnorm_compose_s_chk (not generated); T1 compares it with the implementation and with an independently written UAX #15 composition (uni_nfc_ref) on every case',
                                    'wcsfc_s is exercised (single characters) but its string-level special casing (final sigma, Lithuanian, Turkish) is not modelled']
    return rep.finish('T2: every code point 0..0x10FFFF through the library lookups (decomposition, class, composition lists, exclusions, iswfc/towfc_s) against UCD %s; T1: every table code point, Hangul syllables (%s), assigned code points (%s), every composing pair, its +0x10000 alias, Hangul L/V/T triples, blocked/unblocked three-character strings, random strings <= 12, long mark runs, out-of-range and surrogate values, x NFD/NFC x dmax minimal and ample, too-small dmax; second pass for idempotence'
                      % (ud.unidata_version, 'all' if tier == 'thorough' else 'every 23rd', 'all' if tier == 'thorough' else 'sample'),
                      'make -C /verif/coq Properties_C17.vo + harness/check.py C17')
REGISTRY['C17'] = check_C17

# ------------------------------------------------------------------------------------------------ C11
import decimal
class Dir:
    """one conversion directive + the arguments it consumes"""
    def __init__(self, flags, width, prec, length, conv, args, kinds):
        self.flags = flags; self.width = width; self.prec = prec; self.length = length; self.conv = conv; self.args = args; self.kinds = kinds
    def text(self):
        w = '' if self.width is None else ('*' if self.width == '*' else str(self.width))
        p = '' if self.prec is None else ('.' + ('' if self.prec == '' else ('*' if self.prec == '*' else str(self.prec))))
        return '%' + self.flags + w + p + self.length + self.conv
def c11_int_values(length, rng):
    base = {'hh': [0, 1, -1, 127, -128, 255, 65, 300, -129], 'h': [0, -1, 32767, -32768, 65535, 70000, 9],
            '': [0, 1, -1, 9, 10, 99, 100, 255, 256, 4660, 2**31 - 1, -2**31, 2**32 - 1, -2**31 + 1, 123456789],
            'l': [0, -1, 1, 2**63 - 1, -2**63, 2**64 - 1, 10**18, 2**32, -2**32, 255]}
    base['ll'] = base['z'] = base['j'] = base['t'] = base['l']
    return base[length]
def c11_gen_dir(rng, classes, boundary=False):
    cls = rng.choice(classes)
    flags = ''.join(f for f in '-+ #0' if rng.random() < 0.22)
    wopts = [None, None, 1, 3, 6, 12, '*'] + ([31, 32, 33, 40] if boundary else [])
    popts = [None, None, '', 0, 1, 3, 6, 12, '*'] + ([31, 32, 33, 40] if boundary else [])
    width = rng.choice(wopts); prec = rng.choice(popts)
    args = []; kinds = []
    if width == '*': args.append(rng.choice([0, 1, 5, 9, -7, -1])); kinds.append('i')
    if prec == '*': args.append(rng.choice([0, 1, 4, 9, -1])); kinds.append('i')
    if cls == 'int':
        conv = rng.choice('ddiuxXo'); length = rng.choice(['', '', '', 'hh', 'h', 'l', 'll', 'z', 'j', 't'])
        if length == 'z' and conv in 'di': pass
        args.append(rng.choice(c11_int_values(length, rng))); kinds.append('i')
    elif cls == 'char':
        conv = 'c'; length = ''; prec = None; flags = flags.replace('#', '').replace('0', '').replace('+', '').replace(' ', '')
        args = args[:1] if width == '*' else []; kinds = kinds[:len(args)]
        args.append(rng.choice([65, 97, 48, 126, 200, 255, 1, 256 + 66, 0, 0, 256])); kinds.append('i')
    elif cls == 'str':
        conv = 's'; length = ''; flags = flags.replace('#', '').replace('0', '').replace('+', '').replace(' ', '')
        args.append(rng.choice([b'', b'a', b'hello', b'x' * 40, 'héllo €'.encode(), b'abc def', b'%d'])); kinds.append('s')
    elif cls == 'pct':
        return Dir('', None, None, '', '%', [], [])
    elif cls == 'float':
        return rng.choice(C11_FLOAT_GRID)
    elif cls == 'wide':
        conv = rng.choice('cs'); length = 'l'; flags = flags.replace('#', '').replace('0', '').replace('+', '').replace(' ', '')
        if conv == 'c': prec = None; args = args[:1] if width == '*' else []; kinds = kinds[:len(args)]; args.append(rng.choice([65, 0xe9, 0x20ac, 0x10348])); kinds.append('i')
        else: args.append(('W', rng.choice([[], [0x61], [0x68, 0xe9, 0x20ac], [0x61] * 20]))); kinds.append('w')
    return Dir(flags, width, prec, length, conv, args, kinds)

C11_FLOAT_VALUES = [0.0, -0.0, 1.0, -1.0, 0.5, 2.5, 0.999, 0.9999996, -3.96, 123.456, 1e-5, 123456789.0, 999999999.9, 1e9, 1.5e9, 1e300, 5e-324,
                    float('inf'), float('-inf'), float('nan'), 3.141592653589793, 99.99, 1.9999996, 1e6, 999999.5, 0.1,
                    1e-150, 2.5e-200, 2.2250738585072014e-308, 7.25e-99, 3.5e-100, 1.25e99, 6.5e100]   # normal values around the two/three-digit exponent boundary
def c11_float_grid():
    g = []
    for conv in 'fFeEgG':
        for length in ('', 'L'):
            for flags in ('', '-', '+', ' ', '#', '0', '-+', '+0'):
                for width in (None, 12):
                    for prec in (None, 0, 3, 12):
                        for v in C11_FLOAT_VALUES:
                            g.append(Dir(flags, width, prec, length, conv, [('L', v) if length == 'L' else ('D', v)], ['f']))
    return g
C11_FLOAT_GRID = c11_float_grid()
def c11_float_key(d):
    v = d.args[-1][1]
    return '%s\t%s' % (d.text(), 'nan' if v != v else v.hex())
def c11_load_float_table():
    t = {}
    p = vlib.VERIF + '/known_float_cases.tsv'
    if os.path.exists(p):
        for l in open(p):
            f = l.rstrip('\n').split('\t')
            if len(f) >= 3: t[f[0] + '\t' + f[1]] = f[2]
    return t

def c11_formats(seed, tier):
    import random
    rng = random.Random(seed); out = []
    n = 1 if tier == 'quick' else 6
    # single directives, each class
    for _ in range(2500 * n): out.append(('single-int', [c11_gen_dir(rng, ['int'])]))
    for _ in range(500 * n): out.append(('single-int-boundary', [c11_gen_dir(rng, ['int'], True)]))
    for _ in range(300 * n): out.append(('single-str', [c11_gen_dir(rng, ['str', 'char'])]))
    for d in C11_FLOAT_GRID: out.append(('grid-float', [d]))
    for _ in range(120 * n): out.append(('single-wide', [c11_gen_dir(rng, ['wide'])]))
    # 0..4 directives with literal text
    lits = ['', '', ' ', 'x', ': ', 'abc', '/', '%%', 'v=', 'é']
    for _ in range(1500 * n):
        k = rng.randrange(0, 5); ds = []
        for j in range(k): ds.append(c11_gen_dir(rng, ['int', 'int', 'str', 'char', 'float', 'pct']))
        out.append(('multi-%d' % k, ds))
    res = []
    for cls, ds in out:
        parts = []
        for d in ds:
            parts.append(rng.choice(lits)); parts.append(d.text())
        parts.append(rng.choice(lits))
        if cls == 'grid-float' or (cls.startswith('single') and rng.random() < 0.7): parts = [ds[0].text()]
        fmt = ''.join(parts).encode()
        args = [a for d in ds for a in d.args]
        res.append((cls, fmt, args, ds))
    # invalid arguments / directives
    inv = [(b'%s', [None]), (b'a%sb', [None]), (b'%d %s', [5, None]), (b'%n', [0]), (b'ab%n', [0]), (b'%%%n', [0]), (b'%d%n', [1, 0]), (b'%q', [1]), (b'%', []), (b'abc%', []), (b'%5', []), (b'%Ld', [1]), (b'%y', [1]), (b'%hn', [0]), (b'%ln', [0])]
    for fmt, args in inv: res.append(('invalid', fmt, args, []))
    return res

def c11_case(i, func, fmt, args, dmax, rng, extra_blocks=None):
    blocks = [('R', fam_copy.garbage(rng, dmax)), ('R', fmt + b'\0')]; cargs = []
    for a in args:
        if a is None: cargs.append(None)
        elif isinstance(a, bytes): blocks.append(('R', a + b'\0')); cargs.append((len(blocks) - 1, 0))
        elif isinstance(a, tuple) and a[0] == 'W': blocks.append(('R', fam_copy.enc(a[1] + [0], 4))); cargs.append((len(blocks) - 1, 0))
        elif isinstance(a, tuple) and a[0] == 'D': cargs.append('F%016x' % struct.unpack('<Q', struct.pack('<d', a[1]))[0])
        elif isinstance(a, tuple) and a[0] == 'L':
            v = a[1]; cargs.append('G' + ('nan' if v != v else ('inf' if v == float('inf') else ('-inf' if v == float('-inf') else v.hex()))))
        else: cargs.append(a)
    if func == 'x:libc_snprintf': full = [(0, 0), dmax, (1, 0), 'V'] + cargs
    elif func in ('x:fprintf_s', 'x:vfprintf_s', 'x:printf_s', 'x:vprintf_s'): full = [(1, 0), 'V'] + cargs
    else: full = [(0, 0), dmax, UNK, (1, 0), 'V'] + cargs
    return vlib.Case('f%s' % i, func, blocks, full, {})

def c11_model_line(cid, func, slack, rmax, init, fmt, args):
    toks = []
    for a in args:
        if a is None: toks.append('N')
        elif isinstance(a, bytes): toks.append('S' + (a.hex() if a else '-'))
        elif isinstance(a, tuple): toks.append('S-')     # outside the model (the engine answers FUnmodelled before using it)
        else: toks.append('I%d' % a)
    return '%s %s %d %d %s %s %s' % (cid, func, 1 if slack else 0, rmax, init.hex() if init else '-', fmt.hex() if fmt else '-', ' '.join(toks))

def c11_float_ok(d, got, want):
    """a rendering in the requested layout within one unit of the last printed digit (got/want: bytes of this directive only are not separable: compare whole text shapes)"""
    import re
    g = got.decode('latin1'); w = want.decode('latin1')
    num = re.compile(r'[-+ ]?(?:\d+\.?\d*(?:[eE][-+]?\d+)?|inf|nan|INF|NAN)')
    gp = num.findall(g); wp = num.findall(w)
    if num.sub('#', g) != num.sub('#', w) or len(gp) != len(wp): return False
    for a, b in zip(gp, wp):
        if a == b: continue
        if len(a) != len(b): return False
        try:
            da = decimal.Decimal(a.strip()); db = decimal.Decimal(b.strip())
        except Exception: return False
        if da.is_nan() or db.is_nan() or da.is_infinite() or db.is_infinite(): return False
        ea = da.as_tuple().exponent; 
        if ea != db.as_tuple().exponent: return False
        if abs(da - db) > decimal.Decimal(1).scaleb(ea): return False
    return True

def check_C11(rep, scr, tier, seed):
    import random
    rng = random.Random(seed)
    impls, constsd, md = setup(rep, scr, ['O1', 'noslack'])
    pr = proofs(rep, scr, 'C11')
    formats = c11_formats(seed, tier)
    # phase 1: the C library's own rendering of every format (the reference)
    refcases = [c11_case(i, 'x:libc_snprintf', fmt, args, 4096, rng) for i, (cls, fmt, args, ds) in enumerate(formats)]
    cf = '%s/cases_c11ref.txt' % scr.dir
    with open(cf, 'w') as f:
        for c in refcases: f.write(c.line() + '\n')
    oref = vlib.run_impl(impls['O1'], cf, refcases, locale='C.UTF-8')
    ref = {}
    for i, c in enumerate(refcases):
        a = oref.get(c.id)
        if a is None or a.fault != '-': continue
        r = int(a.ret)
        if formats[i][0] == 'invalid' or r < 0: ref[i] = None
        else: ref[i] = a.blocks[0][:r]
    me = vlib.VERIF + '/build/model/fmt_engine'
    for var in ('O1', 'noslack'):
        consts = constsd[var]; slack = bool(consts['null_slack']); rmax = consts['rmax_str']
        cases = []; mlines = []; k = 0
        for i, (cls, fmt, args, ds) in enumerate(formats):
            text = ref.get(i); L = len(text) if text is not None else 8
            funcs = ['x:snprintf_s'] + [rng.choice(['x:sprintf_s', 'x:vsprintf_s', 'x:vsnprintf_s'])]
            if var == 'noslack': funcs = funcs[:1] if i % 3 else funcs
            if cls == 'grid-float':
                if var == 'noslack': continue
                funcs = funcs[:1]
            for func in funcs:
                dms = sorted(set([L + 1, L + 12] + ([1, max(L - 1, 1), max(L, 1), L + 2] if (i % 4 == 0 or cls == 'invalid') else [])))
                if var == 'noslack': dms = [rng.choice(dms)]
                if cls == 'grid-float': dms = [L + 12]
                for dmax in dms:
                    k += 1; c = c11_case('%s_%d' % (var, k), func, fmt, args, dmax, rng); c.id = 'f%s_%d' % (var, k)
                    c.meta = dict(cls=cls, i=i, func=func[2:], dmax=dmax, fmt=fmt.decode('latin1'), kind='buffer', convs=''.join(d.conv for d in ds), floats=any(d.conv in 'fFeEgGaA' for d in ds), wide=any(d.length == 'l' and d.conv in 'cs' for d in ds), ds=ds)
                    cases.append(c)
                    mlines.append(c11_model_line(c.id, 'vsprintf_s' if func == 'x:vsprintf_s' else 'vsnprintf_s', slack, rmax, c.blocks[0][1], fmt, args))
            if var == 'O1' and cls != 'grid-float' and (i % 5 == 0 or cls == 'invalid'):
                func = rng.choice(['x:fprintf_s', 'x:vfprintf_s', 'x:printf_s'])
                k += 1; c = c11_case(0, func, fmt, args, 1, rng); c.id = 'f%s_%d' % (var, k)
                c.meta = dict(cls=cls, i=i, func=func[2:], dmax=None, fmt=fmt.decode('latin1'), kind='stream', convs=''.join(d.conv for d in ds), floats=any(d.conv in 'fFeEgGaA' for d in ds), wide=any(d.length == 'l' and d.conv in 'cs' for d in ds), ds=ds)
                cases.append(c); mlines.append(c11_model_line(c.id, 'stream', slack, rmax, b'', fmt, args))
        cf = '%s/cases_c11_%s.txt' % (scr.dir, var)
        with open(cf, 'w') as f:
            for c in cases: f.write(c.line() + '\n')
        oi = vlib.run_impl(impls[var], cf, cases, locale='C.UTF-8')
        # the same calls in the opposite order: the text must not depend on earlier calls
        rcases = list(reversed(cases))
        cfr = '%s/cases_c11_%s_rev.txt' % (scr.dir, var)
        with open(cfr, 'w') as f:
            for c in rcases: f.write(c.line() + '\n')
        oir = vlib.run_impl(impls[var], cfr, rcases, locale='C.UTF-8')
        p = subprocess.run([me], input='\n'.join(mlines) + '\n', capture_output=True, text=True, timeout=900)
        om = {}
        for l in p.stdout.split('\n'):
            f = l.split()
            if f: om[f[0]] = dict(x.split('=', 1) for x in f[1:])
        for c in cases:
            a = oi.get(c.id); m = c.meta; text = ref.get(m['i']); b = om.get(c.id)
            rep.evals += 1; rep.count('%s/%s/%s/%s' % (m['func'], m['cls'], 'floats' if m['floats'] else ('wide' if m['wide'] else 'int-char-str'), var))
            if a is None: continue
            fails = []
            if a.fault != '-': fails.append(('fault', 'faulted at %s' % a.fault))
            else:
                r = int(a.ret)
                ar = oir.get(c.id)
                if ar is not None and (ar.ret, ar.blocks[0] if m['kind'] == 'buffer' else ar.raw.split(' out=')[-1]) != (a.ret, a.blocks[0] if m['kind'] == 'buffer' else a.raw.split(' out=')[-1]):
                    fails.append(('order-dependent', 'the result depends on the calls made before it'))
                if m['kind'] == 'buffer':
                    dest = a.blocks[0]; dmax = m['dmax']
                    stored = dest[:dest.index(0)] if 0 in dest else None
                    # a text with NUL characters in it (%c of 0) is delimited by the returned count, not by the first NUL
                    if stored is not None and text is not None and 0 in text and 0 <= r < len(dest) and dest[r] == 0: stored = dest[:r]
                    rep.nontrivial.add((m['func'], m['convs'], r < 0, var))
                    if r >= 0:
                        if stored is None: fails.append(('unterminated', 'non-negative return but dest is not terminated'))
                        else:
                            if text is None: fails.append(('invalid-accepted', 'an invalid directive or argument was accepted (returned %d, "%s")' % (r, stored.decode('latin1'))))
                            else:
                                if r != len(stored): fails.append(('count-wrong', 'returned %d but %d characters are stored' % (r, len(stored))))
                                if stored != text:
                                    if m['floats'] and len(stored) == len(text) and c11_float_ok(None, stored, text): rep.count('float within one unit of the last digit')
                                    elif len(text) >= dmax: fails.append(('nofit-success', 'the text needs %d characters, dmax is %d, but the call returned %d with "%s"' % (len(text), dmax, r, stored.decode('latin1')[:60])))
                                    else: fails.append(('text-differs', 'stored "%s", C printf gives "%s"' % (stored.decode('latin1')[:80], text.decode('latin1')[:80])))
                    else:
                        if text is not None and len(text) < dmax: fails.append(('fits-but-failed', 'the text "%s" (%d characters) fits dmax %d but the call returned %d' % (text.decode('latin1')[:60], len(text), dmax, r)))
                else:
                    out = a.raw.split(' out=')[-1].strip(); out = b'' if out == '-' else bytes.fromhex(out)
                    rep.nontrivial.add((m['func'], m['convs'], r < 0, 'stream'))
                    if r >= 0:
                        if text is None: fails.append(('invalid-accepted', 'an invalid directive or argument was accepted by the stream variant (returned %d)' % r))
                        elif out != text:
                            if m['floats'] and len(out) == len(text) and c11_float_ok(None, out, text): rep.count('float within one unit of the last digit')
                            else: fails.append(('stream-differs', 'the stream received "%s", C printf gives "%s"' % (out.decode('latin1')[:80], text.decode('latin1')[:80])))
                        elif r != len(out): fails.append(('count-wrong', 'returned %d but %d characters were written' % (r, len(out))))
                    elif text is not None: fails.append(('fits-but-failed', 'stream variant returned %d for a valid call' % r))
            for kind, t in fails:
                c.meta['text'] = text
                kid = known.classify(rep, c, a, kind, var, consts)
                if os.environ.get('VERIF_C11_DUMP'):
                    with open(os.environ['VERIF_C11_DUMP'], 'a') as df: df.write('%s\t%s\t%s\t%s\t%s\t%s\t%s\n' % (kid, kind, m['func'], m['fmt'], m['dmax'], var, t))
                if kid: rep.known_hits[kid] = rep.known_hits.get(kid, 0) + 1
                else: rep.violation('%s("%s", dmax %s; %s): %s' % (m['func'], m['fmt'], m['dmax'], var, t), {'key': (kind, m['convs'][:1], m['kind']), 'property': 'C11', 'function': m['func'], 'format': m['fmt'], 'failure': kind,
                                    'case': c.to_json(), 'case_line': c.line(), 'impl_outcome': a.raw[:600], 'c_printf': text.decode('latin1') if text is not None else None, 'what': t})
            # correspondence with the engine model
            if b is not None and b.get('known') == '1' and a.fault == '-':
                if m['kind'] == 'buffer':
                    hs = ','.join(str(h[1]) for h in a.handlers) or '-'
                    mine = (a.ret, a.blocks[0].hex() if a.blocks[0] else '-', hs)
                    theirs = (b['ret'], b['dest'], b['h'])
                else:
                    out = a.raw.split(' out=')[-1].strip()
                    mine = (a.ret, out) if int(a.ret) >= 0 else (a.ret,)
                    theirs = (b['ret'], b['out']) if int(b['ret']) >= 0 else (b['ret'],)
                rep.count('model-compared/%s' % var)
                if mine != theirs: rep.mismatches.append((c, a, vlib.Outcome('%s ret=%s model=%s' % (c.id, b['ret'], ';'.join('%s:%s' % kv for kv in sorted(b.items())))), var))
    report_proofs(rep, pr, 'C11')
    report_mismatches(rep, 'T1 (printf engine model vs implementation)')
    rep.trusted = TRUSTED_COMMON + ['reference: the C library\'s own snprintf, called in the driver process with the same arguments (libffi builds the variadic call)',
                                    'the engine model (FmtEngine.v) is a transcription of safec_vsnprintf_s for literal, %%, integer, %c and %s directives; floating conversions, %lc/%ls and %p are compared with the reference only',
                                    'floating conversions: equal text, or same layout and every number within one unit of its last printed digit (Python decimal)']
    return rep.finish('formats from the directive grammar (flags x width x precision x length x conversion, 0..4 directives with literal text, * width/precision incl. negative), argument values incl. 0, -1, type minima/maxima, +-0.0, denormals, the 1e9 boundary, 1e300, inf, nan, rounding roll-over values, empty/long/multibyte strings, wide characters and strings; dmax from 1 to beyond the needed size; the four buffer entry points and the four stream entry points; every call also replayed in the opposite order',
                      'make -C /verif/coq Properties_C11.vo + harness/check.py C11')
REGISTRY['C11'] = check_C11

# ------------------------------------------------------------------------------------------------ C10
def _sgn(x): return (x > 0) - (x < 0)
def _cmp(a, b): return _sgn((a > b) - (a < b))
C10_MODELLED = ['strcmp_s', 'strcasecmp_s', 'memcmp_s', 'strchr_s', 'strrchr_s', 'memchr_s', 'memrchr_s', 'strspn_s', 'strcspn_s', 'strpbrk_s',
                'strprefix_s', 'strfirstdiff_s', 'strfirstsame_s', 'wcsnlen_s']
def c10_cases(seed, tier):
    """(func, blocks, args, meta) ; block 0 = result cell (8 bytes), block 1 = dest, block 2 = src"""
    import random, itertools
    rng = random.Random(seed); cs = []; n = [0]
    alpha = [0x61, 0x62, 0x41, 0x42, 0x30, 0x20, 0x80, 0xe9, 0xff, 0x7a, 0x5f, 0x5b]     # incl. '_' and '[' (between 'Z' and 'a': case folding direction matters)
    maxlen = 4 if tier == 'quick' else 5
    small = [0x61, 0x62, 0x41, 0xe9]
    strs = [list(t) for k in range(0, maxlen + 1) for t in itertools.product(small, repeat=k)]
    if tier == 'quick': strs = [s for s in strs if len(s) <= 2] + rng.sample([s for s in strs if len(s) > 2], 40)
    extra = [[rng.choice(alpha) for _ in range(rng.randrange(1, 13))] for _ in range(60 if tier == 'quick' else 400)]
    strs += extra
    res8 = b'\xee' * 8
    def add(func, dest, src, args, **meta):
        n[0] += 1
        blocks = [('R', res8), ('R', bytes(dest))] + ([('R', bytes(src))] if src is not None else [])
        meta.update(func=func, cls=meta.get('cls', 'query'))
        cs.append(vlib.Case('q%d' % n[0], func, blocks, args, meta))
    def dmaxes(l): return sorted(set(d for d in (1, l - 1, l, l + 1, l + 3) if d >= 1))
    pairs = []
    for d in strs:
        # partners: equal, differing at one place, prefix, longer, case variant
        cand = [list(d), list(d) + [0x61], list(d[:-1]) if d else [0x61], [c ^ 0x20 if 0x41 <= c <= 0x7a else c for c in d]]
        if d:
            j = rng.randrange(len(d)); e = list(d); e[j] = rng.choice(alpha); cand.append(e)
            e = list(d); e[-1] = rng.choice(alpha); cand.append(e)
        cand.append(rng.choice(strs))
        for s in cand[: (4 if tier == 'quick' else 7)]: pairs.append((d, s))
    # characters between 'Z' and 'a' against letters of either case: the sign depends on the direction of the case folding
    for x in (0x5b, 0x5c, 0x5d, 0x5e, 0x5f, 0x60):
        for y in (0x41, 0x5a, 0x61, 0x7a):
            pairs += [([x], [y]), ([y], [x]), ([0x61, x], [0x41, y]), ([0x42, y, 0x63], [0x62, x])]
    for d, s in pairs:
        D = d + [0] + [0x61, 0x7a, 0]      # bytes after the terminator are part of the object, not of the string
        S = s + [0]
        for dmax in dmaxes(len(d)):
            for f in ('strcmp_s', 'strcasecmp_s'):
                add(f, D, S, [(1, 0), dmax, (2, 0), (0, 0), UNK] + ([UNK] if f == 'strcmp_s' else []), d=d, s=s, dmax=dmax)
            for f in ('strfirstdiff_s', 'strfirstsame_s', 'strlastdiff_s', 'strlastsame_s'):
                add(f, D, S, [(1, 0), dmax, (2, 0), (0, 0), UNK], d=d, s=s, dmax=dmax)
            add('strprefix_s', D, S, [(1, 0), dmax, (2, 0), UNK], d=d, s=s, dmax=dmax)
            for slen in sorted(set([max(len(s), 1), len(s) + 2] + ([len(s) - 1] if len(s) > 1 else []))):
                for f in ('strspn_s', 'strcspn_s', 'strpbrk_s', 'strstr_s', 'strcasestr_s'):
                    add(f, D, S, [(1, 0), dmax, (2, 0), slen, (0, 0), UNK, UNK], d=d, s=s, dmax=dmax, slen=slen)
    # searches: every haystack over {a,b} (a third letter at one end in thorough) against every short needle: partial matches that
    # overlap the real occurrence ("aab" in "aaab"), matches ending exactly at dmax, needles longer than the rest
    hl, nl = (6, 3) if tier == 'quick' else (8, 4)
    for k in range(1, hl + 1):
        for hay in itertools.product((0x61, 0x62), repeat=k):
            for j in range(1, nl + 1):
                for nee in itertools.product((0x61, 0x62), repeat=j):
                    d = list(hay); sx = list(nee); D = d + [0] + [0x61, 0x62, 0]; S = sx + [0]
                    for dmax in (len(d) + 1, len(d)):
                        for f in ('strstr_s', 'strcasestr_s'):
                            add(f, D, S, [(1, 0), dmax, (2, 0), len(sx), (0, 0), UNK, UNK], d=d, s=sx, dmax=dmax, slen=len(sx), cls='search')
                    add('wcsstr_s', fam_copy.enc(d + [0, 0x61, 0], 4), fam_copy.enc(sx + [0], 4), [(1, 0), len(d) + 1, (2, 0), len(sx), (0, 0), UNK, UNK], d=d, s=sx, dmax=len(d) + 1, slen=len(sx), cls='search')
    # object size of src known to the library and smaller than slen: a constraint violation; the operands must stay as they are
    for d, s in pairs[:60]:
        if len(s) < 2 or not d: continue
        D = d + [0]; S = s + [0]
        for f in ('strspn_s', 'strcspn_s', 'strpbrk_s', 'strstr_s', 'strcasestr_s'):
            add(f, D, S, [(1, 0), len(D), (2, 0), len(s), (0, 0), len(D), len(s) - 1], d=d, s=s, dmax=len(D), slen=len(s), cls='src-bos-small', noref=True)
    for d in strs:
        D = d + [0] + [0x61, 0x7a, 0]
        for dmax in dmaxes(len(d)):
            for ch in sorted(set([0, 0x61, 0x41, 0xe9, 0x7a] + d[:2] + d[-1:])):
                for f in ('strchr_s', 'strrchr_s', 'strfirstchar_s', 'strlastchar_s'):
                    if f in ('strfirstchar_s', 'strlastchar_s') and ch == 0: continue
                    add(f, D, None, [(1, 0), dmax, ch, (0, 0), UNK], d=d, ch=ch, dmax=dmax)
                if dmax <= len(D):
                    for f in ('memchr_s', 'memrchr_s'):
                        add(f, D, None, [(1, 0), dmax, ch, (0, 0), UNK], d=d, D=D, ch=ch, dmax=dmax)
            for f in ('strisalphanumeric_s', 'strisascii_s', 'strisdigit_s', 'strishex_s', 'strislowercase_s', 'strismixedcase_s', 'strisuppercase_s'):
                add(f, D, None, [(1, 0), dmax, UNK], d=d, dmax=dmax)
    # classification strings
    for d in ([0x61, 0x62], [0x41, 0x5a], [0x30, 0x39], [0x61, 0x31], [0x61, 0x41], [0x66, 0x46, 0x39], [0x67], [0x7f], [0x80], [0x20], [0x61, 0x20], [0x2d]):
        D = d + [0]
        for dmax in dmaxes(len(d)):
            for f in ('strisalphanumeric_s', 'strisascii_s', 'strisdigit_s', 'strishex_s', 'strislowercase_s', 'strismixedcase_s', 'strisuppercase_s'):
                add(f, D, None, [(1, 0), dmax, UNK], d=d, dmax=dmax)
    # the character classes are functions of one byte: every byte value, alone and behind a character every class but one accepts
    for bv in range(1, 256):
        for d in ([bv], [0x31, bv]) if tier == 'quick' else ([bv], [0x31, bv], [bv, 0x41], [0x61, bv, 0x46]):
            D = d + [0]
            for f in ('strisalphanumeric_s', 'strisascii_s', 'strisdigit_s', 'strishex_s', 'strislowercase_s', 'strismixedcase_s', 'strisuppercase_s'):
                add(f, D, None, [(1, 0), len(D), UNK], d=d, dmax=len(D))
    # memory comparisons: byte / 16 / 32 bit / wide
    for _ in range(250 if tier == 'quick' else 1500):
        ln = rng.randrange(1, 20); a = [rng.choice(alpha) for _ in range(ln)]; b = list(a)
        for k in range(rng.randrange(0, 3)):
            b[rng.randrange(ln)] = rng.choice(alpha)
        if rng.random() < 0.3 and ln >= 9:      # two differences with opposite directions inside one 8-byte word
            w = rng.randrange(0, ln - 8 + 1) // 8 * 8
            if w + 8 <= ln: b[w + 1] = (a[w + 1] + 1) % 256; b[w + 6] = (a[w + 6] - 1) % 256
        for slen in sorted(set([ln, max(ln - 1, 1), 1])):
            add('memcmp_s', a, b, [(1, 0), ln, (2, 0), slen, (0, 0), UNK, UNK], a=a, b=b, dmax=ln, slen=slen, unit=1)
        for f, unit in (('memcmp16_s', 2), ('memcmp32_s', 4), ('wmemcmp_s', 4)):
            k = ln // unit
            if k >= 1:
                for slen in sorted(set([k, max(k - 1, 1)])):
                    add(f, a[:k * unit], b[:k * unit], [(1, 0), k, (2, 0), slen, (0, 0), UNK, UNK], a=a[:k * unit], b=b[:k * unit], dmax=k, slen=slen, unit=unit)
    # wide strings
    wal = [0x61, 0x62, 0xe9, 0x20ac, 0x10348, 0x7fffffff, 0x80000000]
    for _ in range(150 if tier == 'quick' else 800):
        d = [rng.choice(wal[:5] if rng.random() < 0.8 else wal) for _ in range(rng.randrange(0, 7))]; s = list(d)
        if s and rng.random() < 0.6: s[rng.randrange(len(s))] = rng.choice(wal)
        if rng.random() < 0.3: s = s[:-1] if s else [0x61]
        D = fam_copy.enc(d + [0, 0x61, 0], 4); S = fam_copy.enc(s + [0], 4)
        for dmax in dmaxes(len(d)):
            add('wcsnlen_s', D, None, [(1, 0), dmax, UNK], d=d, dmax=dmax)
            for smax in sorted(set([len(s) + 1, max(len(s), 1)])):
                add('wcscmp_s', D, S, [(1, 0), dmax, (2, 0), smax, (0, 0), UNK, UNK], d=d, s=s, dmax=dmax, smax=smax)
                add('wcsncmp_s', D, S, [(1, 0), dmax, (2, 0), smax, rng.randrange(1, 8), (0, 0), UNK, UNK], d=d, s=s, dmax=dmax, smax=smax)
            add('wcsstr_s', D, S, [(1, 0), dmax, (2, 0), max(len(s), 1), (0, 0), UNK, UNK], d=d, s=s, dmax=dmax, slen=max(len(s), 1))
    return cs

def c10_reference(c):
    """expected (return code or None = any, result) per the standard counterpart restricted to the first dmax elements; None = no expectation"""
    m = c.meta; f = c.func
    if m.get('noref'): return None
    EOK, NOTFND, NODIFF = 0, 409, 408
    if f in ('memcmp_s', 'memcmp16_s', 'memcmp32_s', 'wmemcmp_s'):
        u = m['unit']; a = fam_copy.dec(bytes(m['a']), u)[:m['slen']]; b = fam_copy.dec(bytes(m['b']), u)[:m['slen']]
        if f == 'wmemcmp_s': a = [x - (1 << 32) if x >= 1 << 31 else x for x in a]; b = [x - (1 << 32) if x >= 1 << 31 else x for x in b]
        return (EOK, ('sign', _cmp(a, b)))
    d = m['d']; dmax = m['dmax']; dw = d[:dmax]       # the part of the string inside the window
    if f == 'wcsnlen_s': return (min(len(d), dmax), None)
    if f in ('strcmp_s', 'strcasecmp_s', 'wcscmp_s', 'wcsncmp_s'):
        # the standard function within the first n elements of both operands = strncmp / wcsncmp with that n
        s = m['s']; n = dmax
        if f in ('wcscmp_s', 'wcsncmp_s'):
            n = min(n, m['smax'])
            if f == 'wcsncmp_s': n = min(n, c.args[4])
            sg = lambda l: [x - (1 << 32) if x >= 1 << 31 else x for x in l]
            return (EOK, ('sign', _cmp(sg(d[:n]), sg(s[:n]))))
        if f == 'strcasecmp_s':
            lo = lambda l: [x + 32 if 0x41 <= x <= 0x5a else x for x in l]     # POSIX strcasecmp: as if both were converted to lower case
            return (EOK, ('sign', _cmp(lo(d[:n]), lo(s[:n]))))
        return (EOK, ('sign', _cmp(d[:n], s[:n])))
    if f in ('strchr_s', 'strrchr_s', 'strfirstchar_s', 'strlastchar_s'):
        ch = m['ch'] & 0xff
        if f == 'strrchr_s' and not d: return None          # documented constraint: dest must not be empty
        hay = (d + [0])[:dmax] if f in ('strchr_s', 'strrchr_s') else dw
        idx = [i for i, x in enumerate(hay) if x == ch]
        if not idx: return (NOTFND, ('ptr', None))
        return (EOK, ('ptr', idx[0] if f in ('strchr_s', 'strfirstchar_s') else idx[-1]))
    if f in ('memchr_s', 'memrchr_s'):
        hay = m['D'][:dmax]; ch = m['ch'] & 0xff
        idx = [i for i, x in enumerate(hay) if x == ch]
        if not idx: return (NOTFND, ('ptr', None))
        return (EOK, ('ptr', idx[0] if f == 'memchr_s' else idx[-1]))
    if f in ('strspn_s', 'strcspn_s', 'strpbrk_s'):
        st = set(m['s'][:m['slen']])
        if f == 'strpbrk_s':
            idx = [i for i, x in enumerate(dw) if x in st]
            return (EOK, ('ptr', idx[0])) if idx else (NOTFND, ('ptr', None))
        k = 0
        for x in dw:
            if (x in st) == (f == 'strspn_s'): k += 1
            else: break
        return (EOK, ('count', k))
    if f in ('strstr_s', 'strcasestr_s', 'wcsstr_s'):
        s = m['s'][:m['slen']]
        if not s: return None
        if f == 'strcasestr_s' and m['slen'] > dmax: return None   # documented constraint of strcasestr_s
        a, b = dw, s
        if f == 'strcasestr_s':
            up = lambda l: [x - 32 if 0x61 <= x <= 0x7a else x for x in l]; a, b = up(a), up(b)
        for i in range(0, len(a) - len(b) + 1):
            if a[i:i + len(b)] == b: return (EOK, ('ptr', i))
        return (NOTFND, ('ptr', None))
    if f == 'strprefix_s':
        s = m['s']
        if not s: return None
        k = min(len(s), dmax)                # what can be decided inside the window
        return (EOK if d[:k] == s[:k] else NOTFND, None)
    if f in ('strfirstdiff_s', 'strfirstsame_s', 'strlastdiff_s', 'strlastsame_s'):
        s = m['s']; k = min(len(dw), len(s))
        want_same = f.endswith('same_s')
        idx = [i for i in range(k) if (dw[i] == s[i]) == want_same]
        if not idx: return (NOTFND if want_same else NODIFF, None)
        return (EOK, ('count', idx[0] if 'first' in f else idx[-1]))
    if f.startswith('stris'):
        if not dw: return None
        pred = {'strisalphanumeric_s': lambda x: chr(x).isalnum() and x < 128, 'strisascii_s': lambda x: x < 128, 'strisdigit_s': lambda x: 0x30 <= x <= 0x39,
                'strishex_s': lambda x: chr(x) in '0123456789abcdefABCDEF', 'strislowercase_s': lambda x: 0x61 <= x <= 0x7a, 'strisuppercase_s': lambda x: 0x41 <= x <= 0x5a,
                'strismixedcase_s': lambda x: 0x41 <= x <= 0x5a or 0x61 <= x <= 0x7a}[f]
        return (1 if all(pred(x) for x in dw) else 0, None)
    return None

def check_C10(rep, scr, tier, seed):
    impls, constsd, md = setup(rep, scr, ['O1'])
    pr = proofs(rep, scr, 'C10')
    consts = constsd['O1']
    cases = c10_cases(seed, tier)
    cf = '%s/cases_c10.txt' % scr.dir
    with open(cf, 'w') as f:
        for c in cases: f.write(c.line() + '\n')
    oi = vlib.run_impl(impls['O1'], cf, cases)
    mcases = [c for c in cases if c.func in C10_MODELLED]
    cfm = '%s/cases_c10m.txt' % scr.dir
    with open(cfm, 'w') as f:
        for c in mcases: f.write(c.line() + '\n')
    om = vlib.run_model(md, vlib.model_args(consts), cfm)
    for c in cases:
        a = oi.get(c.id); m = c.meta; f = c.func
        rep.evals += 1; rep.count('%s/%s' % (f, 'dmax<len' if m.get('d') is not None and m['dmax'] < len(m['d']) else ('dmax=len' if m.get('d') is not None and m['dmax'] == len(m['d']) else 'dmax>len')))
        if a is None: continue
        fails = []
        if a.fault != '-': fails.append(('fault', 'faulted at %s' % a.fault))
        else:
            for bi in range(1, len(c.blocks)):
                if a.blocks[bi] != c.blocks[bi][1]: fails.append(('operand-modified', 'operand block %d was modified' % bi))
            exp = c10_reference(c)
            if exp is not None:
                rc = int(a.ret); erc, eres = exp
                rep.nontrivial.add((f, rc, str(eres)[:12]))
                if f == 'wcsnlen_s' or f.startswith('stris'):
                    if rc != erc: fails.append(('wrong-answer', 'returned %d, the reference gives %d' % (rc, erc)))
                else:
                    if rc != erc and not (rc in (408, 409) and erc in (408, 409)): fails.append(('wrong-code', 'returned %d, the reference gives %d' % (rc, erc)))
                    elif eres is not None and rc == 0:
                        kind, val = eres; cell = a.blocks[0]
                        if kind == 'sign':
                            got = int.from_bytes(cell[:4], 'little', signed=True)
                            if _sgn(got) != val: fails.append(('wrong-sign', 'result %d, the standard function gives sign %d' % (got, val)))
                        elif kind == 'count':
                            got = int.from_bytes(cell[:8], 'little')
                            if got != val: fails.append(('wrong-count', 'result %d, the reference gives %d' % (got, val)))
                        elif kind == 'ptr':
                            got = int.from_bytes(cell[:8], 'little'); base = block_addr(1, 'R', len(c.blocks[1][1]))
                            unit = 4 if f == 'wcsstr_s' else 1
                            if val is None: pass
                            elif got != base + val * unit: fails.append(('wrong-position', 'found at index %s, the standard function finds index %d' % ((got - base) // unit if got else None, val)))
        for kind, t in fails:
            kid = known.classify(rep, c, a, kind, 'O1', consts)
            if os.environ.get('VERIF_DUMP'):
                with open(os.environ['VERIF_DUMP'], 'a') as df: df.write('%s\t%s\t%s\t%s\t%s\n' % (kid, f, kind, {k: v for k, v in m.items() if k not in ('func', 'cls')}, t))
            if kid: rep.known_hits[kid] = rep.known_hits.get(kid, 0) + 1
            else: rep.violation('%s(dest=%s, dmax=%s%s): %s' % (f, m.get('d', m.get('a')), m.get('dmax'), ', src=%s' % m['s'] if 's' in m else (', ch=%s' % m['ch'] if 'ch' in m else ''), t),
                                {'key': (f, kind), 'property': 'C10', 'function': f, 'failure': kind, 'case': c.to_json(), 'case_line': c.line(), 'impl_outcome': a.raw, 'what': t})
        b = om.get(c.id) if f in C10_MODELLED else None
        if b is not None and a.fault == '-' and (a.ret, a.blocks, a.handlers) != (b.ret, b.blocks, b.handlers): rep.mismatches.append((c, a, b, 'O1'))
    # bsearch_s (shared with C16): sorted arrays, every key from below the minimum to above the maximum; in the 'tail' cases the object
    # continues behind the nmemb declared elements with larger, still sorted elements (a search window that creeps past nmemb finds them)
    import random
    rng = random.Random(seed * 23 + 2); bc = []; n = 0
    def key4(v, size): k = min(size, 4); return v.to_bytes(k, 'big') + bytes(rng.randrange(256) for _ in range(size - k))
    for size in (1, 4, 7):
        for nm in range(0, 17 if tier == 'quick' else 33):
            for tail in (0, 4):
                allv = sorted(rng.randrange(0, 12) * 2 + 1 for _ in range(nm + tail))
                vals = allv[:nm]
                data = b''.join(key4(v, size) for v in allv) or b'\0'
                for kv in sorted(set(list(range(0, 26, 3)) + allv[nm:] + vals[-2:] + vals[:1])):
                    n += 1
                    bc.append(vlib.Case('bs%d' % n, 'bsearch_s', [('R', key4(kv, size)), ('L' if tail else 'R', data)], [(0, 0), (1, 0), nm, size, UNK],
                                        {'cls': 'bsearch', 'nmemb': nm, 'size': size, 'vals': vals, 'key': kv, 'tail': tail, 'func': 'bsearch_s'}))
    cfb = '%s/cases_c10b.txt' % scr.dir
    with open(cfb, 'w') as f:
        for x in bc: f.write(x.line() + '\n')
    oib = vlib.run_impl(impls['O1'], cfb, bc); omb = vlib.run_model(md, vlib.model_args(consts), cfb)
    for x in bc:
        a = oib.get(x.id); m = x.meta
        rep.evals += 1; rep.count('bsearch_s/size=%d/tail=%d' % (m['size'], m['tail']))
        if a is None: continue
        fails = []; size, nm = m['size'], m['nmemb']
        if a.fault != '-': fails.append(('fault', 'access outside nmemb*size bytes: fault at %s' % a.fault))
        else:
            rv, bad = a.ret.split(',') if ',' in a.ret else (a.ret, '0')
            rep.nontrivial.add(('bsearch_s', size, nm, rv == 'N'))
            if bad != '0': fails.append(('comparator-args', 'the comparator was called with %s' % ('a foreign context' if int(bad) & 1 else 'a pointer that is not one of the nmemb elements / the key')))
            present = m['key'] in m['vals']
            if rv == 'N':
                if present and nm > 0: fails.append(('not-found', 'key %d is among the first %d elements %s but NULL was returned' % (m['key'], nm, m['vals'])))
            else:
                blk, off = (rv[1:].split(':') + ['-1'])[:2] if rv.startswith('P') else ('?', '-1'); off = int(off)
                if blk != '1' or off < 0 or off % size or off // size >= nm or m['vals'][off // size] != m['key']:
                    fails.append(('wrong-element', 'returned %s, bsearch over the first %d elements gives %s' % (rv, nm, 'an element equal to the key' if present else 'NULL')))
            b = omb.get(x.id)
            if not fails and b is not None and (rv, a.handlers) != (b.ret, b.handlers): rep.mismatches.append((x, a, b, 'O1'))
        for kind, text in fails:
            rep.violation('bsearch_s(nmemb=%d, size=%d, key=%d): %s' % (nm, size, m['key'], text), {'key': ('bsearch_s', kind), 'property': 'C10', 'function': 'bsearch_s', 'failure': kind, 'case': x.to_json(), 'case_line': x.line(), 'impl_outcome': a.raw, 'what': text})
    report_proofs(rep, pr, 'C10')
    report_mismatches(rep, 'T1 (query function models vs implementation)')
    rep.trusted = TRUSTED_COMMON + ['references of the oracle: Python re-implementations of strcmp/strcasecmp/memcmp/strchr/strrchr/strpbrk/strspn/strcspn/strstr/memchr/memrchr/wcscmp/wcsnlen restricted to the first dmax elements (harness/props.py c10_reference)',
                                    'libc calls inside the modelled functions (strchr, memchr, memrchr, toupper in the C locale) are modelled as byte scans',
                                    'modelled in Coq: %s; the other query functions are compared with the reference only (a test, not a proof)' % ', '.join(C10_MODELLED)]
    return rep.finish('all strings of length 0..%d over {a, b, A, 0xe9} (sampled above 2 in the quick tier) plus random strings over an alphabet with high-bit bytes, case pairs, digits and blanks; partners: equal, one difference, prefix, longer, case variant; dmax in {1, len-1, len, len+1, len+3}; slen at/below/above the set length; memory comparisons with two opposite differences inside one 8-byte word; wide strings incl. values above 2^31' % (4 if tier == 'quick' else 5),
                      'make -C /verif/coq Properties_C10.vo + harness/check.py C10')
REGISTRY['C10'] = check_C10
