#!/usr/bin/env python3
"""props.py -- per-property check drivers."""
import os, json, time
import vlib, fam_copy, known
from vlib import Report, BOS_UNKNOWN

TRUSTED_COMMON = [
    'Coq 8.16.1 kernel and vm_compute (no native_compute)',
    'extraction with ExtrOcamlBasic only (no Extract Constant); OCaml reader/printer harness/model_driver.ml',
    'harness/impl_driver.c (block placement, guard pages, signal capture, handler log), gcc, Linux page protection',
    'translator consts (C dumper compiled against the working tree headers) -> Gen/Consts.v',
    'libc memset/memmove modelled as Fill/Move primitives (modelled, not verified)',
    'correspondence = differential run of the extracted models against the freshly compiled working tree on generated cases (bounded)',
]

def setup(rep, scr, variants):
    """compile implementation variants, regenerate Gen/Consts.v, build model driver"""
    impls = {v: vlib.build_impl(scr, v) for v in variants}
    consts = {v: vlib.consts(scr, impls[v]) for v in variants}
    first = variants[0]
    vlib.write_gen_consts(consts[first])
    md = vlib.build_model()
    return impls, consts, md

def proofs(rep, scr, pid):
    pr = vlib.compile_properties(pid, scr)
    rep.obligations = len(pr['theorems'])
    rep.discharged = len(pr['theorems']) if pr['ok'] else 0
    rep.extra['theorems'] = pr['theorems']
    rep.extra['print_assumptions'] = pr['assumptions'][:60]
    return pr

def run_cases(rep, scr, impl_dir, md, consts, cases, tag, locale=None):
    cf = '%s/cases_%s.txt' % (scr.dir, tag)
    with open(cf, 'w') as f:
        for c in cases: f.write(c.line() + '\n')
    oi = vlib.run_impl(impl_dir, cf, cases, locale=locale)
    om = vlib.run_model(md, vlib.model_args(consts), cf)
    return oi, om

def judge(rep, cases, oi, om, consts, cfgname, oracle, projection, describe):
    """oracle(case, impl_outcome) -> failures ; projection(case, outcome) -> comparable value"""
    for c in cases:
        a = oi.get(c.id); b = om.get(c.id)
        rep.evals += 1
        rep.count('%s/%s/%s' % (c.func, c.meta.get('cls'), cfgname))
        if a is None or b is None:
            rep.violation('driver produced no outcome for a case', {'key': 'nooutcome', 'case': c.to_json(), 'no_failing_input': True})
            continue
        fails = oracle(c, a)
        key = (c.func, c.meta.get('cls'), a.ret, tuple(a.handlers), cfgname)
        rep.nontrivial.add(key)
        if len(rep.samples) < 6 and rep.evals % 997 == 1:
            rep.samples.append({'case': c.line()[:300], 'impl': a.raw[:300], 'model': b.raw[:300], 'cfg': cfgname})
        if fails:
            for kind, text in fails:
                kid = known.classify(rep, c, a, kind, cfgname, consts)
                if kid:
                    rep.known_hits[kid] = rep.known_hits.get(kid, 0) + 1
                else:
                    rep.violation('%s(%s): %s' % (c.func, cfgname, text),
                                  {'key': (c.func, kind, cfgname), 'property': rep.pid, 'function': c.func, 'config': cfgname,
                                   'failure': kind, 'text': text, 'case': c.to_json(), 'case_line': c.line(),
                                   'impl_outcome': a.raw, 'model_outcome': b.raw,
                                   'replay_cmd': 'python3 /verif/harness/check.py replay <this file>'})
        else:
            pa = projection(c, a); pb = projection(c, b)
            if pa != pb:
                kid = known.classify(rep, c, a, 'model-mismatch', cfgname, consts)
                if kid:
                    rep.known_hits[kid] = rep.known_hits.get(kid, 0) + 1
                else:
                    rep.mismatches.append((c, a, b, cfgname))

def report_mismatches(rep, what_corr):
    """correspondence broken without a property failure found"""
    seen = set()
    for c, a, b, cfgname in rep.mismatches:
        k = (c.func, cfgname)
        if k in seen: continue
        seen.add(k)
        rep.violation('%s(%s): model and implementation disagree under the %s projection; no input violating the property was found'
                      % (c.func, cfgname, rep.pid),
                      {'key': ('mismatch',) + k, 'property': rep.pid, 'function': c.func, 'config': cfgname,
                       'no_failing_input': True, 'broken': 'correspondence %s (model of %s vs implementation)' % (what_corr, c.func),
                       'case': c.to_json(), 'case_line': c.line(), 'impl_outcome': a.raw, 'model_outcome': b.raw})

def report_proofs(rep, pr, pid):
    if not pr['ok']:
        rep.violation('proof obligations of Properties_%s.v no longer check (%s)' % (pid, ', '.join(pr['failed'][:4])),
                      {'key': 'proof', 'property': pid, 'no_failing_input': True,
                       'broken': 'theorems %s at %s' % (pr['theorems'], pr['failed']), 'log': pr['log']})

# ------------------------------------------------------------------ generators per property
STRF = ['strcpy_s', 'strcat_s', 'strncpy_s', 'strncat_s', 'wcscpy_s']
MEMF = ['memcpy_s', 'memmove_s', 'memset_s', 'memzero_s', 'memcpy16_s', 'memmove16_s', 'memset16_s', 'memzero16_s',
        'memcpy32_s', 'memmove32_s', 'memset32_s', 'memzero32_s']

def gen_copy(pid, seed, consts, tier):
    g = fam_copy.Gen(seed, consts, tier)
    thorough = tier == 'thorough'
    small = [1, 2, 3, 4, 5, 7] + ([6, 8, 9, 10, 12] if thorough else [])
    switch = [31, 32, 33, 34] + ([64, 65] if thorough else [])
    rmax = consts['rmax_str']
    lens = lambda dmax: sorted(set(x for x in [0, 1, 2, dmax - 2, dmax - 1, dmax, dmax + 1] if 0 <= x <= min(dmax + 2, 70)))
    narrow = [f for f in STRF if fam_copy.STR_FUNCS[f][0] == 1]
    nfun = [f for f in STRF if fam_copy.STR_FUNCS[f][1] in ('ncpy', 'ncat')]
    ofun = [f for f in STRF if f not in nfun]
    if pid in ('C01', 'C02', 'C03', 'C04', 'C05', 'C06', 'C08'):
        bos = ('unk', 'exact', 'larger', 'smaller') if pid in ('C01', 'C03', 'C04', 'C05') else ('unk', 'exact')
        fl = ('R', 'L') if pid in ('C01', 'C02') else ('R',)
        pri = ('garbage', 'half', 'empty') if pid != 'C03' else ('garbage',)
        g.str_sep(ofun, small + switch, lens, bos, fl, pri + (('full1',) if pid in ('C06', 'C08', 'C01') else ()), (None,))
        g.str_sep(nfun, small + switch, lens, bos, fl, pri, ('lt', 'eq', 'gt', 'zero') + (('big', 'max') if pid in ('C05', 'C04', 'C03') else ()))
        # RSIZE_MAX-sized operands: the extracted model is quadratic in the number of element stores, keep these few
        g.str_sep(narrow[:2], [rmax], lambda d: [3], ('unk',), ('R',), ('garbage',), (None,))
        g.str_sep(narrow[:1], [rmax], lambda d: [d - 1] if thorough else [d // 4], ('unk',), ('R',), ('garbage',), (None,), orders=('ds',))
        g.str_bad(STRF)
    if pid in ('C07',):
        g.str_arena(STRF, [1, 2, 3, 5] + ([4, 6, 8] if thorough else []), 4 if not thorough else 6)
        g.str_arena(['strcpy_s', 'strcat_s'], [34], 3)
    if pid in ('C03', 'C04', 'C08', 'C01', 'C02'):
        g.str_arena(STRF, [2, 4] + ([3, 6] if thorough else []), 3)
    if pid in ('C01', 'C04', 'C05', 'C06'):
        sizes = [0, 1, 2, 3, 7, 8, 9, 15, 16, 17, 31, 32, 33, 63, 64, 65, 100] + (list(range(101, 300, 7)) if thorough else [])
        g.mem_cases(MEMF, sizes, aligns=(0, 1, 3, 7) if not thorough else tuple(range(16)))
        g.mem_bad(MEMF)
    if pid == 'C07':
        g.mem_arena(MEMF, [1, 2, 3, 8, 17] + ([5, 9, 33] if thorough else []))
    return g.cases

def projection_for(pid, consts):
    def dest_slice(c, o):
        m = c.meta
        if m['dest'] is None or o.fault != '-': return None
        b, off = m['dest']
        nb = m['dmax'] if m['kind'] in ('mcpy', 'mmove', 'mset', 'mzero') else m['dmax'] * m['w']
        nb = min(nb, 1 << 20)
        return o.blocks[b][off:off + nb] if b < len(o.blocks) else None
    def p(c, o):
        flt = o.fault != '-'
        if pid == 'C01': return (flt, None if flt else tuple(o.blocks))
        if pid == 'C02': return flt
        if pid == 'C03':
            d = dest_slice(c, o); return (flt, None if d is None else fam_copy.first_nul(fam_copy.dec(d, c.meta['w'])))
        if pid == 'C04': return (flt, None if flt else (o.ret != '0', tuple(o.blocks) if o.ret != '0' else None))
        if pid == 'C05': return (flt, o.ret, tuple(o.handlers))
        return (flt, o.ret, dest_slice(c, o))
    return p

def oracle_for(pid, consts):
    F = fam_copy
    def o(c, a):
        k = c.meta['kind']; strk = k in ('cpy', 'cat', 'ncpy', 'ncat')
        if pid == 'C01': return F.oracle_C01(c, a, consts)
        if pid == 'C02': return F.oracle_C02(c, a, consts)
        if pid == 'C03': return F.oracle_C03(c, a, consts)
        if pid == 'C04': return F.oracle_C04(c, a, consts)
        if pid == 'C05':
            if strk: return F.oracle_C05(c, a, consts, F.violates_str(c, consts))
            return F.oracle_C05(c, a, consts, '?')
        if pid == 'C06': return F.oracle_C06_str(c, a, consts) if strk else F.oracle_C06_mem(c, a, consts)
        if pid == 'C07': return F.oracle_C07_str(c, a, consts) if strk else F.oracle_C07_mem(c, a, consts)
        if pid == 'C08': return F.oracle_C08_str(c, a, consts) if strk else []
        return []
    return o

def check_copy_family(rep, scr, tier, seed):
    pid = rep.pid
    variants = ['O1', 'noslack'] + (['O0', 'O3'] if tier == 'thorough' else [])
    if pid in ('C02', 'C05', 'C06', 'C07') and tier != 'thorough': variants = ['O1']
    impls, consts, md = setup(rep, scr, variants)
    pr = proofs(rep, scr, pid)
    for v in variants:
        cases = gen_copy(pid, seed, consts[v], tier)
        oi, om = run_cases(rep, scr, impls[v], md, consts[v], cases, v)
        judge(rep, cases, oi, om, consts[v], v, oracle_for(pid, consts[v]), projection_for(pid, consts[v]), None)
    report_proofs(rep, pr, pid)
    report_mismatches(rep, 'T1')
    rep.trusted = TRUSTED_COMMON
    rep.extra['functions_in_scope'] = STRF + MEMF
    rep.extra['build_variants'] = variants
    return rep.finish('size lattice x contents x placements x object-size classes x build variants (see input_distribution); '
                      'non-trivial = distinct (function, case class, return value, handler list, build variant)',
                      'make -C /verif/coq Properties_%s.vo (coqc, full .vo) + harness/check.py %s' % (pid, pid))

REGISTRY = {p: check_copy_family for p in ('C01', 'C02', 'C03', 'C04', 'C05', 'C06', 'C07', 'C08')}
