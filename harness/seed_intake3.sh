#!/bin/bash
# seed_intake2.sh <Cxx> : intake of the two changes a round-5 sub-agent left in /tmp/sd/<Cxx>/SEED/{1,2}
# (stored as seeded/<Cxx>-F and -G when confirmed)
V="${VERIF_ROOT:-$(cd "$(dirname "${BASH_SOURCE[0]}")/.." && pwd)}"
p="$1"; wt=/tmp/sd2/$p
for k in 1 2; do
  [ -f $wt/SEED/$k/patch.diff ] || { echo "$p/$k: nothing delivered"; continue; }
  cp $wt/SEED/$k/patch.diff $wt/SEED/$k/demo.c $wt/SEED/$k/meta.json $wt/SEED/
  id=$p-$( [ $k = 1 ] && echo F || echo G )
  SEED_ROUND="round 5" bash $V/harness/seed_intake.sh $wt $id
done
