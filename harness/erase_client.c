/* erase_client.c -- C18(c): a caller in which the erased buffer is dead right after the call (freed), built together with the
   library at -O2 with and without link-time optimisation; the freed block is inspected out of band (in __wrap_free). */
#include <stdio.h>
#include <stdlib.h>
#include <string.h>
#include "safe_mem_lib.h"
#include "safe_str_lib.h"
static unsigned char cap[64]; static volatile int armed;
void __real_free(void *p);
void __wrap_free(void *p) { if (p && armed) { memcpy(cap, p, 64); armed = 0; } __real_free(p); }
static void fill(unsigned char *p) { for (int i = 0; i < 64; i++) ((volatile unsigned char *)p)[i] = 0x5a; }
#define T(name, prep, call, n, val) \
  __attribute__((noinline)) static int t_##name(void) { unsigned char *p = malloc(64); if (!p) return 2; fill(p); prep; call; armed = 1; free(p); \
    for (int i = 0; i < (n); i++) if (cap[i] != (val)) { printf("%s byte %d = %02x\n", #name, i, cap[i]); return 1; } printf("%s ok\n", #name); return 0; }
T(memset_s, (void)0, memset_s(p, 48, 0, 48), 48, 0)
T(memzero_s, (void)0, memzero_s(p, 48), 48, 0)
T(memset16_s, (void)0, memset16_s((uint16_t *)p, 48, 0, 24), 48, 0)
T(memzero16_s, (void)0, memzero16_s((uint16_t *)p, 24), 48, 0)
T(memset32_s, (void)0, memset32_s((uint32_t *)p, 48, 0, 12), 48, 0)
T(memzero32_s, (void)0, memzero32_s((uint32_t *)p, 12), 48, 0)
T(strzero_s, ((volatile unsigned char *)p)[47] = 0, strzero_s((char *)p, 48), 47, 0)
int main(void) { int r = 0; r |= t_memset_s(); r |= t_memzero_s(); r |= t_memset16_s(); r |= t_memzero16_s(); r |= t_memset32_s(); r |= t_memzero32_s(); r |= t_strzero_s(); return r; }
