(* model_driver.ml -- runs the extracted Coq models on the same case file as impl_driver.c
   and prints outcome lines in the same format. Trusted glue: parsing, Z <-> int/string
   conversion, block layout (must equal the C driver's), printing. *)
open Model

let rec pos_of_int n = if n = 1 then XH else if n land 1 = 0 then XO (pos_of_int (n lsr 1)) else XI (pos_of_int (n lsr 1))
let z_of_int n = if n = 0 then Z0 else if n > 0 then Zpos (pos_of_int n) else Zneg (pos_of_int (-n))
let rec int_of_pos = function XH -> 1 | XO p -> 2 * int_of_pos p | XI p -> 2 * int_of_pos p + 1
let int_of_z = function Z0 -> 0 | Zpos p -> int_of_pos p | Zneg p -> - (int_of_pos p)
let ten = z_of_int 10
let z_of_string s =
  let neg = String.length s > 0 && s.[0] = '-' in
  let s' = if neg then String.sub s 1 (String.length s - 1) else s in
  let acc = ref Z0 in
  String.iter (fun ch -> acc := Z.add (Z.mul !acc ten) (z_of_int (Char.code ch - 48))) s';
  if neg then Z.opp !acc else !acc
let rec string_of_z z =
  match z with
  | Z0 -> "0"
  | Zneg p -> "-" ^ string_of_z (Zpos p)
  | Zpos _ ->
    let rec go z acc = if z = Z0 then acc else
        let d = int_of_z (Z.modulo z ten) in go (Z.div z ten) (String.make 1 (Char.chr (48 + d)) ^ acc) in
    go z ""

let base = 0x100000000 and stride = 0x20000 and page = 4096 and data = 0x10000
let filler = 0xA5

type blk = { mode : char; size : int; start : int; bytes : Bytes.t }

let hexval c = if c <= '9' then Char.code c - 48 else (Char.code c lor 32) - 97 + 10

let () =
  let a = Sys.argv in
  let zi i = z_of_string a.(i) in
  let cfg = { null_slack = (a.(1) = "1"); rmax_str = zi 2; rmax_mem = zi 3; rmax_wstr = zi 4;
              rmax_mem16 = zi 5; rmax_mem32 = zi 6; tok_delim_max = zi 7; wchar_w = zi 8 } in
  (try
    while true do
      let line = input_line stdin in
      if String.length line > 0 && line.[0] <> '#' then begin
        let toks = Array.of_list (List.filter (fun s -> s <> "") (String.split_on_char ' ' line)) in
        let id = toks.(0) and func = toks.(1) in
        let nblk = int_of_string toks.(2) in
        let pos = ref 3 in
        let blks = Array.init nblk (fun i ->
          let mode = toks.(!pos).[0] and hex = toks.(!pos + 1) in
          pos := !pos + 2;
          let size = if hex = "-" then 0 else String.length hex / 2 in
          let reg = base + i * stride in
          let start = if mode = 'R' then reg + page + data - size else reg + page in
          let bytes = Bytes.init size (fun k -> Char.chr (hexval hex.[2*k] * 16 + hexval hex.[2*k+1])) in
          { mode; size; start; bytes }) in
        let nargs = int_of_string toks.(!pos) in
        incr pos;
        let args = List.filter_map (fun x -> x) (List.init nargs (fun i ->
          let t = toks.(!pos + i) in
          if t.[0] = 'E' || t.[0] = 'K' || t.[0] = 'W' then None else Some (   (* driver directives (errno on entry, failing allocation): not arguments *)
          match t.[0] with
          | 'N' -> Z0
          | 'P' -> (match String.split_on_char ':' (String.sub t 1 (String.length t - 1)) with
                    | [b; off] -> z_of_int (blks.(int_of_string b).start + int_of_string off)
                    | _ -> failwith "bad pointer")
          | 'I' -> z_of_string (String.sub t 1 (String.length t - 1))
          | 'S' -> let v = z_of_string (String.sub t 1 (String.length t - 1)) in
                   (* C passes it as a 64-bit pattern; the models take the signed value *) v
          | _ -> failwith "bad arg"))) in
        let mem0 (z : z) : z =
          let ad = int_of_z z in
          let r = ref filler in
          Array.iter (fun b -> if ad >= b.start && ad < b.start + b.size then r := Char.code (Bytes.get b.bytes (ad - b.start))) blks;
          z_of_int !r in
        (* mapped pages, as in the C driver *)
        let mapped ad = Array.exists (fun b ->
            let lo = b.start land (lnot (page - 1)) and hi = (b.start + b.size + page - 1) land (lnot (page - 1)) in
            ad >= lo && ad < hi) blks in
        let print_ptr (z : z) =
          let ad = int_of_z z in
          if ad = 0 then "N" else begin
            let r = ref "X" in
            Array.iteri (fun i b -> if !r = "X" && ad >= b.start && ad <= b.start + b.size then r := Printf.sprintf "P%d:%d" i (ad - b.start)) blks;
            !r end in
        (match Fn_table.fn_of_string func with
         | None -> Printf.printf "%s ret=UNKNOWN h=- fault=-\n" id
         | Some (f, retkind) ->
           let ((rets, m), tr) = run_call cfg (fun _ -> false) f args mem0 in
           (* fault prediction: first read/write event touching an unmapped address *)
           let fault = ref None in
           let chk a n =
             if !fault = None then begin
               let a = int_of_z a and n = int_of_z n in
               if n > 0 then begin
                 let k = ref a in
                 while !fault = None && !k < a + n do
                   if not (mapped !k) then fault := Some !k
                   else k := min (a + n) ((!k lor (page - 1)) + 1)
                 done
               end
             end in
           List.iter (fun e -> match e with ERead (a, n) -> chk a n | EWrite (a, n) -> chk a n | _ -> ()) tr;
           let hs = List.filter_map (fun e -> match e with
               | EHandler (k, c) -> Some ((match k with HStr -> "S" | HMem -> "M") ^ ":" ^ string_of_z c) | _ -> None) tr in
           let retstr = match rets with
             | [] -> "-"
             | r :: rest ->
               let first = (match retkind with 'P' -> print_ptr r | _ -> string_of_z r) in
               String.concat "," (first :: List.map string_of_z rest) in
           Printf.printf "%s ret=%s h=%s fault=%s" id retstr
             (if hs = [] then "-" else String.concat "," hs)
             (match !fault with None -> "-" | Some ad ->
                let r = ref "?" in
                Array.iteri (fun i _ -> let reg = base + i * stride in if ad >= reg && ad < reg + stride then r := Printf.sprintf "%d:%d" i (ad - blks.(i).start)) blks; !r);
           Array.iteri (fun i b ->
             Printf.printf " b%d=" i;
             if b.size = 0 then print_string "-";
             for k = 0 to b.size - 1 do Printf.printf "%02x" (int_of_z (m (z_of_int (b.start + k)))) done) blks;
           print_newline ())
      end
    done
  with End_of_file -> ())
