#!/bin/bash
V="${VERIF_ROOT:-$(cd "$(dirname "${BASH_SOURCE[0]}")/.." && pwd)}"; export VERIF_ROOT="$V"
# build_impl.sh <outdir> <variant> : compile /repo's working tree + the C driver.
#   variant: O1 | O0 | O2 | O3 | noslack (O1 without SAFECLIB_STR_NULL_SLACK) | asan
set -e
out="$1"; var="${2:-O1}"
REPO="${VERIF_REPO:-/repo}"
mkdir -p "$out/obj" "$out/inc"
cp "$REPO"/include/*.h "$out/inc/"
opt="-O1"; extra=""
case "$var" in
  O0) opt="-O0";; O2) opt="-O2";; O3) opt="-O3";;
  asan) opt="-O1 -g -fsanitize=address,undefined -fno-sanitize-recover=all";;
  noslack) sed -i 's/^#define SAFECLIB_STR_NULL_SLACK.*$/#undef SAFECLIB_STR_NULL_SLACK/' "$out/inc/safe_config.h";;
esac
CF="$opt -w -DHAVE_CONFIG_H -I$out/inc -I$REPO -I$REPO/src"
srcs=$(ls "$REPO"/src/*.c "$REPO"/src/*/*.c | grep -v "/slkm/\|wcsstr.c\|tmpnam_s.c")
pids=""
fail=0
for s in $srcs; do
  o="$out/obj/$(basename "$(dirname "$s")")_$(basename "$s" .c).o"
  echo "$s $o"
done > "$out/list.txt"
if ! xargs -P 16 -L 1 sh -c 'gcc -c '"$CF"' "$0" -o "$1" 2>>'"$out"'/cc.err || echo "$0" >> '"$out"'/cc.failed' < "$out/list.txt"; then fail=1; fi
if [ -s "$out/cc.failed" ]; then echo "COMPILE-FAILED: $(cat "$out/cc.failed" | tr '\n' ' ')"; fi
rm -f "$out/libimpl.a"; ar rcs "$out/libimpl.a" "$out"/obj/*.o
gcc $opt -w -I"$out/inc" -I"$REPO" -I$V/harness $V/harness/impl_driver.c -Wl,--whole-archive "$out/libimpl.a" -Wl,--no-whole-archive -o "$out/impl_driver" -lffi -no-pie -Wl,--wrap=malloc,--wrap=free,--wrap=realloc,--wrap=calloc -Wl,-Map="$out/driver.map" ${VERIF_DRIVER_LDFLAGS}
