#!/bin/bash
# confirm_seed.sh <worktree> <A|B> : re-confirm a seeded change in its scratch worktree:
# applies, builds, test-suite passes, demo fails with it and passes without it.
wt="$1"; v="$2"
cd "$wt" || exit 2
git checkout -q -- src include 2>/dev/null
res="seed $wt $v:"
git apply --check SEED/patch$v.diff || { echo "$res patch does not apply"; exit 1; }
git apply SEED/patch$v.diff
make -j8 >/dev/null 2>&1 || { echo "$res build failed"; git checkout -q -- src include; exit 1; }
t=$(make -k check -j8 2>&1 | grep -E "^# (PASS|FAIL|ERROR)" | tr -d '\n')
XL="-lpthread -lm"; grep -q __wrap_malloc SEED/demo$v.c && XL="$XL -Wl,--wrap=malloc,--wrap=free"; grep -q __wrap_realloc SEED/demo$v.c && XL="$XL -Wl,--wrap=realloc"; grep -q __wrap_calloc SEED/demo$v.c && XL="$XL -Wl,--wrap=calloc"; gcc -w -I$wt/include -I$wt SEED/demo$v.c $wt/src/.libs/libsafec.a -o SEED/demo$v.bin $XL
( cd SEED && timeout 60 ./demo$v.bin >/dev/null 2>&1 ); with=$?
git checkout -q -- src include
make -j8 >/dev/null 2>&1
XL="-lpthread -lm"; grep -q __wrap_malloc SEED/demo$v.c && XL="$XL -Wl,--wrap=malloc,--wrap=free"; grep -q __wrap_realloc SEED/demo$v.c && XL="$XL -Wl,--wrap=realloc"; grep -q __wrap_calloc SEED/demo$v.c && XL="$XL -Wl,--wrap=calloc"; gcc -w -I$wt/include -I$wt SEED/demo$v.c $wt/src/.libs/libsafec.a -o SEED/demo$v.bin $XL
( cd SEED && timeout 60 ./demo$v.bin >/dev/null 2>&1 ); without=$?
echo "$res tests[$t] demo_with=$with demo_without=$without"
