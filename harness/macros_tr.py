#!/usr/bin/env python3
"""macros_tr.py -- T2 for the public interface: the models and the drivers work on the exported  _<name>_chk  entry points;
callers reach them through function-like macros in include/safe_{str,mem,}_lib.h.  This translator expands every such macro of
the working tree's headers (gcc -E) and checks that the expansion is nothing but a call of the entry point with the caller's
arguments in order, plus object-size arguments (__builtin_object_size of one of the arguments, or the unknown-size constant).
Anything else (a fast path, a conditional, another function) means the entry point no longer decides what the public name does."""
import re, os, subprocess, sys

HEADERS = ['safe_str_lib.h', 'safe_mem_lib.h', 'safe_lib.h']
BOSARG = re.compile(r'^(__builtin_object_size\s*\(\s*\(?\s*(A\d+)\s*\)?\s*,\s*[0-3]\s*\)|\(\s*\(\s*size_t\s*\)\s*-\s*1\s*\)|\(size_t\)-1|18446744073709551615UL?L?)$')

ALIAS = {'wcsnaticmp_s': 'wcsnatcmp_s'}           # public names that share an entry point
FLAGGED = {'strnatcmp_s', 'strnatcasecmp_s', 'wcsnatcmp_s', 'wcsnaticmp_s'}

def split_args(s):
    out = []; depth = 0; cur = ''
    for ch in s:
        if ch == ',' and depth == 0: out.append(cur.strip()); cur = ''
        else:
            depth += ch in '([{'; depth -= ch in ')]}'; cur += ch
    if cur.strip(): out.append(cur.strip())
    return out

def analyse(repo, incdirs):
    """returns (entries, problems): entries = [(name, nparams, expansion)], problems = [(name, why, expansion)]"""
    macros = []
    for h in HEADERS:
        src = open(os.path.join(repo, 'include', h)).read().replace('\\\n', ' ')
        for m in re.finditer(r'^[ \t]*#[ \t]*define[ \t]+([a-z_0-9]+)\(([^)]*)\)[ \t]+(.*)$', src, re.M):
            name, params, body = m.group(1), [p.strip() for p in m.group(2).split(',') if p.strip()], m.group(3)
            if not (name.endswith('_s') or name.startswith('timingsafe_')): continue
            if '_chk' not in body: continue
            macros.append((name, params))
    seen = set(); uniq = []
    for name, params in macros:
        if name in seen: continue
        seen.add(name); uniq.append((name, params))
    lines = ['#include "safe_lib.h"', '#include "safe_str_lib.h"', '#include "safe_mem_lib.h"']
    for name, params in uniq:
        nfix = len([p for p in params if p != '...'])
        args = ['A%d' % i for i in range(nfix)] + (['V0', 'V1'] if '...' in params else [])
        lines.append('@@%s@@ %s(%s)' % (name, name, ', '.join(args)))
    cmd = ['gcc', '-E', '-P', '-DHAVE_CONFIG_H'] + sum([['-I', d] for d in incdirs], []) + ['-x', 'c', '-']
    p = subprocess.run(cmd, input='\n'.join(lines) + '\n', capture_output=True, text=True)
    if p.returncode != 0: raise RuntimeError('macros_tr: gcc -E failed: ' + p.stderr[-800:])
    exp = {}
    for l in p.stdout.split('\n'):
        m = re.match(r'^@@(\w+)@@\s*(.*)$', l.strip())
        if m: exp[m.group(1)] = ' '.join(m.group(2).split())
    entries = []; problems = []
    for name, params in uniq:
        e = exp.get(name)
        if e is None: problems.append((name, 'no expansion produced', '')); continue
        entries.append((name, len(params), e))
        if re.match(r'^%s\s*\(' % re.escape(name), e): continue          # not defined in this configuration (left unexpanded)
        m = re.match(r'^_%s_chk\s*\((.*)\)$' % re.escape(ALIAS.get(name, name)), e)
        if not m: problems.append((name, 'does not expand to a plain call of _%s_chk' % name, e)); continue
        items = split_args(m.group(1))
        plain = [x for x in items if re.match(r'^[AV]\d+$', x)]
        nfix = len([p_ for p_ in params if p_ != '...'])
        want = ['A%d' % i for i in range(nfix)] + (['V0', 'V1'] if '...' in params else [])
        if plain != want: problems.append((name, 'the caller\'s arguments are not passed on once each, in order (%s)' % plain, e)); continue
        for x in items:
            if re.match(r'^[AV]\d+$', x): continue
            if re.match(r'^[01]$', x) and name in FLAGGED: continue          # the case-folding switch of the natural-order comparisons
            if not BOSARG.match(x): problems.append((name, 'extra argument "%s" is not an object size of one of the arguments' % x, e)); break
    return entries, problems

if __name__ == '__main__':
    repo = sys.argv[1] if len(sys.argv) > 1 else '/repo'
    ent, prob = analyse(repo, [repo, repo + '/include'])
    print(len(ent), 'macros;', len(prob), 'problems')
    for p in prob: print('PROBLEM', p)
