(* hist_model.ml -- runs the extracted handler-registration model on history lines *)
open Model
let rec nat_of_int n = if n = 0 then O else S (nat_of_int (n - 1))
let rec int_of_nat = function O -> 0 | S n -> 1 + int_of_nat n
let kind c = if c = 's' then KStr else KMem
let harg c = if c = 'n' then None else Some (nat_of_int (Char.code c - 48))
let () =
  try while true do
    let line = input_line stdin in
    if String.length line > 0 && line.[0] <> '#' then begin
      match List.filter (fun s -> s <> "") (String.split_on_char ' ' line) with
      | [] -> ()
      | id :: ops ->
        let ops' = List.map (fun o ->
          let t i = nat_of_int (Char.code o.[i] - 48) in
          match o.[0] with
          | 'S' -> OSet (kind o.[1], t 2, harg o.[3])
          | 'T' -> OThrdSet (kind o.[1], t 2, harg o.[3])
          | 'V' -> OViolate (kind o.[1], t 2)
          | 'P' -> OSpawn (t 1, t 2)
          | 'C' -> OCall (t 2)
          | _ -> failwith "bad op") ops in
        let outs = run_hist h_init ops' in
        let s = List.map (fun r -> match r with
          | ORet SNull -> "N" | ORet SDef -> "D" | ORet (SUser n) -> "U" ^ string_of_int (int_of_nat n)
          | ORan RDef -> "D" | ORan (RUser n) -> "U" ^ string_of_int (int_of_nat n) | ONone -> "-") outs in
        print_endline (String.concat " " (id :: s))
    end
  done with End_of_file -> ()
