(* ProofsExt2.v -- write footprints of the round-4 models (ModExt2.v): wcsset_s, wcsnset_s. *)
From Coq Require Import List ZArith Lia Bool.
From SC Require Import Base Wp Cfg Comb CombProofs ModExt ModExt2 ProofsExt.
Import ListNotations.
Local Open Scope Z_scope.
Local Open Scope prog_scope.

Lemma chk_dest_wset_writes c d dmax value destbos (k : unit -> prog Z) (P : Z -> Prop) :
  0 <= dmax -> (destbos = BOS_UNKNOWN \/ dmax * wchar_w c <= destbos) ->
  (d <> 0 -> 1 <= dmax -> writes_in P (k tt)) ->
  writes_in P (chk_dest_wset c d dmax value destbos k).
Proof.
  intros H0 Hb Hk. unfold chk_dest_wset, fail_str.
  destruct (d =? 0) eqn:E1; [exact I|]. destruct (dmax =? 0) eqn:E2; [exact I|].
  assert (d <> 0) by lia. assert (1 <= dmax) by lia.
  destruct (UNICODE_MAX <? wc_signed value); [exact I|].
  destruct (destbos =? BOS_UNKNOWN) eqn:E3.
  - destruct (rmax_wstr c <? dmax); [exact I|auto].
  - destruct (destbos <? dmax * wchar_w c) eqn:E4; [|auto]. lia.
Qed.

Lemma wslack_if_nul_writes c w rem d : 0 < w -> writes_in (ext d (Z.max rem 0 * w)) (wslack_if_nul c w rem d).
Proof.
  intros Hw. unfold wslack_if_nul. destruct (null_slack c); [|exact I]. destruct (0 <? rem) eqn:E; [|exact I]. apply Z.ltb_lt in E.
  cbn. intros ch. destruct (ch =? 0); cbn; [|exact I]. split; [apply range_ext; lia|exact I].
Qed.

Lemma wset_loop_writes w v (P : Z -> Prop) (k : nat -> Z -> prog Z) n : 0 < w -> forall d,
  (forall a, ext d (Z.of_nat n * w) a -> P a) ->
  (forall rem d', d <= d' -> d' + Z.of_nat rem * w <= d + Z.of_nat n * w -> (exists j, 0 <= j /\ d' = d + j * w) -> writes_in P (k rem d')) ->
  writes_in P (wset_loop w v n d k).
Proof.
  intros Hw. induction n as [|n IH]; intros d HP Hk; cbn [wset_loop writes_in].
  - apply Hk; try lia. exists 0. lia.
  - intros ch. destruct (ch =? 0); [apply Hk; try lia; exists 0; lia|]. cbn [writes_in]. rewrite Nat2Z.inj_succ in *. split.
    + intros x Hx. apply HP. unfold ext. lia.
    + apply IH; [intros a Ha; apply HP; unfold ext in *; lia|]. intros rem d' H1 H2 [j [Hj Hd']]. apply Hk; try lia.
      exists (j + 1). lia.
Qed.

Lemma wcsset_s_writes c d dmax value destbos : 0 < wchar_w c -> 0 <= dmax ->
  (destbos = BOS_UNKNOWN \/ dmax * wchar_w c <= destbos) ->
  writes_in (ext d (dmax * wchar_w c)) (wcsset_s c d dmax value destbos).
Proof.
  intros Hw H0 Hb. unfold wcsset_s. apply chk_dest_wset_writes; auto. intros _ H1.
  apply wset_loop_writes; auto; [apply ext_sub; rewrite ?Z2Nat.id; lia|]. intros rem d' Ha Hb' _. rewrite Z2Nat.id in Hb' by lia.
  eapply writes_in_weaken; [|apply wslack_if_nul_writes; auto]. intros x Hx. unfold ext in *. nia.
Qed.

Lemma wcsnset_s_writes c d dmax value n destbos : 0 < wchar_w c -> 0 <= dmax -> 0 <= n ->
  (destbos = BOS_UNKNOWN \/ dmax * wchar_w c <= destbos) ->
  writes_in (ext d (dmax * wchar_w c)) (wcsnset_s c d dmax value n destbos).
Proof.
  intros Hw H0 Hn Hb. unfold wcsnset_s. apply chk_dest_wset_writes; auto. intros _ H1.
  destruct (dmax <? n) eqn:E.
  - apply writes_in_bind; [|intros; exact I]. apply handle_error_writes; auto.
  - apply Z.ltb_ge in E.
    apply wset_loop_writes; auto; [apply ext_sub; rewrite ?Z2Nat.id; nia|]. intros rem d' Ha Hb' [j [Hj ->]]. rewrite Z2Nat.id in Hb' by lia.
    eapply writes_in_weaken; [|apply wslack_if_nul_writes; auto]. intros x Hx. unfold ext in *.
    replace (d + j * wchar_w c - d) with (j * wchar_w c) in Hx by lia. rewrite Z.div_mul in Hx by lia. nia.
Qed.
