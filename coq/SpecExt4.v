(* SpecExt4.v -- functional specification (C06, C08) of wcsset_s: on success the first t wide characters of dest (t = the length
   of the string inside the window) hold the fill value and, with null-slack, everything from the terminator to dest+dmax is
   zero; nothing outside dest changes.  Elements are w bytes wide (w = sizeof(wchar_t)); the statement is in terms of element
   loads inside the filled part and of bytes elsewhere. *)
From Coq Require Import List ZArith Lia Bool.
From SC Require Import Base Wp Cfg Comb CombProofs ModExt2.
Import ListNotations.
Local Open Scope Z_scope.
Local Open Scope prog_scope.

(* the fill loop: stops at the terminator or when the count is used up *)
Lemma wset_loop_wp w v n (k : nat -> Z -> prog Z) (Q : Z -> mem -> Prop) : 0 < w -> forall d m,
  (forall t m1, (t <= n)%nat ->
     (forall i, 0 <= i < Z.of_nat t -> load m w (d + i * w) <> 0) -> ((t < n)%nat -> load m w (d + Z.of_nat t * w) = 0) ->
     (forall i, 0 <= i < Z.of_nat t -> load m1 w (d + i * w) = v mod 256 ^ w) ->
     (forall a, ~ (d <= a < d + Z.of_nat t * w) -> m1 a = m a) ->
     wp (k (n - t)%nat (d + Z.of_nat t * w)) m1 Q) ->
  wp (wset_loop w v n d k) m Q.
Proof.
  intros Hw. induction n as [|n IH]; intros d m HK; cbn [wset_loop].
  - assert (X := HK O m). cbn [Nat.sub Z.of_nat] in X. rewrite Z.mul_0_l, Z.add_0_r in X.
    apply X; try lia; intros; try lia; reflexivity.
  - cbn [wp]. destruct (load m w d =? 0) eqn:E.
    + apply Z.eqb_eq in E. assert (X := HK O m). cbn [Z.of_nat] in X. rewrite Z.mul_0_l, Z.add_0_r, Nat.sub_0_r in X.
      apply X; try lia; intros; try lia; try reflexivity; try exact E.
    + apply Z.eqb_neq in E. cbn [wp]. apply IH. intros t m1 Ht Hnz Hz Hv Hout.
      replace (d + w + Z.of_nat t * w) with (d + Z.of_nat (S t) * w) by (rewrite Nat2Z.inj_succ; lia).
      replace (n - t)%nat with (S n - S t)%nat by lia.
      apply HK; try lia.
      * intros i Hi. rewrite Nat2Z.inj_succ in Hi. destruct (Z.eq_dec i 0) as [->|Ni]; [rewrite Z.mul_0_l, Z.add_0_r; exact E|].
        specialize (Hnz (i - 1) ltac:(lia)). rewrite load_store_other in Hnz by nia.
        replace (d + w + (i - 1) * w) with (d + i * w) in Hnz by lia. exact Hnz.
      * intros Hl. specialize (Hz ltac:(lia)). rewrite load_store_other in Hz by nia.
        rewrite Nat2Z.inj_succ. replace (d + Z.succ (Z.of_nat t) * w) with (d + w + Z.of_nat t * w) by lia. exact Hz.
      * intros i Hi. rewrite Nat2Z.inj_succ in Hi. destruct (Z.eq_dec i 0) as [->|Ni].
        -- rewrite Z.mul_0_l, Z.add_0_r.
           rewrite (load_ext m1 (store m w d v)); [apply load_store_same; lia|].
           intros x Hx. apply Hout. nia.
        -- specialize (Hv (i - 1) ltac:(lia)). replace (d + w + (i - 1) * w) with (d + i * w) in Hv by lia. exact Hv.
      * intros a Ha. rewrite Nat2Z.inj_succ in Ha. rewrite Hout by nia. apply store_out. nia.
Qed.

Lemma wslack_if_nul_wp c w rem p m (Q : Z -> mem -> Prop) : 0 <= rem ->
  (forall m', (forall a, m' a = if null_slack c && (0 <? rem) && (load m w p =? 0) && in_range p (rem * w) a then 0 else m a) -> Q EOK m') ->
  wp (wslack_if_nul c w rem p) m Q.
Proof.
  intros Hr HQ. unfold wslack_if_nul. destruct (null_slack c); cbn [andb]; [|cbn [wp]; apply HQ; reflexivity].
  destruct (0 <? rem) eqn:E; cbn [andb]; [|cbn [wp]; apply HQ; reflexivity].
  cbn [wp]. destruct (load m w p =? 0); cbn [andb wp]; [|apply HQ; reflexivity].
  apply HQ. intros a. unfold fill. rewrite Z.mod_0_l by lia. reflexivity.
Qed.

(* what a successful fill leaves *)
Definition wset_post (c : cfg) (w d dmax v : Z) (m : mem) (r : Z) (m' : mem) : Prop :=
  r = EOK /\ exists t, 0 <= t <= dmax /\
    (forall i, 0 <= i < t -> load m w (d + i * w) <> 0) /\ (t < dmax -> load m w (d + t * w) = 0) /\
    (forall i, 0 <= i < t -> load m' w (d + i * w) = v mod 256 ^ w) /\
    forall a, ~ (d <= a < d + t * w) ->
      m' a = if null_slack c && (t <? dmax) && in_range (d + t * w) ((dmax - t) * w) a then 0 else m a.

Theorem wcsset_s_spec c d dmax value m : wf_cfg c -> d <> 0 -> 1 <= dmax <= rmax_wstr c -> wc_signed value <= UNICODE_MAX ->
  wp (wcsset_s c d dmax value BOS_UNKNOWN) m (wset_post c (wchar_w c) d dmax (value mod 4294967296) m).
Proof.
  intros Hc Hd Hm Hv. unfold wcsset_s, chk_dest_wset.
  assert (Hw : 0 < wchar_w c) by (destruct Hc as (_ & _ & _ & _ & _ & _ & [H|H] & _); lia).
  replace (d =? 0) with false by (symmetry; apply Z.eqb_neq; lia).
  replace (dmax =? 0) with false by (symmetry; apply Z.eqb_neq; lia).
  replace (UNICODE_MAX <? wc_signed value) with false by (symmetry; apply Z.ltb_ge; lia).
  rewrite Z.eqb_refl. replace (rmax_wstr c <? dmax) with false by (symmetry; apply Z.ltb_ge; lia).
  set (w := wchar_w c) in *.
  apply wset_loop_wp; [exact Hw|]. intros t m1 Ht Hnz Hz Hval Hout.
  assert (Htn : Z.of_nat t <= dmax) by lia.
  apply wslack_if_nul_wp; [lia|]. intros m' Hm'. unfold wset_post. split; [reflexivity|]. exists (Z.of_nat t).
  split; [lia|]. split; [exact Hnz|]. split; [intros Hl; apply Hz; lia|].
  assert (Hrem : Z.of_nat (Z.to_nat dmax - t) = dmax - Z.of_nat t) by (rewrite Nat2Z.inj_sub by lia; rewrite Z2Nat.id by lia; reflexivity).
  assert (Hl1 : load m1 w (d + Z.of_nat t * w) = load m w (d + Z.of_nat t * w)) by (apply load_ext; intros x Hx; apply Hout; nia).
  split.
  - intros i Hi. rewrite <- (Hval i Hi). apply load_ext. intros x Hx. rewrite Hm'.
    replace (in_range (d + Z.of_nat t * w) (Z.of_nat (Z.to_nat dmax - t) * w) x) with false; [rewrite !andb_false_r; reflexivity|].
    symmetry. apply in_range_false. nia.
  - intros a Ha. rewrite Hm', Hrem, Hl1. rewrite Hout by exact Ha.
    replace (0 <? dmax - Z.of_nat t) with (Z.of_nat t <? dmax) by (destruct (Z.ltb_spec (Z.of_nat t) dmax), (Z.ltb_spec 0 (dmax - Z.of_nat t)); lia).
    destruct (Z.ltb_spec (Z.of_nat t) dmax) as [Hlt|Hge]; cbn [andb]; [|rewrite !andb_false_r; reflexivity].
    rewrite (Hz ltac:(lia)). rewrite Z.eqb_refl. rewrite andb_true_r. reflexivity.
Qed.

(* wcsnset_s: at most n elements are filled; the slack behind the terminator is counted from where the loop stopped *)
Definition wnset_post (c : cfg) (w d dmax n v : Z) (m : mem) (r : Z) (m' : mem) : Prop :=
  r = EOK /\ exists t, 0 <= t <= n /\
    (forall i, 0 <= i < t -> load m w (d + i * w) <> 0) /\ (t < n -> load m w (d + t * w) = 0) /\
    (forall i, 0 <= i < t -> load m' w (d + i * w) = v mod 256 ^ w) /\
    forall a, ~ (d <= a < d + t * w) ->
      m' a = if null_slack c && (t <? dmax) && (load m w (d + t * w) =? 0) && in_range (d + t * w) ((dmax - t) * w) a then 0 else m a.

Theorem wcsnset_s_spec c d dmax value n m : wf_cfg c -> d <> 0 -> 1 <= dmax <= rmax_wstr c -> wc_signed value <= UNICODE_MAX -> 0 <= n <= dmax ->
  wp (wcsnset_s c d dmax value n BOS_UNKNOWN) m (wnset_post c (wchar_w c) d dmax n (value mod 4294967296) m).
Proof.
  intros Hc Hd Hm Hv Hn. unfold wcsnset_s, chk_dest_wset.
  assert (Hw : 0 < wchar_w c) by (destruct Hc as (_ & _ & _ & _ & _ & _ & [H|H] & _); lia).
  replace (d =? 0) with false by (symmetry; apply Z.eqb_neq; lia).
  replace (dmax =? 0) with false by (symmetry; apply Z.eqb_neq; lia).
  replace (UNICODE_MAX <? wc_signed value) with false by (symmetry; apply Z.ltb_ge; lia).
  rewrite Z.eqb_refl. replace (rmax_wstr c <? dmax) with false by (symmetry; apply Z.ltb_ge; lia).
  replace (dmax <? n) with false by (symmetry; apply Z.ltb_ge; lia).
  set (w := wchar_w c) in *.
  apply wset_loop_wp; [exact Hw|]. intros t m1 Ht Hnz Hz Hval Hout.
  assert (Htn : Z.of_nat t <= n) by lia.
  replace ((d + Z.of_nat t * w - d) / w) with (Z.of_nat t) by (replace (d + Z.of_nat t * w - d) with (Z.of_nat t * w) by lia; rewrite Z.div_mul by lia; reflexivity).
  apply wslack_if_nul_wp; [lia|]. intros m' Hm'. unfold wnset_post. split; [reflexivity|]. exists (Z.of_nat t).
  split; [lia|]. split; [exact Hnz|]. split; [intros Hl; apply Hz; lia|].
  assert (Hl1 : load m1 w (d + Z.of_nat t * w) = load m w (d + Z.of_nat t * w)) by (apply load_ext; intros x Hx; apply Hout; nia).
  split.
  - intros i Hi. rewrite <- (Hval i Hi). apply load_ext. intros x Hx. rewrite Hm'.
    replace (in_range (d + Z.of_nat t * w) ((dmax - Z.of_nat t) * w) x) with false; [rewrite !andb_false_r; reflexivity|].
    symmetry. apply in_range_false. nia.
  - intros a Ha. rewrite Hm', Hl1. rewrite Hout by exact Ha.
    replace (0 <? dmax - Z.of_nat t) with (Z.of_nat t <? dmax) by (destruct (Z.ltb_spec (Z.of_nat t) dmax), (Z.ltb_spec 0 (dmax - Z.of_nat t)); lia).
    reflexivity.
Qed.
