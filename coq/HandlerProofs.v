(* HandlerProofs.v -- refinement: for every finite history the implementation model answers
   exactly as the history-based specification. *)
From Coq Require Import List Arith Bool Lia.
From SC Require Import HandlerModel.
Import ListNotations.

(* abstraction invariant: the slots are the abstraction of the history so far *)
Definition inv (s : hstate) (past : list op) : Prop :=
  (forall k, glob s k = as_slot (last_glob k past)) /\
  (forall k t, thrd s k t = as_slot (last_thrd k t past)).

(* histories are kept oldest first; the functions recurse from the old end, so reason with snoc *)
Lemma last_glob_snoc k past o :
  last_glob k (past ++ [o]) =
  match o with
  | OSet k' _ h => if kind_eqb k' k then Some h else last_glob k past
  | _ => last_glob k past
  end.
Proof.
  induction past as [|p past IH]; cbn.
  - destruct o; try reflexivity; try (destruct (kind_eqb _ _); reflexivity).
  - rewrite IH. destruct o; try reflexivity; try (destruct (kind_eqb _ _); reflexivity).
Qed.

Definition spawned (t : nat) (l : list op) : bool :=
  existsb (fun o' => match o' with OSpawn _ c => Nat.eqb c t | _ => false end) l.

Lemma spawned_snoc t past o : spawned t (past ++ [o]) = spawned t past || match o with OSpawn _ c => Nat.eqb c t | _ => false end.
Proof. unfold spawned. rewrite existsb_app. cbn. rewrite orb_false_r. reflexivity. Qed.

Lemma last_thrd_snoc k t past o :
  last_thrd k t (past ++ [o]) =
  match o with
  | OThrdSet k' t' h => if kind_eqb k' k && Nat.eqb t' t then Some h else last_thrd k t past
  | OSpawn _ c => if Nat.eqb c t then None else last_thrd k t past
  | _ => last_thrd k t past
  end.
Proof.
  induction past as [|p past IH].
  - cbn. destruct o; try reflexivity;
      try (destruct (kind_eqb _ _ && Nat.eqb _ _); reflexivity); try (destruct (Nat.eqb _ _); reflexivity).
  - cbn [app last_thrd]. rewrite IH. fold (spawned t (past ++ [o])). fold (spawned t past). rewrite spawned_snoc.
    destruct o as [k0 t0 h|k0 t0 h|k0 t0|pa c|t0]; try (rewrite orb_false_r; reflexivity).
    + destruct (kind_eqb k0 k && Nat.eqb t0 t); [reflexivity|]. rewrite orb_false_r. reflexivity.
    + destruct (Nat.eqb c t) eqn:E.
      * rewrite orb_true_r. reflexivity.
      * rewrite orb_false_r. reflexivity.
Qed.

Lemma inv_init : inv h_init [].
Proof. split; intros; reflexivity. Qed.

Lemma step_refines s past o : inv s past ->
  snd (step s o) = spec_out past o /\ inv (fst (step s o)) (past ++ [o]).
Proof.
  intros [Hg Ht]. destruct o as [k t h|k t h|k t|pa c|t]; cbn.
  - split; [rewrite Hg; reflexivity|]. split.
    + intros k'. rewrite last_glob_snoc. cbn. destruct (kind_eqb_spec k' k) as [->|Hne].
      * destruct (kind_eqb_spec k k); [|congruence]. destruct h; reflexivity.
      * destruct (kind_eqb_spec k k'); [congruence|]. apply Hg.
    + intros k' t'. rewrite last_thrd_snoc. apply Ht.
  - split; [rewrite Ht; reflexivity|]. split.
    + intros k'. rewrite last_glob_snoc. apply Hg.
    + intros k' t'. rewrite last_thrd_snoc. cbn.
      destruct (kind_eqb_spec k' k) as [->|Hne]; cbn.
      * destruct (kind_eqb_spec k k); [|congruence]. cbn. destruct (Nat.eqb_spec t' t) as [->|Hnt].
        -- rewrite Nat.eqb_refl. destruct h; reflexivity.
        -- destruct (Nat.eqb_spec t t'); [congruence|]. apply Ht.
      * destruct (kind_eqb_spec k k'); [congruence|]. cbn. apply Ht.
  - split; [|split; intros; [rewrite last_glob_snoc|rewrite last_thrd_snoc]; auto].
    unfold dispatch_spec. rewrite Ht, Hg.
    destruct (last_thrd k t past) as [[n|]|]; cbn; try reflexivity.
    destruct (last_glob k past) as [[n|]|]; reflexivity.
  - split; [reflexivity|]. split.
    + intros k'. rewrite last_glob_snoc. apply Hg.
    + intros k' t'. rewrite last_thrd_snoc. cbn. destruct (Nat.eqb_spec t' c) as [->|Hne].
      * rewrite Nat.eqb_refl. reflexivity.
      * destruct (Nat.eqb_spec c t'); [congruence|]. apply Ht.
  - split; [reflexivity|]. split; intros; [rewrite last_glob_snoc|rewrite last_thrd_snoc]; auto.
Qed.

(* the refinement theorem: every history, every thread assignment *)
Theorem run_refines_spec : forall l s past, inv s past -> run_hist s l = spec_hist past l.
Proof.
  induction l as [|o l IH]; intros s past Hi; cbn; [reflexivity|].
  destruct (step_refines s past o Hi) as [Ho Hi']. destruct (step s o) as [s' r]. cbn in *.
  rewrite Ho. f_equal. apply IH. exact Hi'.
Qed.
Corollary handler_model_correct : forall l, run_hist h_init l = spec_hist [] l.
Proof. intros l. apply run_refines_spec. apply inv_init. Qed.

(* consequences in the words of the property *)
(* registering returns the previous registration of the same kind and scope; NULL if never registered *)
Lemma set_returns_previous past k t h : spec_out past (OSet k t h) = ORet (as_slot (last_glob k past)).
Proof. reflexivity. Qed.
(* str and mem are independent: operations of the other kind never change dispatch *)
Lemma kinds_independent past k t o :
  (match o with OSet k' _ _ | OThrdSet k' _ _ => k' <> k | _ => True end) ->
  (match o with OSpawn _ c => c <> t | _ => True end) ->
  dispatch_spec k t (past ++ [o]) = dispatch_spec k t past.
Proof.
  intros Hk Hs. unfold dispatch_spec. rewrite last_thrd_snoc, last_glob_snoc.
  destruct o as [k0 t0 h|k0 t0 h|k0 t0|pa c|t0]; try reflexivity.
  - destruct (kind_eqb_spec k0 k); [contradiction|reflexivity].
  - destruct (kind_eqb_spec k0 k); [contradiction|reflexivity].
  - destruct (Nat.eqb_spec c t); [contradiction|reflexivity].
Qed.
(* a thread-local registration by t never changes what another thread t' gets *)
Lemma thrd_set_is_private past k t h k' t' : t' <> t ->
  dispatch_spec k' t' (past ++ [OThrdSet k t h]) = dispatch_spec k' t' past.
Proof.
  intros Hne. unfold dispatch_spec. rewrite last_thrd_snoc, last_glob_snoc.
  destruct (Nat.eqb_spec t t'); [congruence|]. rewrite andb_false_r. reflexivity.
Qed.
(* a freshly created thread starts without any thread-local registration, whoever created it *)
Lemma spawn_fresh past pa c k : last_thrd k c (past ++ [OSpawn pa c]) = None.
Proof. rewrite last_thrd_snoc. rewrite Nat.eqb_refl. reflexivity. Qed.
