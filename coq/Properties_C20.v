(* Properties_C20.v -- C20: running out of memory inside the library is an error, not a crash.
   Only theorem statements, each closed by [exact].  The objects are allocation skeletons of the allocating
   paths (AllocModel.v: requests, checks, frees on every exit); they are tied to the code by failing the
   k-th allocation of the real library in turn (link-time wrap of malloc/realloc/calloc/free). *)
From Coq Require Import List ZArith Lia Bool.
From SC Require Import Base Cfg AllocModel.
From SC.Gen Require Import Consts.
Local Open Scope Z_scope.

(* for EVERY failure oracle: no NULL use, nothing outstanding at return, a failed request is reported *)
Theorem C20_wcsicmp_s : forall sz1 sz2 e1 e2, C20_holds (sk_wcsicmp sz1 sz2 e1 e2).
Proof. exact sk_wcsicmp_ok. Qed.
Print Assumptions C20_wcsicmp_s.
Theorem C20_engine_ls_except : forall l n o, C20_holds (sk_ls l false n o).
Proof. exact sk_ls_except. Qed.
Print Assumptions C20_engine_ls_except.
(* known finding engine-ls-leak: the conversion-error exit of %ls returns without free(p) *)
Theorem C20_engine_ls_leak_refuted : exists l n o, ~ C20_holds (sk_ls l true n o).
Proof. exact sk_ls_leak_refuted. Qed.
Print Assumptions C20_engine_ls_leak_refuted.
Theorem C20_engine_ls_repaired : forall l c n o, C20_holds (sk_ls_repaired l c n o).
Proof. exact sk_ls_repaired_ok. Qed.
(* known finding unchecked-malloc: %Lf/%Le/%Lg/%La/%a with trailing format text, and the wide printf probe *)
Theorem C20_engine_longdouble_refuted : exists off src, ~ C20_holds (sk_longdouble off src).
Proof. exact sk_longdouble_refuted. Qed.
Print Assumptions C20_engine_longdouble_refuted.
Theorem C20_wprintf_probe_refuted : exists dmax, ~ C20_holds (sk_wprobe dmax).
Proof. exact sk_wprobe_refuted. Qed.
Print Assumptions C20_wprintf_probe_refuted.
Theorem C20_cfg_repo_wf : wf_cfg cfg_repo.
Proof. exact wf_cfg_repo. Qed.
