(* ProofsTs.v -- C19(a): results of the timingsafe comparators, for every n and all contents. *)
From Coq Require Import List ZArith Lia Bool.
From SC Require Import Base Wp Cfg Comb ModTs.
Import ListNotations.
Local Open Scope Z_scope.

Lemma bcmp_loop_spec n : forall p1 p2 ret m, wf_mem m -> 0 <= ret ->
  wp (bcmp_loop n p1 p2 ret) m (fun r m' =>
     (r = 0 \/ r = 1) /\ (r = 0 <-> (ret = 0 /\ forall i, 0 <= i < Z.of_nat n -> m (p1 + i) = m (p2 + i)))).
Proof.
  induction n as [|n IH]; intros p1 p2 ret m Hm Hr; cbn [bcmp_loop wp].
  - destruct (Z.eqb_spec ret 0) as [->|Hne].
    + split; [left; reflexivity|]. split; auto. intros _. split; auto. intros i Hi. cbn in Hi. lia.
    + split; [right; reflexivity|]. split; [discriminate|]. intros [H _]. contradiction.
  - rewrite !load1. set (a := m p1). set (b := m p2).
    assert (Ha : 0 <= a < 256) by apply Hm. assert (Hb : 0 <= b < 256) by apply Hm.
    assert (Hx : 0 <= Z.lxor a b) by (apply Z.lxor_nonneg; lia).
    assert (Hl : 0 <= Z.lor ret (Z.lxor a b)) by (apply Z.lor_nonneg; lia).
    eapply wp_weaken; [|apply (IH (p1 + 1) (p2 + 1) _ m Hm Hl)].
    intros r m' [Hr01 Hiff]. split; [exact Hr01|]. rewrite Hiff. rewrite Z.lor_eq_0_iff, Z.lxor_eq_0_iff.
    rewrite Nat2Z.inj_succ. split.
    + intros [[H1 H2] H3]. split; [exact H1|]. intros i Hi. destruct (Z.eq_dec i 0) as [->|Hi0].
      * rewrite !Z.add_0_r. exact H2.
      * specialize (H3 (i - 1) ltac:(lia)). replace (p1 + 1 + (i - 1)) with (p1 + i) in H3 by lia. replace (p2 + 1 + (i - 1)) with (p2 + i) in H3 by lia. exact H3.
    + intros [H1 H2]. split; [split; [exact H1|]|].
      * specialize (H2 0 ltac:(lia)). rewrite !Z.add_0_r in H2. exact H2.
      * intros i Hi. replace (p1 + 1 + i) with (p1 + (i + 1)) by lia. replace (p2 + 1 + i) with (p2 + (i + 1)) by lia. apply H2. lia.
Qed.

(* bit-level facts about one byte pair, by an exhaustive sweep over 256 x 256 *)
Definition byte_pair_ok (a b : Z) : bool :=
  (Z.shiftr (a - b) 8 =? (if a <? b then -1 else 0)).
Lemma byte_pairs_sweep : forallb (fun a => forallb (fun b => byte_pair_ok (Z.of_nat a) (Z.of_nat b)) (seq 0 256)) (seq 0 256) = true.
Proof. vm_compute. reflexivity. Qed.
Lemma shiftr_byte_diff a b : 0 <= a < 256 -> 0 <= b < 256 -> Z.shiftr (a - b) 8 = if a <? b then -1 else 0.
Proof.
  intros Ha Hb. pose proof byte_pairs_sweep as S. rewrite forallb_forall in S.
  specialize (S (Z.to_nat a)). rewrite forallb_forall in S.
  specialize (S ltac:(apply in_seq; lia) (Z.to_nat b) ltac:(apply in_seq; lia)).
  unfold byte_pair_ok in S. rewrite !Z2Nat.id in S by lia. apply Z.eqb_eq in S. exact S.
Qed.

(* sign of the first differing byte pair, compared as unsigned bytes; 0 if the regions are equal *)
Fixpoint first_diff_sign (n : nat) (m : mem) (p1 p2 : Z) : Z :=
  match n with
  | O => 0
  | S n' => if m p1 <? m p2 then -1 else if m p2 <? m p1 then 1 else first_diff_sign n' m (p1 + 1) (p2 + 1)
  end.

Lemma tsmemcmp_loop_spec n : forall p1 p2 res done m, wf_mem m ->
  ((done = 0 /\ res = 0) \/ (done = -1 /\ (res = -1 \/ res = 1))) ->
  wp (tsmemcmp_loop n p1 p2 res done) m (fun r m' =>
     r = if done =? 0 then first_diff_sign n m p1 p2 else res).
Proof.
  induction n as [|n IH]; intros p1 p2 res done m Hm Hinv; cbn [tsmemcmp_loop wp first_diff_sign].
  - destruct Hinv as [[-> ->]|[-> _]]; reflexivity.
  - rewrite !load1. set (a := m p1). set (b := m p2).
    assert (Ha : 0 <= a < 256) by apply Hm. assert (Hb : 0 <= b < 256) by apply Hm.
    rewrite (shiftr_byte_diff a b Ha Hb), (shiftr_byte_diff b a Hb Ha).
    destruct Hinv as [[-> ->]|[-> Hres]].
    + (* nothing decided yet *)
      cbn [Z.eqb]. destruct (a <? b) eqn:E1; destruct (b <? a) eqn:E2; try (apply Z.ltb_lt in E1; apply Z.ltb_lt in E2; lia).
      * eapply wp_weaken; [|apply (IH _ _ _ _ m Hm)]; [intros r m' ->; vm_compute; reflexivity|]. right. vm_compute. auto.
      * eapply wp_weaken; [|apply (IH _ _ _ _ m Hm)]; [intros r m' ->; vm_compute; reflexivity|]. right. vm_compute. auto.
      * eapply wp_weaken; [|apply (IH _ _ _ _ m Hm)]; [intros r m' ->; vm_compute; reflexivity|]. left. vm_compute. auto.
    + (* already decided: res is kept *)
      replace (Z.lnot (-1)) with 0 by reflexivity. rewrite Z.land_0_r, Z.lor_0_r, Z.lor_m1_l.
      eapply wp_weaken; [|apply (IH _ _ res (-1) m Hm); right; auto]. intros r m' ->. reflexivity.
Qed.
