(* Properties_C09.v -- C09: %n is never executed.  Only theorem statements, each closed by [exact]. *)
From Coq Require Import List ZArith Bool String.
From SC Require Import FmtScan FmtProofs.
From SC.Gen Require Import Prescan.
Import ListNotations.
Local Open Scope Z_scope.

(* (A) own engine: a directive whose conversion is n is an error whatever flags, width, precision or
   length modifier precede it; the engine's action alphabet has no store-through-argument action *)
Theorem C09_engine_rejects_n : forall mods rest, forallb engine_mod mods = true ->
  engine_walk true (mods ++ CH_n :: rest) = [EErr].
Proof. exact engine_n_is_error. Qed.
Print Assumptions C09_engine_rejects_n.

(* (B) entry points that hand the format to libc: the substring pre-scan is NOT sound ... *)
Theorem C09_prescan_refuted : exists fmt, prescan_accepts fmt = true /\ has_n false fmt = true.
Proof. exact prescan_unsound_printf. Qed.
Print Assumptions C09_prescan_refuted.
Theorem C09_prescan_refuted_escaped : prescan_accepts [PCT; PCT; PCT; CH_n] = true /\ has_n false [PCT; PCT; PCT; CH_n] = true.
Proof. exact prescan_unsound_escaped. Qed.
Theorem C09_prescan_refuted_width_scanf : prescan_accepts [PCT; 53; CH_n] = true /\ has_n true [PCT; 53; CH_n] = true.
Proof. exact prescan_unsound_width. Qed.
Theorem C09_prescan_refuted_second_occurrence :
  prescan_accepts [PCT; PCT; CH_n; 32; PCT; CH_n] = true /\ has_n false [PCT; PCT; CH_n; 32; PCT; CH_n] = true.
Proof. exact prescan_unsound_second. Qed.
(* ... outside the known-finding region (prescan_accepts && has_n) the property holds by definition of the
   region; and the region is empty on the class of simple formats: every % directly followed by its
   conversion character, no escaped percent signs *)
Theorem C09_prescan_except_simple : forall scanf fmt, simple scanf fmt = true -> C09_ok scanf fmt = true.
Proof. exact C09_ok_on_simple. Qed.
Print Assumptions C09_prescan_except_simple.
Theorem C09_rejected_is_safe : forall scanf fmt, prescan_accepts fmt = false -> C09_ok scanf fmt = true.
Proof. exact rejected_is_safe. Qed.
Print Assumptions C09_rejected_is_safe.

(* (T2) every one of the 28 entry points in the working tree uses the modelled pre-scan and then the own
   engine or libc, or forwards to vsnprintf_s; the engine's case 'n' reports and returns (regenerated) *)
Local Open Scope string_scope.
Definition entry_ok (e : string * string * string * bool * bool) : bool :=
  let '(name, idiom, fmtr, wide, scanf) := e in
  (String.eqb idiom "standard" && (String.eqb fmtr "engine" || String.eqb fmtr "libc"))
  || (String.eqb idiom "none" && String.eqb fmtr "entry:vsnprintf_s").
Theorem C09_entries_recognised :
  forallb entry_ok entries = true /\ List.length entries = 28%nat /\ engine_n_case_reports_and_returns = true.
Proof. vm_compute. repeat split; reflexivity. Qed.
Print Assumptions C09_entries_recognised.
Example C09_example : delegating_entry false [97; 98; PCT; CH_n] = Rejected /\ simple false [97; PCT; 100] = true.
Proof. split; reflexivity. Qed.
