(* ModTs.v -- hand models of timingsafe_bcmp / timingsafe_memcmp (C19(a)). *)
From Coq Require Import List ZArith Lia Bool.
From SC Require Import Base Cfg Comb.
Import ListNotations.
Local Open Scope Z_scope.
Local Open Scope prog_scope.

Fixpoint bcmp_loop (n : nat) (p1 p2 ret : Z) : prog Z :=
  match n with
  | O => Ret (if ret =? 0 then 0 else 1)
  | S n' => Load 1 p1 (fun a => Load 1 p2 (fun b => bcmp_loop n' (p1 + 1) (p2 + 1) (Z.lor ret (Z.lxor a b))))
  end.
Fixpoint tsmemcmp_loop (n : nat) (p1 p2 res done : Z) : prog Z :=
  match n with
  | O => Ret res
  | S n' => Load 1 p1 (fun a => Load 1 p2 (fun b =>
      let lt := Z.shiftr (a - b) 8 in let gt := Z.shiftr (b - a) 8 in let cmp := lt - gt in
      tsmemcmp_loop n' (p1 + 1) (p2 + 1) (Z.lor res (Z.land cmp (Z.lnot done))) (Z.lor done (Z.lor lt gt))))
  end.
(* the size checks shared by both entry points: report through the memory handler, return -ESLEMAX *)
Definition ts_checks (c : cfg) (n destbos srcbos : Z) (k : unit -> prog Z) : prog Z :=
  if (if destbos =? BOS_UNKNOWN then rmax_mem c <? n else destbos <? n) then Handler HMem ESLEMAX (Ret (- ESLEMAX))
  else if negb (srcbos =? BOS_UNKNOWN) && (srcbos <? n) then Handler HMem ESLEMAX (Ret (- ESLEMAX))
  else k tt.
Definition timingsafe_bcmp (c : cfg) (b1 b2 n destbos srcbos : Z) : prog Z :=
  ts_checks c n destbos srcbos (fun _ => bcmp_loop (Z.to_nat n) b1 b2 0).
Definition timingsafe_memcmp (c : cfg) (b1 b2 n destbos srcbos : Z) : prog Z :=
  ts_checks c n destbos srcbos (fun _ => tsmemcmp_loop (Z.to_nat n) b1 b2 0 0).
