(* ProofsTokReads.v -- C02 for the tokeniser models: on a terminated string every load of a call lies inside the string up to
   and including its terminator, the delimiter list up to and including its terminator, or the two caller cells -- in
   particular nothing at or beyond dest[dmax] is read.  (For an unterminated string the element at index dmax is read: the
   known finding tok-unterminated-reads-dest-dmax.) *)
From Coq Require Import List ZArith Lia Bool.
From SC Require Import Base Wp Cfg Comb CombProofs ModTok SpecTok ProofsTokSeq.
Import ListNotations.
Local Open Scope Z_scope.
Local Open Scope prog_scope.

Section TokReads.
  Variables (c : cfg) (w : Z) (wide : bool) (dmaxp ptr delim : Z) (dl : list Z).
  Hypothesis Hw : 0 < w.
  Hypothesis Hdl : chars_ok dl.
  Hypothesis Hdn : (length dl <= Z.to_nat (tok_delim_max c))%nat.
  Variable R : Z -> Prop.
  Hypothesis HRd : forall x, delim <= x < delim + (zlen dl + 1) * w -> R x.

  Lemma delim_scan_reads : forall l n pt ch any m,
    str_at w m pt l -> chars_ok l -> (length l <= n)%nat -> (forall x, pt <= x < pt + (zlen l + 1) * w -> R x) ->
    reads_ok R (delim_scan w n pt ch any) m.
  Proof.
    induction l as [|d l IH]; intros n pt ch any m Hs Hc Hn HR.
    - apply str_at_nil in Hs; auto. destruct n; cbn [delim_scan reads_ok]; (split; [intros x Hx; apply HR; unfold zlen; cbn [length]; lia|]); rewrite Hs; cbn; exact I.
    - apply str_at_cons in Hs; auto. destruct Hs as [Hd Hs]. apply chars_ok_cons in Hc. destruct Hc as [Hd0 Hc].
      destruct n as [|n]; [cbn in Hn; lia|]. cbn [delim_scan reads_ok]. split; [intros x Hx; apply HR; unfold zlen; cbn [length]; lia|].
      rewrite Hd. apply Z.eqb_neq in Hd0. rewrite Hd0. destruct (ch =? d); [exact I|].
      apply IH; auto; [cbn in Hn; lia|]. intros x Hx. apply HR. unfold zlen in *. cbn [length]. lia.
  Qed.

  Lemma tokend_reads : forall s n d tok m,
    str_at w m d s -> chars_ok s -> (length s <= n)%nat -> str_at w m delim dl ->
    (forall x, d <= x < d + (zlen s + 1) * w -> R x) ->
    reads_ok R (tokend c w dmaxp ptr delim n d tok) m.
  Proof.
    induction s as [|ch s IH]; intros n d tok m Hs Hc Hn Hd HR.
    - apply str_at_nil in Hs; auto. destruct n; cbn [tokend reads_ok]; (split; [intros x Hx; apply HR; unfold zlen; cbn [length]; lia|]); rewrite Hs; cbn; exact I.
    - apply str_at_cons in Hs; auto. destruct Hs as [Hch Hs]. apply chars_ok_cons in Hc. destruct Hc as [Hch0 Hc].
      destruct n as [|n]; [cbn in Hn; lia|]. cbn [tokend reads_ok]. split; [intros x Hx; apply HR; unfold zlen; cbn [length]; lia|].
      rewrite Hch. apply Z.eqb_neq in Hch0. rewrite Hch0.
      apply reads_ok_bind.
      + apply delim_scan_reads with (l := dl); auto.
      + apply delim_scan_wp with (dl := dl); auto.
        destruct (isdelim dl ch); [cbn; exact I|].
        apply IH; auto; [cbn in Hn; lia|]. intros x Hx. apply HR. unfold zlen in *. cbn [length]. lia.
  Qed.

  Lemma tokskip_reads : forall s n d m,
    str_at w m d s -> chars_ok s -> (length s <= n)%nat -> str_at w m delim dl ->
    (forall x, d <= x < d + (zlen s + 1) * w -> R x) ->
    reads_ok R (tokskip c w wide dmaxp ptr delim n d) m.
  Proof.
    induction s as [|ch s IH]; intros n d m Hs Hc Hn Hd HR.
    - apply str_at_nil in Hs; auto. destruct n; cbn [tokskip reads_ok]; (split; [intros x Hx; apply HR; unfold zlen; cbn [length]; lia|]); rewrite Hs; cbn; exact I.
    - apply str_at_cons in Hs; auto. destruct Hs as [Hch Hs]. apply chars_ok_cons in Hc. destruct Hc as [Hch0 Hc].
      destruct n as [|n]; [cbn in Hn; lia|]. cbn [tokskip reads_ok]. split; [intros x Hx; apply HR; unfold zlen; cbn [length]; lia|].
      rewrite Hch. apply Z.eqb_neq in Hch0. rewrite Hch0.
      assert (HR' : forall x, d + w <= x < d + w + (zlen s + 1) * w -> R x) by (intros x Hx; apply HR; unfold zlen in *; cbn [length]; lia).
      apply reads_ok_bind.
      + apply delim_scan_reads with (l := dl); auto.
      + apply delim_scan_wp with (dl := dl); auto.
        destruct (isdelim dl ch); [apply IH; auto; cbn in Hn; lia|].
        destruct (false || nonempty dl); [apply tokend_reads with (s := s); auto; cbn in Hn; lia|apply IH; auto; cbn in Hn; lia].
  Qed.
End TokReads.

(* the entry point, continuation call: the loads are the two cells, the rest of the string with its terminator and the
   delimiter list with its terminator *)
Theorem strtok_s_next_reads c dmaxp ptr delim dl bos m p n s :
  dmaxp <> 0 -> ptr <> 0 -> delim <> 0 -> p <> 0 -> chars_ok dl -> (length dl <= Z.to_nat (tok_delim_max c))%nat ->
  str_at 1 m delim dl -> str_at 1 m p s -> chars_ok s -> (length s < n)%nat ->
  load m 8 dmaxp = Z.of_nat n -> load m 8 ptr = p -> Z.of_nat n <= rmax_str c ->
  reads_ok (fun x => dmaxp <= x < dmaxp + 8 \/ ptr <= x < ptr + 8 \/ p <= x < p + (zlen s + 1) \/ delim <= x < delim + (zlen dl + 1))
           (strtok_s c 0 dmaxp delim ptr bos) m.
Proof.
  intros H1 H2 H3 H4 Hdl Hdn Hd Hs Hc Hn Hdm Hp Hmx. unfold strtok_s.
  replace (dmaxp =? 0) with false by lia. cbn [reads_ok]. split; [intros x Hx; left; lia|]. rewrite Hdm.
  replace (Z.of_nat n =? 0) with false by lia. replace (delim =? 0) with false by lia. replace (ptr =? 0) with false by lia.
  cbn [Z.eqb reads_ok]. split; [intros x Hx; right; left; lia|]. rewrite Hp. replace (p =? 0) with false by lia.
  rewrite orb_true_r. replace (rmax_str c <? Z.of_nat n) with false by lia. rewrite Nat2Z.id.
  apply tokskip_reads with (dl := dl) (s := s); auto; try lia.
Qed.
