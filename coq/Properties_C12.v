(* Properties_C12.v -- C12: reentrancy.  Only theorem statements, each closed by [exact]. *)
From Coq Require Import List ZArith Lia Bool String.
From SC Require Import Base Wp Cfg Comb CombProofs ModStr ModMem ProofsStr ProofsMem PropDefs Interleave PlainProofs StaticsCheck.
From SC.Gen Require Import Consts Statics.
Import ListNotations.
Local Open Scope Z_scope.

(* (1) generic: disjoint footprints, no static, no allocation => every interleaving = sequential *)
Theorem C12_interleaving_is_sequential : forall (A B : Type) Rp Wp Rq Wq (s : list bool) (p : prog A) (q : prog B) m,
  disjoint_fp Rp Wp Rq Wq -> decidable_set Wq -> fp Rp Wp p -> fp Rq Wq q ->
  match inter s p q m, runm p m with
  | Some (a, b, m'), Some (a0, m1) =>
      match runm q m1 with Some (b0, m2) => a = a0 /\ b = b0 /\ meq m' m2 | None => False end
  | _, _ => False
  end.
Proof. exact (@inter_seq). Qed.
Print Assumptions C12_interleaving_is_sequential.
(* the memory-only semantics used there is [run] on programs that neither allocate nor use statics *)
Theorem C12_runm_is_run : forall (A : Type) (fail : nat -> bool) (p : prog A), plain p -> forall st,
  runm p (wm st) = Some (fst (run fail p st), wm (snd (run fail p st))).
Proof. exact (@runm_run). Qed.
Print Assumptions C12_runm_is_run.
(* footprints come from the C01/C02 footprint lemmas *)
Theorem C12_fp_from_footprints : forall (A : Type) R W (p : prog A), plain p -> reads_in R p -> writes_in W p -> fp R W p.
Proof. exact (@fp_from_footprints). Qed.
Print Assumptions C12_fp_from_footprints.

(* (2) per function: no static object, no allocation, for every input *)
Theorem C12_strcpy_s : forall c d dmax s destbos, plain (strcpy_s c d dmax s destbos).
Proof. exact strcpy_s_plain. Qed.
Theorem C12_strcat_s : forall c d dmax s destbos, plain (strcat_s c d dmax s destbos).
Proof. exact strcat_s_plain. Qed.
Theorem C12_strncpy_s : forall c d dmax s slen destbos srcbos, plain (strncpy_s c d dmax s slen destbos srcbos).
Proof. exact strncpy_s_plain. Qed.
Theorem C12_strncat_s : forall c d dmax s slen destbos srcbos, plain (strncat_s c d dmax s slen destbos srcbos).
Proof. exact strncat_s_plain. Qed.
Theorem C12_wcscpy_s : forall c d dmax s destbos, plain (wcscpy_s c d dmax s destbos).
Proof. exact wcscpy_s_plain. Qed.
Theorem C12_strnlen_s : forall c str smax bos, plain (strnlen_s c str smax bos).
Proof. exact strnlen_s_plain. Qed.
Theorem C12_mem_copy_family : forall c w rmax ub ovl code clr d dmax s slen destbos srcbos,
  plain (mem_copy_gen c w rmax ub ovl code clr d dmax s slen destbos srcbos).
Proof. exact mem_copy_gen_plain. Qed.
Theorem C12_memset_s : forall c d dmax v n destbos, plain (memset_s c d dmax v n destbos).
Proof. exact memset_s_plain. Qed.
Theorem C12_memsetw_s : forall c w rmaxw d dmax v n destbos, plain (memsetw_s c w rmaxw d dmax v n destbos).
Proof. exact memsetw_s_plain. Qed.
Theorem C12_memzerow_s : forall c w d len destbos, plain (memzerow_s c w d len destbos).
Proof. exact memzerow_s_plain. Qed.
Print Assumptions C12_mem_copy_family.
Theorem C12_plain_no_static : forall (A : Type) (p : prog A), plain p -> C12_holds p.
Proof. intros A p H. apply C12_from_no_static. exact (plain_no_static p H). Qed.
Print Assumptions C12_plain_no_static.

(* composed: two strcpy_s calls on pairwise disjoint operands, any schedule *)
Theorem C12_two_strcpy_s : forall c d1 n1 s1 d2 n2 s2 (sch : list bool) m,
  0 <= n1 -> 0 <= n2 ->
  (forall a, (ext d2 n2 a) -> ~ (ext s1 n1 a \/ ext d1 n1 a) /\ ~ ext d1 n1 a) ->
  (forall a, ext d1 n1 a -> ~ (ext s2 n2 a \/ ext d2 n2 a)) ->
  match inter sch (strcpy_s c d1 n1 s1 BOS_UNKNOWN) (strcpy_s c d2 n2 s2 BOS_UNKNOWN) m, runm (strcpy_s c d1 n1 s1 BOS_UNKNOWN) m with
  | Some (a, b, m'), Some (a0, m1) =>
      match runm (strcpy_s c d2 n2 s2 BOS_UNKNOWN) m1 with Some (b0, m2) => a = a0 /\ b = b0 /\ meq m' m2 | None => False end
  | _, _ => False
  end.
Proof.
  intros c d1 n1 s1 d2 n2 s2 sch m H1 H2 D1 D2.
  apply (inter_seq (fun a => ext s1 n1 a \/ ext d1 n1 a) (ext d1 n1) (fun a => ext s2 n2 a \/ ext d2 n2 a) (ext d2 n2)).
  - split; assumption.
  - intros x. unfold ext. lia.
  - apply fp_from_footprints; [apply strcpy_s_plain|apply strcpy_s_reads_in; [lia|unfold BOS_UNKNOWN; lia]|apply strcpy_s_writes; [lia|left; reflexivity]].
  - apply fp_from_footprints; [apply strcpy_s_plain|apply strcpy_s_reads_in; [lia|unfold BOS_UNKNOWN; lia]|apply strcpy_s_writes; [lia|left; reflexivity]].
Qed.
Print Assumptions C12_two_strcpy_s.

(* (3) the inventory of writable static objects of the freshly compiled library (regenerated every run) *)
Theorem C12_inventory_ok : inventory_ok known_finding_statics inventory = true.
Proof. vm_compute. reflexivity. Qed.
Print Assumptions C12_inventory_ok.
