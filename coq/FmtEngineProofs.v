(* FmtEngineProofs.v -- C11: what is proved about the printf-engine model, and the C-standard rendering it is compared with *)
From Coq Require Import List ZArith Bool Lia.
From SC Require Import FmtEngine.
Import ListNotations.
Local Open Scope Z_scope.
Ltac Zify.zify_post_hook ::= Z.div_mod_to_equations.

(* ---------- digits: the do/while of safec_ntoa_long produces the positional representation ---------- *)
Definition digit_val (c : Z) : Z := if c <? 58 then c - 48 else if c <? 91 then c - 65 + 10 else c - 97 + 10.
Fixpoint eval_lsf (base : Z) (l : list Z) : Z :=      (* least significant first *)
  match l with [] => 0 | c :: t => digit_val c + base * eval_lsf base t end.
Lemma digit_val_char up d : 0 <= d < 16 -> digit_val (digit_char up d) = d.
Proof.
  intros H. unfold digit_val, digit_char.
  repeat match goal with |- context [if ?c then _ else _] => destruct c eqn:? end; lia.
Qed.
Lemma digits_value fuel : forall up base v, 2 <= base <= 16 -> 0 <= v < base ^ Z.of_nat fuel -> (0 < fuel)%nat ->
  eval_lsf base (digits_from fuel up base v) = v.
Proof.
  induction fuel as [|f IH]; intros up base v Hb Hv Hf; [lia|].
  cbn [digits_from eval_lsf]. rewrite digit_val_char by (split; [apply Z.mod_pos_bound; lia| pose proof (Z.mod_pos_bound v base); lia]).
  destruct (v / base =? 0) eqn:E.
  - cbn [eval_lsf]. apply Z.eqb_eq in E. pose proof (Z.div_mod v base). lia.
  - apply Z.eqb_neq in E.
    assert (Hq : 0 <= v / base < base ^ Z.of_nat f).
    { split; [apply Z.div_pos; lia|]. apply Z.div_lt_upper_bound; [lia|].
      replace (Z.of_nat (S f)) with (Z.of_nat f + 1) in Hv by lia. rewrite Z.pow_add_r in Hv by lia. lia. }
    destruct f as [|f'].
    + simpl in Hq. lia.
    + rewrite IH by (try lia; exact Hq). pose proof (Z.div_mod v base). lia.
Qed.
Lemma digits_nonempty fuel up base v : (0 < fuel)%nat -> digits_from fuel up base v <> [].
Proof. destruct fuel; [lia|]. intros _. cbn [digits_from]. discriminate. Qed.
Lemma digits_length fuel : forall up base v, (length (digits_from fuel up base v) <= fuel)%nat.
Proof. induction fuel as [|f IH]; intros; cbn [digits_from length]; [lia|]. destruct (_ =? _); cbn [length]; [lia|]. specialize (IH up base (v / base)). lia. Qed.

(* ---------- the sink never stores beyond bufsize ---------- *)
Lemma puts_bound bufsize : forall cs o, Z.of_nat (length o) <= bufsize -> Z.of_nat (length (fst (puts bufsize cs o))) <= bufsize.
Proof.
  induction cs as [|c t IH]; intros o H; cbn [puts fst]; [exact H|].
  destruct (Z.of_nat (length o) <? bufsize) eqn:E; [|exact H]. apply IH. cbn [length]. lia.
Qed.
Lemma put_bound bufsize c o : Z.of_nat (length o) <= bufsize -> Z.of_nat (length (fst (put bufsize c o))) <= bufsize.
Proof. intros H. unfold put. destruct (Z.of_nat (length o) <? bufsize) eqn:E; cbn [fst]; [cbn [length]; lia|exact H]. Qed.
Lemma ntoa_bound bufsize o v neg base prec width fl : Z.of_nat (length o) <= bufsize ->
  Z.of_nat (length (fst (ntoa bufsize o v neg base prec width fl))) <= bufsize.
Proof. intros H. unfold ntoa. destruct (2147483614 <? _); [exact H|]. apply puts_bound, H. Qed.
Lemma defer_fst r rest : fst (defer r rest) = fst r.
Proof. destruct r as [o [[| ret h l |]|]]; reflexivity. Qed.

Lemma directive_bound bufsize l args o : Z.of_nat (length o) <= bufsize ->
  Z.of_nat (length (fst (fst (fst (directive bufsize l args o))))) <= bufsize.
Proof.
  intros H. unfold directive.
  repeat match goal with
  | |- context [let '(_, _) := ?x in _] => destruct x
  | |- context [match ?x with _ => _ end] => destruct x
  | |- context [if ?x then _ else _] => destruct x
  end; cbn [fst]; rewrite ?defer_fst; try exact H; try (apply ntoa_bound, H); try (apply puts_bound, H); try (apply put_bound, H).
Qed.
Lemma engine_bound bufsize : forall fuel l args o, Z.of_nat (length o) <= bufsize ->
  Z.of_nat (length (e_out (engine fuel bufsize l args o))) <= bufsize.
Proof.
  induction fuel as [|f IH]; intros l args o H; cbn [engine e_out]; [exact H|].
  destruct l as [|c t]; cbn [e_out]; [exact H|].
  destruct (c =? 37).
  - pose proof (directive_bound bufsize t args o H) as D.
    destruct (directive bufsize t args o) as [[[o' [e|]] l'] args']; cbn [fst] in D; cbn [e_out]; [exact D|apply IH, D].
  - pose proof (put_bound bufsize c o H) as D. destruct (put bufsize c o) as [o' [e|]]; cbn [fst] in D; cbn [e_out]; [exact D|apply IH, D].
Qed.
Theorem run_engine_bound bufsize fmt args : 0 <= bufsize -> Z.of_nat (length (e_out (run_engine bufsize fmt args))) <= bufsize.
Proof. intros H. apply engine_bound. simpl. exact H. Qed.

(* ---------- the wrappers: dest keeps its length (nothing beyond dmax), a non-negative return is the number stored ---------- *)
Lemma overlay_length : forall init text, length (overlay init text) = length init.
Proof. induction init as [|a i IH]; intros [|c t]; cbn [overlay length]; try reflexivity. rewrite IH. reflexivity. Qed.
Lemma set_nth_length : forall l n v, length (set_nth l n v) = length l.
Proof. induction l as [|a t IH]; intros [|n] v; cbn [set_nth length]; try reflexivity. rewrite IH. reflexivity. Qed.
Lemma zero_from_length l n : (n <= length l)%nat -> length (zero_from l n) = length l.
Proof. intros H. unfold zero_from. rewrite app_length, firstn_length, repeat_length. lia. Qed.
Theorem vsnprintf_dest_length slack rmax init fmt args : length (w_dest (vsnprintf_s_m slack rmax init fmt args)) = length init.
Proof.
  unfold vsnprintf_s_m. destruct (_ =? 0); [reflexivity|]. destruct (rmax <? _); [reflexivity|]. destruct (find_pn fmt 0); [reflexivity|].
  pose proof (run_engine_bound (Z.of_nat (length init)) fmt args ltac:(lia)) as B.
  destruct (e_fin (run_engine (Z.of_nat (length init)) fmt args)) as [|ret h last0|]; cbn [w_dest]; [| |reflexivity].
  - destruct slack.
    + rewrite zero_from_length; rewrite ?set_nth_length, ?overlay_length; [reflexivity|]. rewrite rev_length. lia.
    + rewrite !set_nth_length, overlay_length. reflexivity.
  - destruct slack; [apply repeat_length|]. destruct last0; rewrite ?set_nth_length, overlay_length; reflexivity.
Qed.
Theorem vsprintf_dest_length slack rmax init fmt args : length (w_dest (vsprintf_s_m slack rmax init fmt args)) = length init.
Proof.
  unfold vsprintf_s_m. destruct (_ && _); [|apply vsnprintf_dest_length]. cbn [w_dest]. destruct slack; [apply repeat_length|].
  rewrite set_nth_length. apply vsnprintf_dest_length.
Qed.
(* every error the engine reports is a negative return value *)
Definition fin_neg (f : option fin) : Prop := match f with Some (FErr r _ _) => r < 0 | _ => True end.
Lemma puts_neg bufsize : forall cs o, fin_neg (snd (puts bufsize cs o)).
Proof. induction cs as [|c t IH]; intros o; cbn [puts snd]; [exact I|]. destruct (_ <? _); [apply IH|]. cbn. unfold ESNOSPC. lia. Qed.
Lemma put_neg bufsize c o : fin_neg (snd (put bufsize c o)).
Proof. unfold put. destruct (_ <? _); cbn; [exact I|unfold ESNOSPC; lia]. Qed.
Lemma ntoa_neg bufsize o v neg base prec width fl : fin_neg (snd (ntoa bufsize o v neg base prec width fl)).
Proof. unfold ntoa. destruct (2147483614 <? _); [cbn; unfold ESLEMAX; lia|apply puts_neg]. Qed.
Lemma defer_neg r rest : fin_neg (snd r) -> fin_neg (snd (defer r rest)).
Proof. destruct r as [o [[| ret h l |]|]]; cbn; auto. Qed.
Lemma directive_neg bufsize l args o : fin_neg (snd (fst (fst (directive bufsize l args o)))).
Proof.
  unfold directive.
  repeat match goal with
  | |- context [let '(_, _) := ?x in _] => destruct x
  | |- context [match ?x with _ => _ end] => destruct x
  | |- context [if ?x then _ else _] => destruct x
  end; cbn [fst snd]; try (apply defer_neg, ntoa_neg); try apply puts_neg; try apply put_neg; cbn; unfold ESNULLP, ESNOSPC, EINVAL; try lia; exact I.
Qed.
Lemma engine_neg bufsize : forall fuel l args o, match e_fin (engine fuel bufsize l args o) with FErr r _ _ => r < 0 | _ => True end.
Proof.
  induction fuel as [|f IH]; intros l args o; cbn [engine e_fin]; [exact I|].
  destruct l as [|c t]; cbn [e_fin]; [exact I|].
  destruct (c =? 37).
  - pose proof (directive_neg bufsize t args o) as D.
    destruct (directive bufsize t args o) as [[[o' [e|]] l'] args']; cbn [fst snd] in D; cbn [e_fin]; [|apply IH].
    destruct e; auto.
  - pose proof (put_neg bufsize c o) as D. destruct (put bufsize c o) as [o' [e|]]; cbn [snd] in D; cbn [e_fin]; [|apply IH]. destruct e; auto.
Qed.

(* a non-negative return: it is the number of characters the engine produced, at most dmax; when it is below dmax, dest holds
   exactly those characters followed by the terminator *)
Lemma overlay_firstn : forall init text, (length text <= length init)%nat -> firstn (length text) (overlay init text) = text.
Proof. induction init as [|a i IH]; intros [|c t] H; cbn [overlay length firstn] in *; try reflexivity; [lia|]. rewrite IH by lia. reflexivity. Qed.
Lemma set_nth_firstn : forall l n v k, (k <= n)%nat -> firstn k (set_nth l n v) = firstn k l.
Proof. induction l as [|a t IH]; intros [|n] v [|k] H; cbn [set_nth firstn]; try reflexivity; try lia. rewrite IH by lia. reflexivity. Qed.
Lemma set_nth_nth : forall l n v d, (n < length l)%nat -> nth n (set_nth l n v) d = v.
Proof. induction l as [|a t IH]; intros [|n] v d H; cbn [set_nth nth length] in *; try lia; try reflexivity. apply IH. lia. Qed.
Lemma set_nth_nth_other : forall l n m v d, n <> m -> nth m (set_nth l n v) d = nth m l d.
Proof. induction l as [|a t IH]; intros [|n] [|m] v d H; cbn [set_nth nth]; try reflexivity; try lia. apply IH. lia. Qed.
Lemma zero_from_firstn l n : (n <= length l)%nat -> firstn n (zero_from l n) = firstn n l.
Proof. intros H. unfold zero_from. rewrite firstn_app, firstn_firstn, firstn_length. replace (n - Nat.min n (length l))%nat with 0%nat by lia. rewrite Nat.min_id. cbn [firstn]. apply app_nil_r. Qed.
Lemma zero_from_nth l n d : (n < length l)%nat -> nth n (zero_from l n) d = 0.
Proof.
  intros H. unfold zero_from. rewrite app_nth2 by (rewrite firstn_length; lia). rewrite firstn_length.
  replace (n - Nat.min n (length l))%nat with 0%nat by lia. destruct (length l - n)%nat eqn:E; [lia|]. reflexivity.
Qed.
Theorem vsnprintf_count slack rmax init fmt args : let r := vsnprintf_s_m slack rmax init fmt args in
  w_known r = true -> 0 <= w_ret r ->
  let text := rev (e_out (run_engine (Z.of_nat (length init)) fmt args)) in
  w_ret r = Z.of_nat (length text) /\ w_ret r <= Z.of_nat (length init) /\
  (w_ret r < Z.of_nat (length init) -> firstn (length text) (w_dest r) = text /\ nth (length text) (w_dest r) 1 = 0).
Proof.
  cbv zeta. unfold vsnprintf_s_m. unfold ESZEROL, ESLEMAX, EINVAL.
  destruct (_ =? 0); [cbn; lia|]. destruct (rmax <? _); [cbn; lia|]. destruct (find_pn fmt 0); [cbn; lia|].
  pose proof (run_engine_bound (Z.of_nat (length init)) fmt args ltac:(lia)) as B.
  pose proof (engine_neg (Z.of_nat (length init)) (S (length fmt)) fmt args []) as N. fold (run_engine (Z.of_nat (length init)) fmt args) in N.
  set (E := run_engine (Z.of_nat (length init)) fmt args) in *.
  destruct (e_fin E) as [|ret h last0|]; cbn [w_ret w_known w_dest]; intros K R; try discriminate; [|lia].
  rewrite rev_length. split; [reflexivity|]. split; [exact B|]. intros Hlt.
  assert (Hlt' : (length (e_out E) < length init)%nat) by lia.
  replace (Nat.ltb (length (e_out E)) (length init)) with true by (symmetry; apply Nat.ltb_lt; exact Hlt').
  set (text := rev (e_out E)). assert (Ht : length text = length (e_out E)) by apply rev_length. rewrite <- Ht in *.
  destruct slack.
  - split.
    + rewrite zero_from_firstn by (rewrite set_nth_length, overlay_length; lia).
      rewrite set_nth_firstn by lia. apply overlay_firstn. lia.
    + apply zero_from_nth. rewrite set_nth_length, overlay_length. lia.
  - split.
    + rewrite !set_nth_firstn by lia. apply overlay_firstn. lia.
    + destruct (Nat.eq_dec (length init - 1) (length text)) as [E1|E1].
      * rewrite E1. apply set_nth_nth. rewrite set_nth_length, overlay_length. lia.
      * rewrite set_nth_nth_other by exact E1. apply set_nth_nth. rewrite overlay_length. lia.
Qed.
(* exactly dmax characters: the last one is overwritten by the terminator and dmax is returned -- the statement of the
   property ("fail when the text does not fit") is false of the model *)
Theorem exact_fit_refuted : exists init fmt args, let r := vsnprintf_s_m true 4096 init fmt args in
  w_ret r = Z.of_nat (length init) /\ w_dest r = [49; 50; 0].
Proof. exists [165; 165; 165], [37; 100], [AInt 123]. vm_compute. split; reflexivity. Qed.

(* ---------- the C standard's rendering of an integer conversion (executable), and where the engine agrees ---------- *)
Fixpoint digits_msf (fuel : nat) (up : bool) (base v : Z) : list Z :=
  match fuel with
  | O => []
  | S f => (if v / base =? 0 then [] else digits_msf f up base (v / base)) ++ [digit_char up (v mod base)]
  end.
Lemma digits_rev fuel : forall up base v, rev (digits_from fuel up base v) = digits_msf fuel up base v.
Proof. induction fuel as [|f IH]; intros; cbn [digits_from digits_msf rev]; [reflexivity|]. destruct (_ =? 0); cbn [rev]; [reflexivity|]. rewrite IH. reflexivity. Qed.
(* C17 7.21.6.1: sign, prefix, zeros up to the precision, digits; '0' flag pads with zeros after sign/prefix unless '-' or a precision is given;
   then spaces to the width, on the left unless '-' *)
Definition spec_int (value : Z) (negative : bool) (base prec width : Z) (fl : flags) : list Z :=
  let digs := if f_prec fl && (prec =? 0) && (value =? 0) then [] else digits_msf 64 (f_upper fl) base value in
  let zeros := repeat 48 (Z.to_nat (prec - Z.of_nat (length digs))) in
  let num := zeros ++ digs in
  let prefix := if f_hash fl && (base =? 16) && negb (value =? 0) then [48; if f_upper fl then 88 else 120]
                else if f_hash fl && (base =? 8) && (match num with 48 :: _ => false | _ => true end) then [48] else [] in
  let sign := if negative then [45] else if f_plus fl then [43] else if f_space fl then [32] else [] in
  let body := sign ++ prefix ++ num in
  let n := Z.of_nat (length body) in
  if f_left fl then body ++ spaces (width - n)
  else if f_zero fl && negb (f_prec fl) then sign ++ prefix ++ repeat 48 (Z.to_nat (width - n)) ++ num
  else spaces (width - n) ++ body.
(* what ntoa emits when everything fits *)
Definition ntoa_text (value : Z) (negative : bool) (base prec width : Z) (fl : flags) : list Z :=
  rev (fst (ntoa 1000000 [] value negative base prec width fl)).
(* the plain conversions (no flag, width or precision): the engine and the C rendering agree for every value of 64 bits *)
Definition plain (up : bool) := mkF false false false false false up false false false false false false.
Lemma puts_all bufsize : forall cs o, Z.of_nat (length o + length cs) <= bufsize -> puts bufsize cs o = (rev cs ++ o, None).
Proof.
  induction cs as [|c t IH]; intros o H; cbn [puts rev app]; [reflexivity|].
  cbn [length] in H. destruct (Z.of_nat (length o) <? bufsize) eqn:E; [|lia].
  rewrite IH by (cbn [length]; lia). rewrite <- app_assoc. reflexivity.
Qed.
Lemma digits_msf_fuel base up : 2 <= base -> forall f1 f2 v, 0 <= v < base ^ Z.of_nat f1 -> (f1 <= f2)%nat -> (0 < f1)%nat ->
  digits_msf f1 up base v = digits_msf f2 up base v.
Proof.
  intros Hb. induction f1 as [|f IH]; intros f2 v Hv Hle Hpos; [lia|].
  destruct f2 as [|g]; [lia|]. cbn [digits_msf]. destruct (v / base =? 0) eqn:E; [reflexivity|].
  apply Z.eqb_neq in E. f_equal.
  assert (Hq : 0 <= v / base < base ^ Z.of_nat f).
  { split; [apply Z.div_pos; lia|]. apply Z.div_lt_upper_bound; [lia|].
    replace (Z.of_nat (S f)) with (Z.of_nat f + 1) in Hv by lia. rewrite Z.pow_add_r in Hv by lia. lia. }
  destruct f as [|f']; [simpl in Hq; lia|]. apply IH; first [exact Hq|lia].
Qed.
Lemma spaces_neg n : n <= 0 -> spaces n = [].
Proof. intros H. unfold spaces. replace (Z.to_nat n) with 0%nat by lia. reflexivity. Qed.
Lemma repeat_neg n : n <= 0 -> repeat 48 (Z.to_nat n) = [].
Proof. intros H. replace (Z.to_nat n) with 0%nat by lia. reflexivity. Qed.
(* no flag, width or precision: the engine emits what the C standard says, for every value below base^31 *)
Theorem plain_conversion_agrees : forall up base v neg, 2 <= base <= 16 -> 0 <= v < base ^ 31 ->
  ntoa_text v neg base 0 0 (plain up) = spec_int v neg base 0 0 (plain up).
Proof.
  intros up base v neg Hb Hv.
  assert (Hlen : (length (digits_from 32 up base v) <= 31)%nat).
  { rewrite <- rev_length, digits_rev. rewrite <- (digits_msf_fuel base up ltac:(lia) 31 32 v Hv ltac:(lia) ltac:(lia)).
    rewrite <- digits_rev, rev_length. apply digits_length. }
  unfold ntoa_text, ntoa, spec_int, plain. cbn [f_hash f_prec f_left f_zero f_upper f_plus f_space andb orb negb].
  replace (0 =? 0) with true by reflexivity. cbn [andb negb].
  unfold pad_to, NTOA_BUF. rewrite repeat_neg by lia. rewrite app_nil_r.
  replace (2147483614 <? 0) with false by reflexivity.
  assert (Hv32 : 0 <= v < base ^ Z.of_nat 32).
  { split; [lia|]. eapply Z.lt_le_trans; [apply Hv|]. apply Z.pow_le_mono_r; simpl; lia. }
  rewrite <- (digits_msf_fuel base up ltac:(lia) 32 64 v Hv32 ltac:(lia) ltac:(lia)).
  rewrite <- digits_rev.
  set (D := digits_from 32 up base v) in *.
  assert (HD : (Z.of_nat (length D) <? 32) = true) by lia. rewrite HD.
  rewrite repeat_neg by lia. cbn [app].
  destruct neg.
  - rewrite spaces_neg by lia. rewrite spaces_neg by lia. cbn [app].
    rewrite puts_all by (cbn [length]; rewrite app_nil_r, rev_length, app_length; cbn [length]; lia).
    cbn [fst]. rewrite !app_nil_r, rev_involutive, rev_app_distr. reflexivity.
  - rewrite spaces_neg by lia. rewrite spaces_neg by lia. cbn [app].
    rewrite puts_all by (cbn [length]; rewrite app_nil_r, rev_length; lia).
    cbn [fst]. rewrite !app_nil_r, rev_involutive. reflexivity.
Qed.
(* ... and the positional value of the digits it prints is the argument *)
Theorem plain_digits_value : forall up base v, 2 <= base <= 16 -> 0 <= v < base ^ 32 ->
  eval_lsf base (digits_from 32 up base v) = v.
Proof. intros. apply digits_value; try lia. Qed.

(* the deviations recorded as findings, as facts about the model (each witness replayed on the implementation by the check) *)
Definition fl_of (left plus space hash zero hasprec up : bool) := mkF zero left plus space hash up false false false false hasprec false.
Example left_precision_refuted : ntoa_text 256 false 16 6 0 (fl_of true false false false false true true) <> spec_int 256 false 16 6 0 (fl_of true false false false false true true).
Proof. vm_compute. discriminate. Qed.
Example hash_width_refuted : ntoa_text 4660 false 16 0 4 (fl_of false false false true false false false) <> spec_int 4660 false 16 0 4 (fl_of false false false true false false false).
Proof. vm_compute. discriminate. Qed.
Example hash_octal_precision_refuted : ntoa_text 1 false 8 6 0 (fl_of false false false true false true false) <> spec_int 1 false 8 6 0 (fl_of false false false true false true false).
Proof. vm_compute. discriminate. Qed.
Example buffer32_refuted : ntoa_text 1 false 10 40 0 (fl_of false false false false false true false) <> spec_int 1 false 10 40 0 (fl_of false false false false false true false).
Proof. vm_compute. discriminate. Qed.
(* the same engine agrees with the standard on representative flag combinations (computation; not a universal claim) *)
Example flags_agree_sample :
  forallb (fun t => let '(v, neg, base, prec, width, fl) := t in
                    if list_eq_dec Z.eq_dec (ntoa_text v neg base prec width fl) (spec_int v neg base prec width fl) then true else false)
    [(42, false, 10, 0, 8, fl_of false true false false false false false); (42, true, 10, 0, 8, fl_of false false false false true false false);
     (255, false, 16, 0, 0, fl_of false false false true false false true); (7, false, 8, 3, 6, fl_of false false true false false true false);
     (0, false, 10, 0, 0, fl_of false false false false false true false); (12345, false, 10, 8, 12, fl_of false false false false false true false)] = true.
Proof. vm_compute. reflexivity. Qed.
