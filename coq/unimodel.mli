
val negb : bool -> bool

val fst : ('a1 * 'a2) -> 'a1

val snd : ('a1 * 'a2) -> 'a2

val app : 'a1 list -> 'a1 list -> 'a1 list

type comparison =
| Eq
| Lt
| Gt

val compOpp : comparison -> comparison

val rev : 'a1 list -> 'a1 list

val map : ('a1 -> 'a2) -> 'a1 list -> 'a2 list

val flat_map : ('a1 -> 'a2 list) -> 'a1 list -> 'a2 list

val fold_right : ('a2 -> 'a1 -> 'a1) -> 'a1 -> 'a2 list -> 'a1

val existsb : ('a1 -> bool) -> 'a1 list -> bool

type positive =
| XI of positive
| XO of positive
| XH

type z =
| Z0
| Zpos of positive
| Zneg of positive

module Pos :
 sig
  val succ : positive -> positive

  val add : positive -> positive -> positive

  val add_carry : positive -> positive -> positive

  val pred_double : positive -> positive

  val mul : positive -> positive -> positive

  val compare_cont : comparison -> positive -> positive -> comparison

  val compare : positive -> positive -> comparison

  val eqb : positive -> positive -> bool
 end

module Z :
 sig
  val double : z -> z

  val succ_double : z -> z

  val pred_double : z -> z

  val pos_sub : positive -> positive -> z

  val add : z -> z -> z

  val opp : z -> z

  val sub : z -> z -> z

  val mul : z -> z -> z

  val compare : z -> z -> comparison

  val leb : z -> z -> bool

  val ltb : z -> z -> bool

  val eqb : z -> z -> bool

  val max : z -> z -> z

  val to_pos : z -> positive

  val pos_div_eucl : positive -> z -> z * z

  val div_eucl : z -> z -> z * z

  val div : z -> z -> z

  val modulo : z -> z -> z
 end

module PositiveMap :
 sig
  type key = positive

  type 'a tree =
  | Leaf
  | Node of 'a tree * 'a option * 'a tree

  type 'a t = 'a tree

  val empty : 'a1 t

  val find : key -> 'a1 t -> 'a1 option

  val add : key -> 'a1 -> 'a1 t -> 'a1 t
 end

val key0 : z -> positive

val mk_map : (z * 'a1) list -> 'a1 PositiveMap.t

val pair_key : z -> z -> z

type tables = { t_decomp : z list PositiveMap.t; t_ccc : z PositiveMap.t;
                t_comp : z PositiveMap.t; t_excl : unit PositiveMap.t }

val build :
  (z * z list) list -> (z * z) list -> ((z * z) * z) list -> z list -> tables

val sBase : z

val lBase : z

val vBase : z

val tBase : z

val lCount : z

val vCount : z

val tCount : z

val nCount : z

val sCount : z

val is_S : z -> bool

val is_L : z -> bool

val is_V : z -> bool

val is_T : z -> bool

val is_LV : z -> bool

val hangul_decomp : z -> z list

val ccc : tables -> z -> z

val decomp : tables -> z -> z list

val excluded : tables -> z -> bool

val composite : tables -> z -> z -> z

val compose2 : tables -> z -> z -> z option

val ins : tables -> z -> z list -> z list

val reorder : tables -> z list -> z list

val nfd : tables -> z list -> z list

type cst = { c_valid : bool; c_S : z; c_pre : z; c_seq : z list;
             c_out : z list }

val cinit : cst

val flush : cst -> z -> cst

val cstep : tables -> cst -> z -> bool -> cst

val crun : tables -> cst -> z list -> cst

val compose : tables -> z list -> z list

val nfc : tables -> z list -> z list

val ref_go : tables -> z list -> z option -> z list -> z list -> z list

val ref_compose : tables -> z list -> z list

val impl_decomp : (z * z list) list

val impl_ccc : (z * z) list

val impl_compose : ((z * z) * z) list

val impl_excl : z list

val tI : tables

val uni_nfd : z list -> z list

val uni_nfc : z list -> z list

val uni_nfc_ref : z list -> z list
