(* Properties_C13.v -- C13: constraint-handler registration = per-thread override of a global.
   Only theorem statements, each closed by [exact]. *)
From Coq Require Import List Arith Bool.
From SC Require Import HandlerModel HandlerProofs.
Import ListNotations.

(* every finite history, any threads: the implementation model answers as the specification *)
Theorem C13_refinement : forall l, run_hist h_init l = spec_hist [] l.
Proof. exact handler_model_correct. Qed.
Print Assumptions C13_refinement.
(* registering returns the previous registration of the same kind (NULL if never registered) *)
Theorem C13_set_returns_previous : forall past k t h, spec_out past (OSet k t h) = ORet (as_slot (last_glob k past)).
Proof. exact set_returns_previous. Qed.
Print Assumptions C13_set_returns_previous.
(* string and memory registrations are independent *)
Theorem C13_kinds_independent : forall past k t o,
  (match o with OSet k' _ _ | OThrdSet k' _ _ => k' <> k | _ => True end) ->
  (match o with OSpawn _ c => c <> t | _ => True end) ->
  dispatch_spec k t (past ++ [o]) = dispatch_spec k t past.
Proof. exact kinds_independent. Qed.
Print Assumptions C13_kinds_independent.
(* a thread-local registration is never used on behalf of another thread *)
Theorem C13_thread_local_is_private : forall past k t h k' t', t' <> t ->
  dispatch_spec k' t' (past ++ [OThrdSet k t h]) = dispatch_spec k' t' past.
Proof. exact thrd_set_is_private. Qed.
Print Assumptions C13_thread_local_is_private.
(* nor inherited by a thread created later (whoever creates it): the open clause of the property is
   modelled as "not inherited", which is what thread-local storage provides *)
Theorem C13_spawn_fresh : forall past pa c k, last_thrd k c (past ++ [OSpawn pa c]) = None.
Proof. exact spawn_fresh. Qed.
Print Assumptions C13_spawn_fresh.
(* any other library call (the model's OCall: a successful call or a query of an entry point that is not a registration)
   leaves every dispatch decision and every later registration result as it was *)
Theorem C13_other_calls_do_not_register : forall past k t t',
  dispatch_spec k t (past ++ [OCall t']) = dispatch_spec k t past /\
  last_glob k (past ++ [OCall t']) = last_glob k past /\ last_thrd k t (past ++ [OCall t']) = last_thrd k t past.
Proof. intros. split; [apply kinds_independent; exact I|]. rewrite last_glob_snoc, last_thrd_snoc. split; reflexivity. Qed.
Print Assumptions C13_other_calls_do_not_register.
(* non-vacuity: a history with three threads, both kinds, NULL resets *)
Example C13_example :
  run_hist h_init [OViolate KStr 0; OSet KStr 0 (Some 1); OThrdSet KStr 0 (Some 2); OSpawn 0 1; OViolate KStr 1;
                   OViolate KStr 0; OThrdSet KStr 0 None; OViolate KStr 0; OViolate KMem 1]
  = [ORan RDef; ORet SNull; ORet SNull; ONone; ORan (RUser 1); ORan (RUser 2); ORet (SUser 2); ORan RDef; ORan RDef].
Proof. vm_compute. reflexivity. Qed.
