(* SpecMem.v -- functional specification and handler lemmas of the memory family. *)
From Coq Require Import List ZArith Lia Bool.
From SC Require Import Base Wp Cfg Comb CombProofs ModMem ProofsMem.
Import ListNotations.
Local Open Scope Z_scope.
Local Open Scope prog_scope.

(* CHK_OVRLP_BUTSAME is interval intersection, except for identical pointers *)
Lemma chk_ovrlp_butsame_spec dp dlen sp slen : 0 < dlen -> 0 < slen ->
  chk_ovrlp_butsame dp dlen sp slen = true <-> (dp <> sp /\ dp < sp + slen /\ sp < dp + dlen).
Proof.
  intros Hd Hs. unfold chk_ovrlp_butsame.
  rewrite orb_true_iff, !andb_true_iff, !Z.ltb_lt. lia.
Qed.
Lemma chk_ovrlp_spec dp dlen sp slen : 0 < dlen -> 0 < slen ->
  chk_ovrlp dp dlen sp slen = true <-> (dp < sp + slen /\ sp < dp + dlen).
Proof.
  intros Hd Hs. unfold chk_ovrlp.
  rewrite orb_true_iff, !andb_true_iff, !Z.ltb_lt, Z.leb_le. lia.
Qed.

Definition zeroed (m' : mem) (d n : Z) : Prop := forall a, d <= a < d + n -> m' a = 0.
Definition moved (m m' : mem) (d s n : Z) : Prop :=
  forall a, m' a = if in_range d n a then m (s + (a - d)) else m a.

Definition mem_copy_post (c : cfg) (w : Z) (ovl : bool) (d D s slen : Z) (m : mem) (r : Z) (m' : mem) : Prop :=
  (D < slen * w -> r = (if rmax_mem c <? slen * w then ESLEMAX else ESNOSPC) /\ zeroed m' d D) /\
  (slen * w <= D ->
     if ovl && chk_ovrlp_butsame d (D / w * w) s (slen * w)
     then r = ESOVRLP /\ zeroed m' d D
     else r = EOK /\ moved m m' d s (slen * w)).

Theorem mem_copy_gen_spec c w rmax use_bos ovl code clr d dmax s slen destbos srcbos m :
  0 < w -> d <> 0 -> s <> 0 -> 1 <= dmax -> 1 <= slen ->
  ((destbos = BOS_UNKNOWN /\ dmax <= rmax) \/ (destbos <> BOS_UNKNOWN /\ dmax <= destbos)) ->
  (srcbos = BOS_UNKNOWN \/ slen * w <= srcbos) ->
  wp (mem_copy_gen c w rmax use_bos ovl code clr d dmax s slen destbos srcbos) m
     (mem_copy_post c w ovl d (eff_dmax use_bos dmax destbos) s slen m).
Proof.
  intros Hw Hd Hs H1 Hl Hu Hsb. unfold mem_copy_gen, chk_dest_mem.
  replace (slen =? 0) with false by (symmetry; apply Z.eqb_neq; lia).
  replace (d =? 0) with false by (symmetry; apply Z.eqb_neq; lia).
  replace (dmax =? 0) with false by (symmetry; apply Z.eqb_neq; lia).
  fold (eff_dmax use_bos dmax destbos). set (D := eff_dmax use_bos dmax destbos).
  assert (K : wp (if s =? 0 then handle_mem_error d D ESNULLP;;; Ret ESNULLP
     else if D <? slen * w then let err := if rmax_mem c <? slen * w then ESLEMAX else ESNOSPC in handle_mem_error d D err;;; Ret err
     else if negb (srcbos =? BOS_UNKNOWN) && (srcbos <? slen * w)
          then (if clr then Fill d D 0 (Ret tt) else Ret tt);;; fail_mem code
          else if ovl && chk_ovrlp_butsame d (D / w * w) s (slen * w) then Fill d D 0 (fail_mem ESOVRLP) else Move d s (slen * w) (Ret EOK)) m
     (mem_copy_post c w ovl d D s slen m)).
  { replace (s =? 0) with false by (symmetry; apply Z.eqb_neq; lia).
    unfold mem_copy_post. destruct (D <? slen * w) eqn:E1.
    - apply Z.ltb_lt in E1. cbn. split; [intros _|intros; lia]. split; [reflexivity|]. intros a Ha. rewrite fill_in by lia. reflexivity.
    - apply Z.ltb_ge in E1.
      replace (negb (srcbos =? BOS_UNKNOWN) && (srcbos <? slen * w)) with false.
      2:{ symmetry. destruct Hsb as [->|Hsb]; [rewrite Z.eqb_refl; reflexivity|].
          replace (srcbos <? slen * w) with false by (symmetry; apply Z.ltb_ge; lia). apply andb_false_r. }
      destruct (ovl && chk_ovrlp_butsame d (D / w * w) s (slen * w)) eqn:E2; cbn.
      + split; [intros; lia|intros _]. split; [reflexivity|]. intros a Ha. rewrite fill_in by lia. reflexivity.
      + split; [intros; lia|intros _]. split; [reflexivity|]. intros a. reflexivity. }
  destruct Hu as [[-> Hr]|[Hn Hr]].
  - rewrite Z.eqb_refl. replace (rmax <? dmax) with false by (symmetry; apply Z.ltb_ge; lia). exact K.
  - replace (destbos =? BOS_UNKNOWN) with false by (symmetry; apply Z.eqb_neq; lia).
    replace (destbos <? dmax) with false by (symmetry; apply Z.ltb_ge; lia). exact K.
Qed.

(* ---- C05 for the memory family ---- *)
Ltac cne := let H := fresh in intro H; vm_compute in H; discriminate H.
Lemma fail_mem_hspec code : code <> 0 -> hspec (report_post HMem) [] (fail_mem code).
Proof. intros H. cbn. apply report_one; auto. Qed.
Lemma chk_dest_mem_hspec rmax d dmax destbos (k : unit -> prog Z) :
  hspec (report_post HMem) [] (k tt) -> hspec (report_post HMem) [] (chk_dest_mem rmax d dmax destbos k).
Proof.
  intros Hk. unfold chk_dest_mem. destruct (d =? 0); [apply fail_mem_hspec; cne|].
  destruct (dmax =? 0); [apply fail_mem_hspec; cne|].
  destruct (destbos =? BOS_UNKNOWN); [destruct (rmax <? dmax); [apply fail_mem_hspec; cne|exact Hk]|].
  destruct (destbos <? dmax); [destruct (rmax <? dmax); apply fail_mem_hspec; cne|exact Hk].
Qed.
Lemma mem_copy_gen_hspec c w rmax use_bos ovl code clr d dmax s slen destbos srcbos : code <> 0 ->
  hspec (report_post HMem) [] (mem_copy_gen c w rmax use_bos ovl code clr d dmax s slen destbos srcbos).
Proof.
  intros Hc. unfold mem_copy_gen. destruct (slen =? 0); [apply report_ok|].
  apply chk_dest_mem_hspec. cbv zeta.
  destruct (s =? 0). { apply handle_mem_error_hspec. cbn. apply report_one; cne. }
  destruct (_ <? slen * w). { apply handle_mem_error_hspec. cbn. destruct (rmax_mem c <? slen * w); apply report_one; cne. }
  destruct (negb (srcbos =? BOS_UNKNOWN) && (srcbos <? slen * w)).
  { apply hspec_bind. destruct clr; cbn; apply report_one; auto. }
  destruct (ovl && _); cbn; [apply report_one; cne|apply report_ok].
Qed.

(* memset_s reports and then still fills: one report, code returned *)
Lemma memset_s_hspec c d dmax value n destbos : hspec (report_post HMem) [] (memset_s c d dmax value n destbos).
Proof.
  unfold memset_s. destruct (d =? 0); [apply fail_mem_hspec; cne|]. destruct (n =? 0); [apply report_ok|].
  assert (G : forall D, hspec (report_post HMem) []
    (if 255 <? value then fail_mem ESLEMAX
     else if D <? n then let err := if rmax_mem c <? n then ESLEMAX else ESNOSPC in Handler HMem err (Fill d D value (Ret err))
     else Fill d n value (Ret EOK))).
  { intros D. destruct (255 <? value); [apply fail_mem_hspec; cne|]. destruct (D <? n); cbn; [|apply report_ok].
    destruct (rmax_mem c <? n); apply report_one; cne. }
  destruct (destbos =? BOS_UNKNOWN); [destruct (rmax_mem c <? dmax); [apply fail_mem_hspec; cne|apply G]|].
  destruct (destbos <? dmax); [destruct (rmax_mem c <? dmax); apply fail_mem_hspec; cne|apply G].
Qed.
Lemma memzerow_s_hspec c w d len destbos : hspec (report_post HMem) [] (memzerow_s c w d len destbos).
Proof. unfold memzerow_s. apply chk_dest_mem_hspec. cbn. apply report_ok. Qed.

(* memzero / memset functional part (C06, C18a): exactly the requested bytes hold the value *)
Lemma memzerow_s_spec c w d len destbos m :
  d <> 0 -> 1 <= len * w -> ((destbos = BOS_UNKNOWN /\ len * w <= rmax_mem c) \/ (destbos <> BOS_UNKNOWN /\ len * w <= destbos)) ->
  wp (memzerow_s c w d len destbos) m (fun r m' => r = EOK /\ forall a, m' a = if in_range d (len * w) a then 0 else m a).
Proof.
  intros Hd H1 Hu. unfold memzerow_s, chk_dest_mem.
  replace (d =? 0) with false by (symmetry; apply Z.eqb_neq; lia).
  replace (len * w =? 0) with false by (symmetry; apply Z.eqb_neq; lia).
  assert (K : wp (Fill d (len * w) 0 (Ret EOK)) m (fun r m' => r = EOK /\ forall a, m' a = if in_range d (len * w) a then 0 else m a)).
  { cbn. split; [reflexivity|]. intros a. unfold fill. destruct (in_range d (len * w) a); reflexivity. }
  destruct Hu as [[-> Hr]|[Hn Hr]].
  - rewrite Z.eqb_refl. replace (rmax_mem c <? len * w) with false by (symmetry; apply Z.ltb_ge; lia). exact K.
  - replace (destbos =? BOS_UNKNOWN) with false by (symmetry; apply Z.eqb_neq; lia).
    replace (destbos <? len * w) with false by (symmetry; apply Z.ltb_ge; lia). exact K.
Qed.
Lemma memset_s_spec c d dmax value n m :
  d <> 0 -> 1 <= n <= dmax -> dmax <= rmax_mem c -> 0 <= value <= 255 ->
  wp (memset_s c d dmax value n BOS_UNKNOWN) m (fun r m' => r = EOK /\ forall a, m' a = if in_range d n a then value else m a).
Proof.
  intros Hd Hn Hr Hv. unfold memset_s.
  replace (d =? 0) with false by (symmetry; apply Z.eqb_neq; lia).
  replace (n =? 0) with false by (symmetry; apply Z.eqb_neq; lia).
  rewrite Z.eqb_refl. replace (rmax_mem c <? dmax) with false by (symmetry; apply Z.ltb_ge; lia).
  replace (255 <? value) with false by (symmetry; apply Z.ltb_ge; lia).
  replace (dmax <? n) with false by (symmetry; apply Z.ltb_ge; lia).
  cbn. split; [reflexivity|]. intros a. unfold fill. destruct (in_range d n a); [apply Z.mod_small; lia|reflexivity].
Qed.
