(* CombProofs.v -- footprint, return-value and handler lemmas of the combinators in Comb.v. *)
From Coq Require Import List ZArith Lia Bool.
From SC Require Import Base Cfg Comb.
Import ListNotations.
Local Open Scope Z_scope.
Local Open Scope prog_scope.

Definition ext (d n : Z) : Z -> Prop := fun a => d <= a < d + n.
Definition nowhere : Z -> Prop := fun _ => False.

Lemma ext_sub d n d' n' : d <= d' -> d' + n' <= d + n -> forall a, ext d' n' a -> ext d n a.
Proof. unfold ext; intros; lia. Qed.
Lemma range_ext d n a k : d <= a -> a + k <= d + n -> range_in (ext d n) a k.
Proof. unfold range_in, ext; intros; lia. Qed.
Lemma mul_ge_self w n : 0 < w -> 1 <= n -> w <= n * w.
Proof. intros. nia. Qed.

Ltac bsplit := repeat match goal with
  | |- context [if ?b then _ else _] => let E := fresh "E" in destruct b eqn:E
  end.

(* ---------------- writes ---------------- *)
Lemma zero_loop_writes w n : 0 < w -> forall d, writes_in (ext d (Z.of_nat n * w)) (zero_loop w n d).
Proof.
  intros Hw. induction n as [|n IH]; intros d; cbn [zero_loop writes_in]; [exact I|].
  rewrite Nat2Z.inj_succ, Z.mul_succ_l. split.
  - apply range_ext; lia.
  - eapply writes_in_weaken; [|apply IH]. apply ext_sub; lia.
Qed.

Lemma zero_slack_writes c w n d : 0 < w -> writes_in (ext d (Z.of_nat n * w)) (zero_slack c w d n).
Proof.
  intros Hw. unfold zero_slack. destruct (null_slack c); [|exact I].
  destruct (32 <? Z.of_nat n).
  - cbn. split; [apply range_ext; lia|exact I].
  - apply zero_loop_writes; auto.
Qed.

Lemma handle_error_writes c w d dmax code (P : Z -> Prop) :
  0 < w -> 1 <= dmax -> (forall a, ext d (dmax * w) a -> P a) ->
  writes_in P (handle_error c w d dmax code).
Proof.
  intros Hw Hd HP. unfold handle_error. apply writes_in_bind; [|intros; exact I].
  pose proof (mul_ge_self w dmax Hw Hd).
  destruct (null_slack c); cbn; (split; [|exact I]); intros x Hx; apply HP; unfold ext; lia.
Qed.

Lemma handle_mem_error_writes d dmax code (P : Z -> Prop) :
  (forall a, ext d dmax a -> P a) -> writes_in P (handle_mem_error d dmax code).
Proof. intros HP. cbn. split; [|exact I]. intros x Hx; apply HP; unfold ext; lia. Qed.

Lemma nlen_loop_writes g w n : forall p cnt bos, writes_in nowhere (nlen_loop g w n p cnt bos).
Proof.
  induction n as [|n IH]; intros p cnt bos; cbn [nlen_loop].
  - destruct g; cbn; auto.
  - cbn. intros v. bsplit; cbn; auto.
Qed.
Lemma nlen_loop_rets g w n : forall p cnt bos, 0 <= cnt ->
  rets (fun r => cnt <= r <= cnt + Z.of_nat n) (nlen_loop g w n p cnt bos).
Proof.
  induction n as [|n IH]; intros p cnt bos Hc; cbn [nlen_loop].
  - destruct g; cbn [rets]; intros; cbn [Z.of_nat]; lia.
  - rewrite Nat2Z.inj_succ. cbn [rets]. intros v. bsplit; cbn [rets]; try lia;
    (eapply rets_weaken; [|apply IH; lia]); cbn beta; intros; lia.
Qed.

Lemma strnlen_s_prog_writes c str smax bos : writes_in nowhere (strnlen_s_prog c str smax bos).
Proof. unfold strnlen_s_prog. bsplit; cbn; auto. apply nlen_loop_writes. Qed.
Lemma strnlen_s_prog_rets c str smax bos : 0 <= smax ->
  rets (fun r => 0 <= r <= smax) (strnlen_s_prog c str smax bos).
Proof.
  intros H. unfold strnlen_s_prog. bsplit; cbn; try lia.
  eapply rets_weaken; [|apply nlen_loop_rets; lia]. cbn. intros a Ha. rewrite Z2Nat.id in Ha; lia.
Qed.

Lemma bos_overflow_writes c d dmax (P : Z -> Prop) :
  1 <= dmax -> (forall a, ext d dmax a -> P a) -> writes_in P (bos_overflow c d dmax).
Proof.
  intros Hd HP. unfold bos_overflow.
  eapply writes_in_bind_rets with (Q := fun r => 0 <= r <= dmax).
  - eapply writes_in_weaken; [|apply strnlen_s_prog_writes]. intros a [].
  - apply strnlen_s_prog_rets. lia.
  - intros len Hl. destruct (rmax_str c <? len).
    + apply writes_in_bind; [|intros; exact I]. apply handle_error_writes; try lia.
      intros a Ha. apply HP. revert Ha. apply ext_sub; lia.
    + apply writes_in_bind; [|intros; exact I].
      (* len may be 0: then the clear is empty in the slack build and one element otherwise *)
      unfold handle_error. apply writes_in_bind; [|intros; exact I].
      destruct (null_slack c); cbn; (split; [|exact I]); intros x Hx; apply HP; unfold ext; lia.
Qed.

Section CopyLoopProofs.
  Variables (c : cfg) (w : Z) (fwd : bool) (od odmax bumper : Z) (use_slen : bool).
  Hypothesis Hw : 0 < w.
  Hypothesis Hod : 1 <= odmax.
  Let P := ext od (odmax * w).

  Lemma copy_loop_writes n : forall d s sl,
    od <= d -> d + Z.of_nat n * w = od + odmax * w ->
    writes_in P (copy_loop c w fwd od odmax bumper use_slen n d s sl).
  Proof.
    induction n as [|n IH]; intros d s sl Hd Hn; cbn [copy_loop].
    - apply writes_in_bind; [|intros; exact I]. apply handle_error_writes; auto.
    - rewrite Nat2Z.inj_succ, Z.mul_succ_l in Hn.
      assert (HS : forall a, ext d (Z.of_nat (S n) * w) a -> P a).
      { rewrite Nat2Z.inj_succ, Z.mul_succ_l. apply ext_sub; lia. }
      destruct (if fwd then d =? bumper else s =? bumper).
      { apply writes_in_bind; [|intros; exact I]. apply handle_error_writes; auto. }
      destruct (use_slen && (sl =? 0)).
      { apply writes_in_bind; [|intros; exact I]. destruct (null_slack c).
        - eapply writes_in_weaken; [exact HS|]. apply zero_slack_writes; auto.
        - cbn. split; [|exact I]. intros x Hx. apply HS. rewrite Nat2Z.inj_succ, Z.mul_succ_l. unfold ext. lia. }
      cbn [writes_in]. intros ch. split.
      { intros x Hx. apply HS. rewrite Nat2Z.inj_succ, Z.mul_succ_l. unfold ext. lia. }
      destruct (ch =? 0).
      + apply writes_in_bind; [|intros; exact I]. eapply writes_in_weaken; [exact HS|]. apply zero_slack_writes; auto.
      + apply IH; lia.
  Qed.

  Lemma find_end_writes (k : nat -> Z -> prog Z) n : forall d,
    od <= d -> d + Z.of_nat n * w = od + odmax * w ->
    (forall n' d', od <= d' -> d' + Z.of_nat n' * w = od + odmax * w -> writes_in P (k n' d')) ->
    writes_in P (find_end c w fwd od odmax bumper n d k).
  Proof.
    induction n as [|n IH]; intros d Hd Hn Hk.
    - cbn. intros ch. destruct (ch =? 0); [apply Hk; auto|].
      destruct (fwd && (d =? bumper)); (apply writes_in_bind; [|intros; exact I]); apply handle_error_writes; auto.
    - cbn [find_end writes_in]. intros ch. destruct (ch =? 0); [apply Hk; auto|].
      destruct (fwd && (d =? bumper)).
      { apply writes_in_bind; [|intros; exact I]. apply handle_error_writes; auto. }
      destruct n as [|n'].
      + apply writes_in_bind; [|intros; exact I]. apply handle_error_writes; auto.
      + rewrite Nat2Z.inj_succ, Z.mul_succ_l in Hn. apply IH; auto; lia.
  Qed.
End CopyLoopProofs.

(* entry checks: the continuation only runs with a usable dest *)
Lemma chk_dest_str_writes c d dmax destbos (k : unit -> prog Z) (P : Z -> Prop) :
  0 <= dmax -> (destbos = BOS_UNKNOWN \/ dmax <= destbos) ->
  (d <> 0 -> 1 <= dmax -> writes_in P (k tt)) ->
  writes_in P (chk_dest_str c d dmax destbos k).
Proof.
  intros H0 Hb Hk. unfold chk_dest_str, fail_str.
  destruct (d =? 0) eqn:E1; [exact I|]. destruct (dmax =? 0) eqn:E2; [exact I|].
  assert (d <> 0) by lia. assert (1 <= dmax) by lia.
  destruct (destbos =? BOS_UNKNOWN) eqn:E3.
  - destruct (rmax_str c <? dmax); [exact I|auto].
  - destruct (destbos <? dmax) eqn:E4; [|auto]. lia.
Qed.
Lemma chk_dest_wstr_writes c d dmax destbos (k : unit -> prog Z) (P : Z -> Prop) :
  0 <= dmax -> (destbos = BOS_UNKNOWN \/ dmax * wchar_w c <= destbos) ->
  (d <> 0 -> 1 <= dmax -> writes_in P (k tt)) ->
  writes_in P (chk_dest_wstr c d dmax destbos k).
Proof.
  intros H0 Hb Hk. unfold chk_dest_wstr, fail_str.
  destruct (d =? 0) eqn:E1; [exact I|]. destruct (dmax =? 0) eqn:E2; [exact I|].
  assert (d <> 0) by lia. assert (1 <= dmax) by lia.
  destruct (destbos =? BOS_UNKNOWN) eqn:E3.
  - destruct (rmax_wstr c <? dmax); [exact I|auto].
  - destruct (destbos <? dmax * wchar_w c) eqn:E4; [|auto]. lia.
Qed.

(* ---------------- handler sequences (C05) ---------------- *)
Lemma hspec_no_handler {A} (post : list (hkind * Z) -> A -> Prop) acc (p : prog A) :
  no_handler p -> (forall a, post acc a) -> hspec post acc p.
Proof. intros Hn Hp. induction p; cbn in *; auto; contradiction. Qed.

Lemma zero_loop_noh w n : forall d, no_handler (zero_loop w n d).
Proof. induction n; intros d; cbn; auto. Qed.
Lemma zero_slack_noh c w d n : no_handler (zero_slack c w d n).
Proof. unfold zero_slack. destruct (null_slack c); [destruct (32 <? Z.of_nat n)|]; cbn; auto. apply zero_loop_noh. Qed.
Lemma nlen_loop_noh g w n : forall p cnt bos, no_handler (nlen_loop g w n p cnt bos).
Proof. induction n as [|n IH]; intros p cnt bos; cbn [nlen_loop]; [destruct g; cbn; auto|]. cbn. intros v. bsplit; cbn; auto. Qed.

Lemma handle_error_hspec {A} (post : list (hkind * Z) -> A -> Prop) acc c w d dmax code (k : prog A) :
  hspec post (acc ++ [(HStr, code)]) k -> hspec post acc (handle_error c w d dmax code ;;; k).
Proof. intros H. unfold handle_error. destruct (null_slack c); cbn; exact H. Qed.
Lemma handle_mem_error_hspec {A} (post : list (hkind * Z) -> A -> Prop) acc d dmax code (k : prog A) :
  hspec post (acc ++ [(HMem, code)]) k -> hspec post acc (handle_mem_error d dmax code ;;; k).
Proof. intros H. cbn. exact H. Qed.

(* strnlen_s on acceptable arguments reports nothing *)
Lemma strnlen_s_prog_hspec_ok {A} (post : list (hkind * Z) -> A -> Prop) acc c str smax bos (k : Z -> prog A) :
  str <> 0 -> 1 <= smax <= rmax_str c -> (forall r, hspec post acc (k r)) ->
  hspec post acc (r <- strnlen_s_prog c str smax bos ;; k r).
Proof.
  intros Hs Hm Hk. apply hspec_bind. unfold strnlen_s_prog.
  replace (str =? 0) with false by (symmetry; apply Z.eqb_neq; lia).
  replace (smax =? 0) with false by (symmetry; apply Z.eqb_neq; lia).
  replace (rmax_str c <? smax) with false by (symmetry; apply Z.ltb_ge; lia).
  apply hspec_no_handler; [apply nlen_loop_noh|auto].
Qed.

(* exactly one report with the returned code, or none and success *)
Definition report_post (k : hkind) (hs : list (hkind * Z)) (r : Z) : Prop :=
  (r = 0 /\ hs = []) \/ (r <> 0 /\ hs = [(k, r)]).
Lemma report_ok k : report_post k [] EOK.
Proof. left. split; reflexivity. Qed.
Lemma report_one k code : code <> 0 -> report_post k ([] ++ [(k, code)]) code.
Proof. intros H. right. split; [exact H|reflexivity]. Qed.

Section CopyLoopH.
  Variables (c : cfg) (w : Z) (fwd : bool) (od odmax bumper : Z) (use_slen : bool).
  Variable post : list (hkind * Z) -> Z -> Prop.
  Variable acc : list (hkind * Z).
  Hypothesis Hok : post acc EOK.
  Hypothesis Hov : post (acc ++ [(HStr, ESOVRLP)]) ESOVRLP.
  Hypothesis Hns : post (acc ++ [(HStr, ESNOSPC)]) ESNOSPC.
  Hypothesis Hut : post (acc ++ [(HStr, ESUNTERM)]) ESUNTERM.

  Lemma copy_loop_hspec n : forall d s sl, hspec post acc (copy_loop c w fwd od odmax bumper use_slen n d s sl).
  Proof.
    induction n as [|n IH]; intros d s sl; cbn [copy_loop].
    - apply handle_error_hspec. exact Hns.
    - destruct (if fwd then d =? bumper else s =? bumper). { apply handle_error_hspec. exact Hov. }
      destruct (use_slen && (sl =? 0)).
      { apply hspec_bind. apply hspec_no_handler; [|intros; exact Hok].
        destruct (null_slack c); [apply zero_slack_noh|cbn; auto]. }
      cbn [hspec]. intros ch. destruct (ch =? 0).
      + apply hspec_bind. apply hspec_no_handler; [apply zero_slack_noh|intros; exact Hok].
      + apply IH.
  Qed.

  Lemma find_end_hspec (k : nat -> Z -> prog Z) n : forall d,
    (forall n' d', hspec post acc (k n' d')) -> hspec post acc (find_end c w fwd od odmax bumper n d k).
  Proof.
    induction n as [|n IH]; intros d Hk.
    - cbn. intros ch. destruct (ch =? 0); [apply Hk|].
      destruct (fwd && (d =? bumper)); apply handle_error_hspec; [exact Hov|exact Hut].
    - cbn [find_end hspec]. intros ch. destruct (ch =? 0); [apply Hk|].
      destruct (fwd && (d =? bumper)). { apply handle_error_hspec. exact Hov. }
      destruct n as [|n']; [apply handle_error_hspec; exact Hut|apply IH; auto].
  Qed.
End CopyLoopH.

(* ---------------- reads of the bounded length scan ---------------- *)
Lemma nlen_loop_reads w n : 0 < w -> forall p cnt bos, reads_in (ext p (Z.of_nat n * w)) (nlen_loop true w n p cnt bos).
Proof.
  intros Hw. induction n as [|n IH]; intros p cnt bos; cbn [nlen_loop]; [exact I|].
  rewrite Nat2Z.inj_succ, Z.mul_succ_l. cbn [reads_in]. split; [apply range_ext; lia|].
  intros v. bsplit; cbn [reads_in]; auto; (eapply reads_in_weaken; [|apply IH]); apply ext_sub; lia.
Qed.
(* the unguarded order reads one element more: the refutation witness for the former strnlen_s *)
Lemma nlen_loop_unguarded_reads_past : ~ reads_in (ext 100 2) (nlen_loop false 1 2 100 0 BOS_UNKNOWN).
Proof.
  cbn. intros [_ H]. specialize (H 1). cbn in H. destruct H as [_ H]. specialize (H 1). cbn in H.
  destruct H as [H _]. specialize (H 102). unfold ext in H. lia.
Qed.
Lemma strnlen_s_prog_reads c str smax bos : strnlen_guarded = true -> 0 <= smax ->
  reads_in (ext str smax) (strnlen_s_prog c str smax bos).
Proof.
  intros Hg H0. unfold strnlen_s_prog. rewrite Hg. bsplit; cbn [reads_in]; auto.
  eapply reads_in_weaken; [|apply nlen_loop_reads; lia]. apply ext_sub; lia.
Qed.
