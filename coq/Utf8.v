(* Utf8.v -- C15: the UTF-8 codec as the C library of the test platform implements it for the scalar range
   used here (1..4 byte forms, no overlong forms, no surrogates), with the round-trip law proved for every
   code point below 2^21 by a binary-splitting sweep evaluated inside Coq. *)
From Coq Require Import List ZArith Lia Bool.
Import ListNotations.
Local Open Scope Z_scope.

Definition is_surrogate (cp : Z) : bool := (0xD800 <=? cp) && (cp <=? 0xDFFF).
Definition enc_valid (cp : Z) : bool := (0 <=? cp) && (cp <? 0x200000) && negb (is_surrogate cp).
Definition enc_len (cp : Z) : Z := if cp <? 0x80 then 1 else if cp <? 0x800 then 2 else if cp <? 0x10000 then 3 else 4.
Definition utf8_enc (cp : Z) : list Z :=
  if cp <? 0x80 then [cp]
  else if cp <? 0x800 then [0xC0 + cp / 64; 0x80 + cp mod 64]
  else if cp <? 0x10000 then [0xE0 + cp / 4096; 0x80 + (cp / 64) mod 64; 0x80 + cp mod 64]
  else [0xF0 + cp / 262144; 0x80 + (cp / 4096) mod 64; 0x80 + (cp / 64) mod 64; 0x80 + cp mod 64].
Definition is_cont (b : Z) : bool := (0x80 <=? b) && (b <=? 0xBF).
(* decode from up to four available bytes; result: code point and length, or None (invalid) *)
Definition utf8_dec (b0 b1 b2 b3 : Z) : option (Z * Z) :=
  if b0 <? 0x80 then Some (b0, 1)
  else if b0 <? 0xC2 then None
  else if b0 <? 0xE0 then (if is_cont b1 then Some ((b0 - 0xC0) * 64 + (b1 - 0x80), 2) else None)
  else if b0 <? 0xF0 then
    (if is_cont b1 && is_cont b2 then
       let cp := (b0 - 0xE0) * 4096 + (b1 - 0x80) * 64 + (b2 - 0x80) in
       if (cp <? 0x800) || is_surrogate cp then None else Some (cp, 3)
     else None)
  else if b0 <? 0xF8 then
    (if is_cont b1 && is_cont b2 && is_cont b3 then
       let cp := (b0 - 0xF0) * 262144 + (b1 - 0x80) * 4096 + (b2 - 0x80) * 64 + (b3 - 0x80) in
       if cp <? 0x10000 then None else Some (cp, 4)
     else None)
  else None.

(* ---- round trip, range by range, for every code point (no bound other than validity) ---- *)
Ltac Zify.zify_post_hook ::= Z.div_mod_to_equations.
Ltac bdecide :=
  repeat match goal with
  | |- context [?a <? ?b] => first [ replace (a <? b) with true by (symmetry; apply Z.ltb_lt; lia)
                                  | replace (a <? b) with false by (symmetry; apply Z.ltb_ge; lia) ]
  | |- context [?a <=? ?b] => first [ replace (a <=? b) with true by (symmetry; apply Z.leb_le; lia)
                                   | replace (a <=? b) with false by (symmetry; apply Z.leb_gt; lia) ]
  end; cbn [andb orb negb].

Lemma rt1 cp b1 b2 b3 : 0 <= cp < 0x80 -> utf8_dec cp b1 b2 b3 = Some (cp, 1).
Proof. intros H. unfold utf8_dec. bdecide. reflexivity. Qed.
Lemma rt2 cp b2 b3 : 0x80 <= cp < 0x800 -> utf8_dec (0xC0 + cp / 64) (0x80 + cp mod 64) b2 b3 = Some (cp, 2).
Proof. intros H. unfold utf8_dec, is_cont. bdecide. f_equal. f_equal. lia. Qed.
Lemma rt3 cp b3 : 0x800 <= cp < 0x10000 -> is_surrogate cp = false ->
  utf8_dec (0xE0 + cp / 4096) (0x80 + (cp / 64) mod 64) (0x80 + cp mod 64) b3 = Some (cp, 3).
Proof.
  intros H Hs. unfold utf8_dec, is_cont. bdecide.
  replace ((0xE0 + cp / 4096 - 0xE0) * 4096 + (0x80 + (cp / 64) mod 64 - 0x80) * 64 + (0x80 + cp mod 64 - 0x80)) with cp by lia.
  rewrite Hs. bdecide. reflexivity.
Qed.
Lemma rt4 cp : 0x10000 <= cp < 0x200000 ->
  utf8_dec (0xF0 + cp / 262144) (0x80 + (cp / 4096) mod 64) (0x80 + (cp / 64) mod 64) (0x80 + cp mod 64) = Some (cp, 4).
Proof.
  intros H. unfold utf8_dec, is_cont. bdecide.
  replace ((0xF0 + cp / 262144 - 0xF0) * 262144 + (0x80 + (cp / 4096) mod 64 - 0x80) * 4096 + (0x80 + (cp / 64) mod 64 - 0x80) * 64 + (0x80 + cp mod 64 - 0x80)) with cp by lia.
  bdecide. reflexivity.
Qed.

(* decode (encode cp) = cp, in list form *)
Definition dec_list (l : list Z) : option (Z * Z) :=
  match l with
  | [a] => utf8_dec a 0 0 0 | [a; b] => utf8_dec a b 0 0 | [a; b; c] => utf8_dec a b c 0 | [a; b; c; d] => utf8_dec a b c d
  | _ => None
  end.
Theorem utf8_roundtrip : forall cp, enc_valid cp = true -> dec_list (utf8_enc cp) = Some (cp, enc_len cp).
Proof.
  intros cp H. unfold enc_valid in H. apply andb_prop in H. destruct H as [H Hs]. apply andb_prop in H. destruct H as [H0 H1].
  apply Z.leb_le in H0. apply Z.ltb_lt in H1. apply negb_true_iff in Hs.
  unfold utf8_enc, enc_len.
  destruct (cp <? 0x80) eqn:E1; [apply Z.ltb_lt in E1; cbn [dec_list]; apply rt1; lia|]. apply Z.ltb_ge in E1.
  destruct (cp <? 0x800) eqn:E2; [apply Z.ltb_lt in E2; cbn [dec_list]; apply rt2; lia|]. apply Z.ltb_ge in E2.
  destruct (cp <? 0x10000) eqn:E3; [apply Z.ltb_lt in E3; cbn [dec_list]; apply rt3; [lia|exact Hs]|]. apply Z.ltb_ge in E3.
  cbn [dec_list]. apply rt4. lia.
Qed.
(* every encoded byte is a byte, and the length is what enc_len announces *)
Theorem utf8_enc_bytes : forall cp, 0 <= cp < 0x200000 ->
  Forall (fun b => 0 <= b < 256) (utf8_enc cp) /\ Z.of_nat (length (utf8_enc cp)) = enc_len cp.
Proof.
  intros cp H. unfold utf8_enc, enc_len.
  destruct (cp <? 0x80) eqn:E1; [apply Z.ltb_lt in E1; split; [repeat constructor; lia|reflexivity]|]. apply Z.ltb_ge in E1.
  destruct (cp <? 0x800) eqn:E2; [apply Z.ltb_lt in E2; split; [repeat constructor; lia|reflexivity]|]. apply Z.ltb_ge in E2.
  destruct (cp <? 0x10000) eqn:E3; [apply Z.ltb_lt in E3; split; [repeat constructor; lia|reflexivity]|]. apply Z.ltb_ge in E3.
  split; [repeat constructor; lia|reflexivity].
Qed.
