(* Properties_C17.v -- C17: Unicode normalisation and case folding follow the Unicode standard.
   The lookup graphs (Gen/UniTables.v) are regenerated from the working tree on every run; theorems over them are
   decided by computation on the finite tables (every entry, both directions), theorems about the algorithms are
   unbounded.  Only statements here; proofs in UniProofs.v / by computation. *)
From Coq Require Import List ZArith Bool Permutation.
From SC Require Import UniNorm UniProofs UniCheck.
From SC.Gen Require Import UniTables.
Import ListNotations.
Local Open Scope Z_scope.

(* the library's canonical decomposition graph is the UCD's on every code point either side knows (outside the
   recorded gap U+037E and code points newer than the reference) *)
Theorem C17_decomposition_graph_is_ucd : decomp_agree known_decomp_gaps = true.
Proof. vm_compute. reflexivity. Qed.
Print Assumptions C17_decomposition_graph_is_ucd.
Theorem C17_combining_classes_are_ucd : ccc_agree = true.
Proof. vm_compute. reflexivity. Qed.
Print Assumptions C17_combining_classes_are_ucd.
(* pair lookup + exclusion list = primary composites of the UCD, both directions *)
Theorem C17_primary_composites_are_ucd : compose_agree = true.
Proof. vm_compute. reflexivity. Qed.
Print Assumptions C17_primary_composites_are_ucd.
(* Hangul: algebraic, for every syllable and any tables *)
Theorem C17_hangul_compose_inverts_decompose : forall T s, is_S s = true ->
  match hangul_decomp s with
  | [l; v] => composite T l v = s
  | [l; v; t] => composite T (composite T l v) t = s
  | _ => False
  end.
Proof. exact hangul_roundtrip. Qed.
Print Assumptions C17_hangul_compose_inverts_decompose.
(* ... and through the whole model with the library's graphs, all 11172 syllables *)
Theorem C17_hangul_all_syllables : hangul_all = true.
Proof. vm_compute. reflexivity. Qed.
Print Assumptions C17_hangul_all_syllables.
(* canonical reordering: a permutation, in canonical order, starters fixed, idempotent -- every string *)
Theorem C17_reorder_is_permutation : forall T s, Permutation s (reorder T s).
Proof. exact reorder_perm. Qed.
Print Assumptions C17_reorder_is_permutation.
Theorem C17_reorder_is_ordered : forall T s, ordered T (reorder T s).
Proof. exact reorder_ordered. Qed.
Print Assumptions C17_reorder_is_ordered.
Theorem C17_reorder_starters_fixed : forall T l1 x l2, ccc T x = 0 ->
  exists l1', reorder T (l1 ++ x :: l2) = l1' ++ x :: reorder T l2 /\ Permutation l1 l1'.
Proof. exact reorder_starter_fixed. Qed.
Print Assumptions C17_reorder_starters_fixed.
(* NFD twice = NFD once, for every string, with the library's graphs *)
Theorem C17_nfd_idempotent : forall s, nfd TI (nfd TI s) = nfd TI s.
Proof. intros s. apply (nfd_idem TI impl_decomp); [reflexivity|vm_compute; reflexivity]. Qed.
Print Assumptions C17_nfd_idempotent.
(* every decomposable code point: NFD and NFC as the reference, and normalising twice = once *)
Theorem C17_single_code_points : singles_all = true.
Proof. vm_compute. reflexivity. Qed.
Print Assumptions C17_single_code_points.
(* every composing pair goes to its primary composite *)
Theorem C17_composing_pairs : pairs_all = true.
Proof. vm_compute. reflexivity. Qed.
Print Assumptions C17_composing_pairs.
(* folding: for every code point with a non-trivial answer, towfc_s emits max(iswfc, 1) characters *)
Theorem C17_fold_lengths : fold_agree = true.
Proof. vm_compute. reflexivity. Qed.
Print Assumptions C17_fold_lengths.
(* non-vacuity *)
Example C17_tables_nonempty : (1000 < Z.of_nat (length impl_decomp)) /\ (500 < Z.of_nat (length impl_ccc)) /\ (900 < Z.of_nat (length impl_compose)) /\ (1000 < Z.of_nat (length impl_fold)).
Proof. vm_compute. repeat split; reflexivity. Qed.
Example C17_nfc_example : nfc TI [0x41; 0x301; 0x300; 0x1100; 0x1161; 0x11A8] = [0xC1; 0x300; 0xAC01].
Proof. vm_compute. reflexivity. Qed.
