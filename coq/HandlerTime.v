(* HandlerTime.v -- what the runtime-constraint handler finds when it is invoked (C15: "invalid sequences are reported as errors
   with dest cleared"; a handler need not return, K.3.6.1.1, so the state at the moment of the report is what such a handler
   leaves).  [at_handler H p m]: at every Handler node the execution of p from m reaches, H holds of the memory at that moment.
   The error helpers clear first and report afterwards; for the single-character converters every report made with a usable
   dest happens with dest[0] = 0 (all of dest with null-slack). *)
From Coq Require Import List ZArith Lia Bool.
From SC Require Import Base Wp Cfg Comb ModConv.
Import ListNotations.
Local Open Scope Z_scope.
Local Open Scope prog_scope.

Fixpoint at_handler {A} (H : mem -> Prop) (p : prog A) (m : mem) : Prop :=
  match p with
  | Ret _ => True
  | Load w a k => at_handler H (k (load m w a)) m
  | Store w a v k => at_handler H k (store m w a v)
  | Fill a n v k => at_handler H k (fill m a n v)
  | Move d s n k => at_handler H k (move m d s n)
  | Handler _ _ k => H m /\ at_handler H k m
  | Free _ k | Static _ k => at_handler H k m
  | Alloc _ k => forall r, at_handler H (k r) m
  end.

Lemma at_handler_bind {A B} (H : mem -> Prop) (p : prog A) (f : A -> prog B) : forall m,
  at_handler H p m -> wp p m (fun a m' => at_handler H (f a) m') -> at_handler H (bind p f) m.
Proof.
  induction p; cbn; intros m Hp Hw; auto.
  - destruct Hp as [H0 Hp]. split; [exact H0|]. apply IHp; assumption.
Qed.

(* the error helpers: the clearing store precedes the report *)
Lemma handle_error_clears_first c w d dmax code m : 0 < w -> 0 < dmax ->
  at_handler (fun m' => load m' w d = 0 /\ (null_slack c = true -> forall a, d <= a < d + dmax * w -> m' a = 0))
             (handle_error c w d dmax code) m.
Proof.
  intros Hw Hd. unfold handle_error. destruct (null_slack c) eqn:E; cbn.
  - split; [|exact I]. split.
    + apply load_fill_zero; nia.
    + intros _ a Ha. rewrite fill_in by exact Ha. reflexivity.
  - split; [|exact I]. split; [|discriminate].
    rewrite load_store_same by lia. apply Z.mod_0_l. apply Z.pow_nonzero; lia.
Qed.

Lemma handle_mem_error_clears_first d dmax code m :
  at_handler (fun m' => forall a, d <= a < d + dmax -> m' a = 0) (handle_mem_error d dmax code) m.
Proof. unfold handle_mem_error. cbn. split; [|exact I]. intros a Ha. rewrite fill_in by exact Ha. reflexivity. Qed.

Lemma at_handler_weaken {A} (H H' : mem -> Prop) (p : prog A) : (forall m, H m -> H' m) -> forall m, at_handler H p m -> at_handler H' p m.
Proof. intros HH. induction p; cbn; intros m Hp; auto. destruct Hp as [H0 Hp]. split; auto. Qed.

Lemma store_bytes_no_report (H : mem -> Prop) l : forall p k m, (forall m', at_handler H k m') -> at_handler H (store_bytes p l k) m.
Proof. induction l as [|b t IH]; intros p k m Hk; cbn [store_bytes at_handler]; [apply Hk|]. apply IH. exact Hk. Qed.

Definition dest_cleared (c : cfg) (dest dmax : Z) (m : mem) : Prop :=
  m dest = 0 /\ (null_slack c = true -> forall a, dest <= a < dest + dmax -> m a = 0).

Lemma handle_error1_cleared c dest dmax rc m : 0 < dmax -> at_handler (dest_cleared c dest dmax) (handle_error c 1 dest dmax rc ;;; Ret rc) m.
Proof.
  intros Hd. apply at_handler_bind.
  - eapply at_handler_weaken; [|apply handle_error_clears_first; lia].
    intros m' [H1 H2]. split; [rewrite load1 in H1; exact H1|]. intros E a Ha. apply H2; [exact E|lia].
  - unfold handle_error. destruct (null_slack c); cbn; exact I.
Qed.

(* every report wctomb_s / wcrtomb_s make with a usable destination (non-null, 0 < dmax <= RSIZE_MAX, object size unknown to the
   library) finds dest cleared: no converted byte is visible to the handler *)
Theorem wctomb_s_reports_after_clearing c utf8 retvalp dest dmax wc m :
  retvalp <> 0 -> dest <> 0 -> 1 <= dmax <= rmax_wstr c ->
  at_handler (dest_cleared c dest dmax) (wctomb_s c utf8 retvalp dest dmax wc BOS_UNKNOWN) m.
Proof.
  intros Hr Hd Hm. unfold wctomb_s, chk_c_dest.
  replace (retvalp =? 0) with false by (symmetry; apply Z.eqb_neq; lia).
  replace (dest =? 0) with false by (symmetry; apply Z.eqb_neq; lia).
  replace (dmax =? 0) with false by (symmetry; apply Z.eqb_neq; lia).
  rewrite Z.eqb_refl. replace (rmax_wstr c <? dmax) with false by (symmetry; apply Z.ltb_ge; lia).
  cbn [at_handler]. destruct ((0 <? wcx_len utf8 false dest wc) && (wcx_len utf8 false dest wc <? dmax)).
  - apply store_bytes_no_report. intros m'. destruct (null_slack c); cbn; exact I.
  - apply handle_error1_cleared. lia.
Qed.

Theorem wcrtomb_s_reports_after_clearing c utf8 retvalp dest dmax wc ps m :
  retvalp <> 0 -> ps <> 0 -> dest <> 0 -> 1 <= dmax <= rmax_wstr c ->
  at_handler (dest_cleared c dest dmax) (wcrtomb_s c utf8 retvalp dest dmax wc ps BOS_UNKNOWN) m.
Proof.
  intros Hr Hp Hd Hm. unfold wcrtomb_s, chk_c_dest.
  replace (retvalp =? 0) with false by (symmetry; apply Z.eqb_neq; lia).
  replace (ps =? 0) with false by (symmetry; apply Z.eqb_neq; lia).
  replace (dest =? 0) with false by (symmetry; apply Z.eqb_neq; lia).
  replace (dmax =? 0) with false by (symmetry; apply Z.eqb_neq; lia).
  rewrite Z.eqb_refl. replace (rmax_wstr c <? dmax) with false by (symmetry; apply Z.ltb_ge; lia).
  cbn [at_handler]. destruct (wcx_len utf8 true dest wc <? dmax).
  - apply store_bytes_no_report. intros m'. destruct (null_slack c); cbn; exact I.
  - apply handle_error1_cleared. lia.
Qed.

(* non-vacuity: an unencodable character in the C locale does reach the report *)
Example wctomb_s_report_reached : exists c, at_handler (fun _ => True) (wctomb_s c false 8 64 4 233 BOS_UNKNOWN) (fun _ => 90)
  /\ ~ at_handler (fun _ => False) (wctomb_s c false 8 64 4 233 BOS_UNKNOWN) (fun _ => 90).
Proof.
  exists (mkCfg true 4096 4096 1024 4096 4096 16 4). split.
  - vm_compute. tauto.
  - vm_compute. tauto.
Qed.
