(* Properties_C11.v -- C11: formatted output matches C printf for the supported conversions, or fails.
   The engine model (FmtEngine.v) is tied to src/str/vsnprintf_s.c by the correspondence check on every run; the C library's
   own snprintf is the reference of the check.  Statements only; proofs in FmtEngineProofs.v. *)
From Coq Require Import List ZArith Bool.
From SC Require Import FmtEngine FmtEngineProofs.
Import ListNotations.
Local Open Scope Z_scope.

(* "return the count stored": a non-negative return is the number of characters the engine produced, never more than dmax;
   below dmax, dest holds exactly those characters and the terminator -- every format, every argument list, every dmax *)
Theorem C11_return_is_count_stored : forall slack rmax init fmt args, let r := vsnprintf_s_m slack rmax init fmt args in
  w_known r = true -> 0 <= w_ret r ->
  let text := rev (e_out (run_engine (Z.of_nat (length init)) fmt args)) in
  w_ret r = Z.of_nat (length text) /\ w_ret r <= Z.of_nat (length init) /\
  (w_ret r < Z.of_nat (length init) -> firstn (length text) (w_dest r) = text /\ nth (length text) (w_dest r) 1 = 0).
Proof. exact vsnprintf_count. Qed.
Print Assumptions C11_return_is_count_stored.
(* the engine never stores beyond bufsize, whatever the format and arguments *)
Theorem C11_engine_bounded : forall bufsize fmt args, 0 <= bufsize -> Z.of_nat (length (e_out (run_engine bufsize fmt args))) <= bufsize.
Proof. exact run_engine_bound. Qed.
Print Assumptions C11_engine_bounded.
Theorem C11_dest_extent_unchanged : forall slack rmax init fmt args,
  length (w_dest (vsnprintf_s_m slack rmax init fmt args)) = length init /\ length (w_dest (vsprintf_s_m slack rmax init fmt args)) = length init.
Proof. intros. split; [apply vsnprintf_dest_length|apply vsprintf_dest_length]. Qed.
Print Assumptions C11_dest_extent_unchanged.
(* every failure is a negative code *)
Theorem C11_errors_negative : forall bufsize fuel l args o, match e_fin (engine fuel bufsize l args o) with FErr r _ _ => r < 0 | _ => True end.
Proof. exact engine_neg. Qed.
Print Assumptions C11_errors_negative.
(* the digits printed are the positional representation of the argument (bases 2..16, every value below base^32) *)
Theorem C11_digits_are_the_value : forall up base v, 2 <= base <= 16 -> 0 <= v < base ^ 32 -> eval_lsf base (digits_from 32 up base v) = v.
Proof. exact plain_digits_value. Qed.
Print Assumptions C11_digits_are_the_value.
(* d i u x X o without flag, width or precision: exactly the C standard's rendering *)
Theorem C11_plain_conversions_match_C : forall up base v neg, 2 <= base <= 16 -> 0 <= v < base ^ 31 ->
  ntoa_text v neg base 0 0 (plain up) = spec_int v neg base 0 0 (plain up).
Proof. exact plain_conversion_agrees. Qed.
Print Assumptions C11_plain_conversions_match_C.
(* C11_full (the engine equals spec_int for every flag, width and precision) is FALSE of the faithful model; witnesses: *)
Theorem C11_exact_fit_refuted : exists init fmt args, let r := vsnprintf_s_m true 4096 init fmt args in
  w_ret r = Z.of_nat (length init) /\ w_dest r = [49; 50; 0].
Proof. exact exact_fit_refuted. Qed.
Print Assumptions C11_exact_fit_refuted.
Theorem C11_left_precision_refuted : ntoa_text 256 false 16 6 0 (fl_of true false false false false true true) <> spec_int 256 false 16 6 0 (fl_of true false false false false true true).
Proof. exact left_precision_refuted. Qed.
Theorem C11_hash_width_refuted : ntoa_text 4660 false 16 0 4 (fl_of false false false true false false false) <> spec_int 4660 false 16 0 4 (fl_of false false false true false false false).
Proof. exact hash_width_refuted. Qed.
Theorem C11_hash_octal_precision_refuted : ntoa_text 1 false 8 6 0 (fl_of false false false true false true false) <> spec_int 1 false 8 6 0 (fl_of false false false true false true false).
Proof. exact hash_octal_precision_refuted. Qed.
Theorem C11_buffer32_refuted : ntoa_text 1 false 10 40 0 (fl_of false false false false false true false) <> spec_int 1 false 10 40 0 (fl_of false false false false false true false).
Proof. exact buffer32_refuted. Qed.
Print Assumptions C11_buffer32_refuted.
(* non-vacuity: a call that succeeds with room to spare *)
Example C11_example : let r := vsnprintf_s_m true 4096 (repeat 165 12) [120; 61; 37; 48; 53; 100; 33] [AInt (-42)] in
  w_ret r = 8 /\ w_dest r = [120; 61; 45; 48; 48; 52; 50; 33; 0; 0; 0; 0].
Proof. vm_compute. split; reflexivity. Qed.
