(* Wp.v -- weakest precondition over [prog] (memory threaded structurally), its soundness
   w.r.t. [run], and element-level memory lemmas for loads/stores of width w. *)
From Coq Require Import List ZArith Lia Bool.
From SC Require Import Base.
Import ListNotations.
Local Open Scope Z_scope.

Fixpoint wp {A} (p : prog A) (m : mem) (Q : A -> mem -> Prop) : Prop :=
  match p with
  | Ret a => Q a m
  | Load w a k => wp (k (load m w a)) m Q
  | Store w a v k => wp k (store m w a v) Q
  | Fill a n v k => wp k (fill m a n v) Q
  | Move d s n k => wp k (move m d s n) Q
  | Handler _ _ k | Free _ k | Static _ k => wp k m Q
  | Alloc _ k => forall r, wp (k r) m Q
  end.

Lemma wp_bind {A B} (p : prog A) (f : A -> prog B) : forall m Q,
  wp p m (fun a m' => wp (f a) m' Q) -> wp (bind p f) m Q.
Proof. induction p; cbn; intros m Q Hw; auto. Qed.
Lemma wp_weaken {A} (p : prog A) : forall m (Q Q' : A -> mem -> Prop),
  (forall a m', Q a m' -> Q' a m') -> wp p m Q -> wp p m Q'.
Proof. induction p; cbn; intros m Q Q' HQ Hw; eauto. Qed.

Lemma wp_run {A} (fail : nat -> bool) (p : prog A) : forall st Q,
  wp p (wm st) Q -> let '(a, st') := run fail p st in Q a (wm st').
Proof.
  induction p; cbn; intros st Q Hw; auto.
  - apply (H _ (mkW (wm st) _ _ _)). exact Hw.
  - apply (IHp (mkW _ _ _ _)). exact Hw.
  - apply (IHp (mkW _ _ _ _)). exact Hw.
  - apply (IHp (mkW _ _ _ _)). exact Hw.
  - apply (IHp (mkW _ _ _ _)). exact Hw.
  - destruct (fail (wn st)); apply (H _ (mkW (wm st) _ _ _)); apply Hw.
  - apply (IHp (mkW _ _ _ _)). exact Hw.
  - apply (IHp (mkW _ _ _ _)). exact Hw.
Qed.
Lemma wp_exec {A} (p : prog A) m Q : wp p m Q -> let '(a, m', _) := exec p m in Q a m'.
Proof.
  intros H. unfold exec. pose proof (wp_run nofail p (w0 m) Q H) as F.
  destruct (run nofail p (w0 m)) as [a st]. exact F.
Qed.

(* ---------- byte-level facts ---------- *)
Definition wf_mem (m : mem) : Prop := forall a, 0 <= m a < 256.

Lemma load_n_ext m1 m2 n : forall p, (forall x, p <= x < p + Z.of_nat n -> m1 x = m2 x) ->
  load_n m1 n p = load_n m2 n p.
Proof.
  induction n as [|n IH]; intros p H; cbn [load_n]; [reflexivity|].
  rewrite Nat2Z.inj_succ in H. rewrite (H p) by lia. rewrite (IH (p + 1)); [reflexivity|].
  intros x Hx. apply H. lia.
Qed.
Lemma load_ext m1 m2 w p : (forall x, p <= x < p + w -> m1 x = m2 x) -> load m1 w p = load m2 w p.
Proof.
  intros H. unfold load. apply load_n_ext. intros x Hx. apply H.
  lia.
Qed.
Lemma load_n_range m n : wf_mem m -> forall p, 0 <= load_n m n p < 256 ^ Z.of_nat n.
Proof.
  intros Hm. induction n as [|n IH]; intros p; cbn [load_n].
  - cbn. lia.
  - rewrite Nat2Z.inj_succ, Z.pow_succ_r by lia. specialize (IH (p + 1)). specialize (Hm p). nia.
Qed.
Lemma load_range m w p : wf_mem m -> 0 <= w -> 0 <= load m w p < 256 ^ w.
Proof. intros Hm Hw. unfold load. pose proof (load_n_range m (Z.to_nat w) Hm p) as H. rewrite Z2Nat.id in H; auto. Qed.
Lemma load_n_zero m n : forall p, (forall x, p <= x < p + Z.of_nat n -> m x = 0) -> load_n m n p = 0.
Proof.
  induction n as [|n IH]; intros p H; cbn [load_n]; [reflexivity|].
  rewrite Nat2Z.inj_succ in H. rewrite (H p) by lia. rewrite IH; [reflexivity|]. intros x Hx. apply H. lia.
Qed.
Lemma load_zero m w p : 0 <= w -> (forall x, p <= x < p + w -> m x = 0) -> load m w p = 0.
Proof. intros Hw H. unfold load. apply load_n_zero. intros x Hx. apply H. rewrite Z2Nat.id in Hx; lia. Qed.

(* a load that is zero on a well-formed memory means every byte is zero *)
Lemma load_n_zero_inv m n : wf_mem m -> forall p, load_n m n p = 0 -> forall x, p <= x < p + Z.of_nat n -> m x = 0.
Proof.
  intros Hm. induction n as [|n IH]; intros p H x Hx; cbn [load_n] in H; [cbn in Hx; lia|].
  rewrite Nat2Z.inj_succ in Hx. pose proof (load_n_range m n Hm (p + 1)) as R. pose proof (Hm p) as Bp.
  assert (m p = 0 /\ load_n m n (p + 1) = 0) as [E1 E2] by nia.
  destruct (Z.eq_dec x p) as [->|Ne]; [exact E1|]. apply (IH (p + 1) E2). lia.
Qed.

(* store then load at the same place *)
Lemma load_n_store m w p v : forall k j, 0 <= j -> j + Z.of_nat k = w ->
  load_n (store m w p v) k (p + j) = (v / 2 ^ (8 * j)) mod 256 ^ Z.of_nat k.
Proof.
  induction k as [|k IH]; intros j Hj Hk; cbn [load_n].
  - cbn. now rewrite Z.mod_1_r.
  - rewrite Nat2Z.inj_succ in Hk. rewrite Nat2Z.inj_succ, Z.pow_succ_r by lia.
    replace (p + j + 1) with (p + (j + 1)) by lia. rewrite IH by lia.
    unfold store at 1. replace (in_range p w (p + j)) with true by (symmetry; apply in_range_spec; lia).
    replace (p + j - p) with j by lia.
    rewrite Z.rem_mul_r by (try apply Z.pow_nonzero; lia).
    replace (2 ^ (8 * (j + 1))) with (2 ^ (8 * j) * 256) by (replace (8 * (j + 1)) with (8 * j + 8) by lia; rewrite Z.pow_add_r by lia; reflexivity).
    rewrite <- Z.div_div by (try apply Z.pow_pos_nonneg; lia). reflexivity.
Qed.
Lemma load_store_same m w p v : 0 <= w -> load (store m w p v) w p = v mod 256 ^ w.
Proof.
  intros Hw. unfold load. pose proof (load_n_store m w p v (Z.to_nat w) 0 ltac:(lia) ltac:(rewrite Z2Nat.id; lia)) as H.
  rewrite Z.add_0_r, Z.mul_0_r, Z.pow_0_r, Z.div_1_r, Z2Nat.id in H by lia. exact H.
Qed.
Lemma load_store_other m w p v w' q : q + w' <= p \/ p + w <= q -> load (store m w p v) w' q = load m w' q.
Proof. intros H. apply load_ext. intros x Hx. apply store_out. lia. Qed.
Lemma load_fill_other m a n v w q : q + w <= a \/ a + n <= q -> load (fill m a n v) w q = load m w q.
Proof. intros H. apply load_ext. intros x Hx. apply fill_out. lia. Qed.
Lemma load_fill_zero m a n w q : 0 <= w -> a <= q -> q + w <= a + n -> load (fill m a n 0) w q = 0.
Proof. intros Hw H1 H2. apply load_zero; auto. intros x Hx. rewrite fill_in by lia. reflexivity. Qed.

Lemma wf_store m w p v : wf_mem m -> wf_mem (store m w p v).
Proof. intros Hm a. unfold store. destruct (in_range p w a); [apply Z.mod_pos_bound; lia|apply Hm]. Qed.
Lemma wf_fill m a n v : wf_mem m -> wf_mem (fill m a n v).
Proof. intros Hm x. unfold fill. destruct (in_range a n x); [apply Z.mod_pos_bound; lia|apply Hm]. Qed.
Lemma wf_move m d s n : wf_mem m -> wf_mem (move m d s n).
Proof. intros Hm x. unfold move. destruct (in_range d n x); apply Hm. Qed.

(* ---------- memory-dependent read footprint (the scan stops where the data says) ---------- *)
Fixpoint reads_ok {A} (R : Z -> Prop) (p : prog A) (m : mem) : Prop :=
  match p with
  | Ret _ => True
  | Load w a k => range_in R a w /\ reads_ok R (k (load m w a)) m
  | Store w a v k => reads_ok R k (store m w a v)
  | Fill a n v k => reads_ok R k (fill m a n v)
  | Move d s n k => range_in R s n /\ reads_ok R k (move m d s n)
  | Handler _ _ k | Free _ k | Static _ k => reads_ok R k m
  | Alloc _ k => forall r, reads_ok R (k r) m
  end.

Lemma reads_ok_weaken {A} (R R' : Z -> Prop) (p : prog A) : (forall a, R a -> R' a) ->
  forall m, reads_ok R p m -> reads_ok R' p m.
Proof.
  intros HR. induction p; cbn; intros m Hr; eauto.
  - destruct Hr as [H1 H2]. split; [intros x Hx; apply HR, H1, Hx|eauto].
  - destruct Hr as [H1 H2]. split; [intros x Hx; apply HR, H1, Hx|eauto].
Qed.
Lemma reads_in_ok {A} (R : Z -> Prop) (p : prog A) : reads_in R p -> forall m, reads_ok R p m.
Proof. induction p; cbn; intros Hr m; auto; destruct Hr; split; auto. Qed.
(* sequencing: the continuation is analysed on the memory the first part leaves *)
Lemma reads_ok_bind {A B} (R : Z -> Prop) (p : prog A) (f : A -> prog B) : forall m,
  reads_ok R p m -> wp p m (fun a m' => reads_ok R (f a) m') -> reads_ok R (bind p f) m.
Proof. induction p; cbn; intros m Hr Hw; auto; try (destruct Hr; split; auto). Qed.

Lemma reads_ok_run {A} (fail : nat -> bool) (R : Z -> Prop) (p : prog A) : forall st,
  reads_ok R p (wm st) -> Forall (ev_read_ok R) (wtr st) ->
  Forall (ev_read_ok R) (wtr (snd (run fail p st))).
Proof.
  induction p; cbn; intros st Hr Ht; auto.
  - destruct Hr as [H1 H2]. apply (H _ (mkW (wm st) _ _ _)); cbn; auto; repeat (constructor; cbn; auto).
  - apply (IHp (mkW _ _ _ _)); cbn; auto; repeat (constructor; cbn; auto).
  - apply (IHp (mkW _ _ _ _)); cbn; auto; repeat (constructor; cbn; auto).
  - destruct Hr as [H1 H2]. apply (IHp (mkW _ _ _ _)); cbn; auto; repeat (constructor; cbn; auto).
  - apply (IHp (mkW _ _ _ _)); cbn; auto; repeat (constructor; cbn; auto).
  - destruct (fail (wn st)); apply (H _ (mkW (wm st) _ _ _)); cbn; auto; repeat (constructor; cbn; auto).
  - apply (IHp (mkW _ _ _ _)); cbn; auto; repeat (constructor; cbn; auto).
  - apply (IHp (mkW _ _ _ _)); cbn; auto; repeat (constructor; cbn; auto).
Qed.
