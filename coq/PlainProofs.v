(* PlainProofs.v -- C12(2): the modelled functions allocate nothing and touch no static object
   ([plain]); syntactic read footprints of the copy loop; run/runm agreement. *)
From Coq Require Import List ZArith Lia Bool.
From SC Require Import Base Wp Cfg Comb CombProofs ModStr ModMem Interleave.
Import ListNotations.
Local Open Scope Z_scope.
Local Open Scope prog_scope.

Lemma plain_bind {A B} (p : prog A) (f : A -> prog B) : plain p -> (forall a, plain (f a)) -> plain (bind p f).
Proof. intros Hp Hf. induction p; cbn in *; auto; contradiction. Qed.
Lemma plain_no_static {A} (p : prog A) : plain p -> no_static p.
Proof. induction p; cbn; auto; contradiction. Qed.

Lemma runm_run {A} (fail : nat -> bool) (p : prog A) : plain p -> forall st,
  runm p (wm st) = Some (fst (run fail p st), wm (snd (run fail p st))).
Proof.
  induction p; cbn; intros Hp st; try contradiction; auto.
  - apply (H _ (Hp _) (mkW (wm st) _ _ _)).
  - apply (IHp Hp (mkW _ _ _ _)).
  - apply (IHp Hp (mkW _ _ _ _)).
  - apply (IHp Hp (mkW _ _ _ _)).
  - apply (IHp Hp (mkW _ _ _ _)).
Qed.

Ltac pl := repeat first [ exact I | progress cbn [plain] | apply plain_bind | intro
                        | match goal with |- context [if ?b then _ else _] => destruct b end ].

Lemma zero_loop_plain w n : forall d, plain (zero_loop w n d).
Proof. induction n; intros d; cbn; auto. Qed.
Lemma zero_slack_plain c w d n : plain (zero_slack c w d n).
Proof. unfold zero_slack. destruct (null_slack c); [destruct (32 <? Z.of_nat n)|]; cbn; auto. apply zero_loop_plain. Qed.
Lemma handle_error_plain c w d dmax code : plain (handle_error c w d dmax code).
Proof. unfold handle_error. pl. Qed.
Lemma nlen_loop_plain g w n : forall p cnt bos, plain (nlen_loop g w n p cnt bos).
Proof. induction n as [|n IH]; intros p cnt bos; cbn [nlen_loop]; [destruct g; cbn; auto|]. cbn. intros v. pl; apply IH. Qed.
Lemma strnlen_s_prog_plain c str smax bos : plain (strnlen_s_prog c str smax bos).
Proof. unfold strnlen_s_prog. pl. apply nlen_loop_plain. Qed.
Lemma bos_overflow_plain c d dmax : plain (bos_overflow c d dmax).
Proof. unfold bos_overflow. apply plain_bind; [apply strnlen_s_prog_plain|]. intros len. destruct (rmax_str c <? len); (apply plain_bind; [apply handle_error_plain|intro; exact I]). Qed.
Lemma copy_loop_plain c w fwd od odmax bumper us n : forall d s sl, plain (copy_loop c w fwd od odmax bumper us n d s sl).
Proof.
  induction n as [|n IH]; intros d s sl; cbn [copy_loop].
  - apply plain_bind; [apply handle_error_plain|intro; exact I].
  - destruct (if fwd then d =? bumper else s =? bumper). { apply plain_bind; [apply handle_error_plain|intro; exact I]. }
    destruct (us && (sl =? 0)). { apply plain_bind; [|intro; exact I]. destruct (null_slack c); [apply zero_slack_plain|cbn; auto]. }
    cbn [plain]. intros ch. destruct (ch =? 0); [apply plain_bind; [apply zero_slack_plain|intro; exact I]|apply IH].
Qed.
Lemma find_end_plain c w fwd od odmax bumper (k : nat -> Z -> prog Z) n : forall d,
  (forall n' d', plain (k n' d')) -> plain (find_end c w fwd od odmax bumper n d k).
Proof.
  induction n as [|n IH]; intros d Hk; cbn [find_end plain]; intros ch; destruct (ch =? 0); auto;
    destruct (fwd && (d =? bumper)); try (apply plain_bind; [apply handle_error_plain|intro; exact I]).
  destruct n; [apply plain_bind; [apply handle_error_plain|intro; exact I]|apply IH; auto].
Qed.
Lemma chk_dest_str_plain c d dmax destbos (k : unit -> prog Z) : plain (k tt) -> plain (chk_dest_str c d dmax destbos k).
Proof.
  intros Hk. unfold chk_dest_str, fail_str. destruct (d =? 0); [exact I|]. destruct (dmax =? 0); [exact I|].
  destruct (destbos =? BOS_UNKNOWN); [destruct (rmax_str c <? dmax); [exact I|exact Hk]|].
  destruct (destbos <? dmax); [|exact Hk]. destruct (rmax_str c <? dmax); [apply plain_bind; [apply handle_error_plain|intro; exact I]|apply bos_overflow_plain].
Qed.

Lemma strcpy_s_plain c d dmax s destbos : plain (strcpy_s c d dmax s destbos).
Proof.
  unfold strcpy_s. apply chk_dest_str_plain. destruct (s =? 0); [apply plain_bind; [apply handle_error_plain|intro; exact I]|].
  destruct (d =? s); [exact I|]. destruct (d <? s); apply copy_loop_plain.
Qed.
Lemma strcat_s_plain c d dmax s destbos : plain (strcat_s c d dmax s destbos).
Proof.
  unfold strcat_s. apply chk_dest_str_plain. destruct (s =? 0); [apply plain_bind; [apply handle_error_plain|intro; exact I]|].
  destruct (d <? s); apply find_end_plain; intros; apply copy_loop_plain.
Qed.
Lemma slen_max_clear_plain c d dmax : plain (slen_max_clear c d dmax).
Proof. unfold slen_max_clear. apply plain_bind; [apply strnlen_s_prog_plain|]. intros len. apply plain_bind; [apply handle_error_plain|intro; exact I]. Qed.
Lemma strncpy_s_plain c d dmax s slen destbos srcbos : plain (strncpy_s c d dmax s slen destbos srcbos).
Proof.
  unfold strncpy_s. destruct (_ && _ && _); [cbn; exact I|]. apply chk_dest_str_plain.
  destruct (s =? 0); [apply plain_bind; [apply handle_error_plain|intro; exact I]|].
  destruct (rmax_str c <? slen); [apply slen_max_clear_plain|]. destruct (_ && _); [apply bos_overflow_plain|].
  destruct (d <? s); apply copy_loop_plain.
Qed.
Lemma strncat_s_plain c d dmax s slen destbos srcbos : plain (strncat_s c d dmax s slen destbos srcbos).
Proof.
  unfold strncat_s. destruct (_ && _ && _); [exact I|]. apply chk_dest_str_plain.
  destruct (s =? 0); [apply plain_bind; [apply handle_error_plain|intro; exact I]|].
  destruct (rmax_str c <? slen); [apply slen_max_clear_plain|].
  destruct (slen =? 0). { apply plain_bind; [apply strnlen_s_prog_plain|]. intros len. apply plain_bind; [apply handle_error_plain|intro; exact I]. }
  destruct (_ && _); [apply bos_overflow_plain|].
  destruct (d <? s); apply find_end_plain; intros; apply copy_loop_plain.
Qed.
Lemma wcscpy_s_plain c d dmax s destbos : plain (wcscpy_s c d dmax s destbos).
Proof.
  unfold wcscpy_s, chk_dest_wstr, fail_str. destruct (d =? 0); [exact I|]. destruct (dmax =? 0); [exact I|].
  assert (K : plain (if s =? 0 then handle_error c (wchar_w c) d dmax ESNULLP ;;; Ret ESNULLP
     else if d =? s then Ret EOK
     else if d <? s then copy_loop c (wchar_w c) true d dmax s false (Z.to_nat dmax) d s 0
     else copy_loop c (wchar_w c) false d dmax d false (Z.to_nat dmax) d s 0)).
  { destruct (s =? 0); [apply plain_bind; [apply handle_error_plain|intro; exact I]|]. destruct (d =? s); [exact I|]. destruct (d <? s); apply copy_loop_plain. }
  destruct (destbos =? BOS_UNKNOWN); [destruct (rmax_wstr c <? dmax); [exact I|exact K]|].
  destruct (destbos <? dmax * wchar_w c); [|exact K]. destruct (rmax_wstr c <? dmax); (apply plain_bind; [apply handle_error_plain|intro; exact I]).
Qed.
Lemma strnlen_s_plain c str smax bos : plain (strnlen_s c str smax bos).
Proof. apply strnlen_s_prog_plain. Qed.

Lemma set_loop_plain w n v : forall d, plain (set_loop w n d v).
Proof. induction n; intros d; cbn; auto. Qed.
Lemma prim_set_plain w d n v : plain (prim_set w d n v).
Proof. unfold prim_set. destruct (w =? 1); [exact I|]. destruct (v =? 0); [exact I|apply set_loop_plain]. Qed.
Lemma mem_copy_gen_plain c w rmax ub ovl code clr d dmax s slen destbos srcbos :
  plain (mem_copy_gen c w rmax ub ovl code clr d dmax s slen destbos srcbos).
Proof.
  unfold mem_copy_gen, chk_dest_mem, fail_mem, handle_mem_error. destruct (slen =? 0); [exact I|].
  destruct (d =? 0); [exact I|]. destruct (dmax =? 0); [exact I|].
  assert (K : forall D, plain (if s =? 0 then Fill d D 0 (Handler HMem ESNULLP (Ret tt)) ;;; Ret ESNULLP
     else if D <? slen * w then let err := if rmax_mem c <? slen * w then ESLEMAX else ESNOSPC in Fill d D 0 (Handler HMem err (Ret tt)) ;;; Ret err
     else if negb (srcbos =? BOS_UNKNOWN) && (srcbos <? slen * w) then (if clr then Fill d D 0 (Ret tt) else Ret tt) ;;; Handler HMem code (Ret code)
     else if ovl && chk_ovrlp_butsame d (D / w * w) s (slen * w) then Fill d D 0 (Handler HMem ESOVRLP (Ret ESOVRLP)) else Move d s (slen * w) (Ret EOK))).
  { intros D. destruct (s =? 0); [exact I|]. destruct (D <? slen * w); [exact I|]. destruct (_ && _); [destruct clr; exact I|]. destruct (_ && _); exact I. }
  destruct (destbos =? BOS_UNKNOWN); [destruct (rmax <? dmax); [exact I|apply K]|].
  destruct (destbos <? dmax); [destruct (rmax <? dmax); exact I|apply K].
Qed.
Lemma memset_s_plain c d dmax v n destbos : plain (memset_s c d dmax v n destbos).
Proof.
  unfold memset_s, fail_mem. destruct (d =? 0); [exact I|]. destruct (n =? 0); [exact I|].
  assert (G : forall D, plain (if 255 <? v then Handler HMem ESLEMAX (Ret ESLEMAX)
     else if D <? n then let err := if rmax_mem c <? n then ESLEMAX else ESNOSPC in Handler HMem err (Fill d D v (Ret err)) else Fill d n v (Ret EOK))).
  { intros D. destruct (255 <? v); [exact I|]. destruct (D <? n); exact I. }
  destruct (destbos =? BOS_UNKNOWN); [destruct (rmax_mem c <? dmax); [exact I|apply G]|].
  destruct (destbos <? dmax); [destruct (rmax_mem c <? dmax); exact I|apply G].
Qed.
Lemma memsetw_s_plain c w rmaxw d dmax v n destbos : plain (memsetw_s c w rmaxw d dmax v n destbos).
Proof.
  unfold memsetw_s, fail_mem. destruct (d =? 0); [exact I|]. destruct (n =? 0); [exact I|].
  assert (G : forall D, plain (if D / w <? n then let err := if rmaxw <? n then ESLEMAX else ESNOSPC in Handler HMem err (prim_set w d (D / w) v ;;; Ret err)
     else prim_set w d n v ;;; Ret EOK)).
  { intros D. destruct (D / w <? n); cbn [plain]; (apply plain_bind; [apply prim_set_plain|intro; exact I]). }
  destruct (destbos =? BOS_UNKNOWN); [destruct (rmax_mem c <? dmax); [exact I|apply G]|].
  destruct (destbos <? dmax); [destruct (rmax_mem c <? dmax); exact I|apply G].
Qed.
Lemma memzerow_s_plain c w d len destbos : plain (memzerow_s c w d len destbos).
Proof.
  unfold memzerow_s, chk_dest_mem, fail_mem. destruct (d =? 0); [exact I|]. destruct (len * w =? 0); [exact I|].
  destruct (destbos =? BOS_UNKNOWN); [destruct (rmax_mem c <? len * w); exact I|]. destruct (destbos <? len * w); [destruct (rmax_mem c <? len * w); exact I|exact I].
Qed.

(* syntactic read footprint of the copy loop: at most n source elements (and min(n, slen) with slen) *)
Lemma copy_loop_reads_in c w fwd od odmax bumper us n : 0 < w -> forall d s sl,
  reads_in (ext s (Z.of_nat n * w)) (copy_loop c w fwd od odmax bumper us n d s sl).
Proof.
  intros Hw. induction n as [|n IH]; intros d s sl; cbn [copy_loop].
  - apply reads_in_bind; [unfold handle_error; destruct (null_slack c); cbn; auto|cbn; auto].
  - rewrite Nat2Z.inj_succ, Z.mul_succ_l.
    destruct (if fwd then d =? bumper else s =? bumper). { apply reads_in_bind; [unfold handle_error; destruct (null_slack c); cbn; auto|cbn; auto]. }
    destruct (us && (sl =? 0)).
    { apply reads_in_bind; [|cbn; auto]. destruct (null_slack c); [|cbn; auto]. unfold zero_slack. destruct (null_slack c); [|cbn; auto].
      destruct (32 <? Z.of_nat (S n)); [cbn; auto|]. generalize (S n) d. clear. intros k. induction k; intros d; cbn; auto. }
    cbn [reads_in]. split; [apply range_ext; lia|]. intros ch. destruct (ch =? 0).
    + apply reads_in_bind; [|cbn; auto]. unfold zero_slack. destruct (null_slack c); [|cbn; auto].
      destruct (32 <? Z.of_nat (S n)); [cbn; auto|]. generalize (S n) d. clear. intros k. induction k; intros d; cbn; auto.
    + eapply reads_in_weaken; [|apply IH]. apply ext_sub; lia.
Qed.

(* syntactic footprints of strcpy_s for every input: reads at most dmax elements of src and of dest *)
Lemma strcpy_s_reads_in c d dmax s destbos : 0 <= dmax -> 0 <= destbos ->
  reads_in (fun a => ext s dmax a \/ ext d dmax a) (strcpy_s c d dmax s destbos).
Proof.
  intros H0 Hb. unfold strcpy_s, chk_dest_str, fail_str.
  destruct (d =? 0); [exact I|]. destruct (dmax =? 0); [exact I|].
  assert (K : reads_in (fun a => ext s dmax a \/ ext d dmax a)
    (if s =? 0 then handle_error c 1 d dmax ESNULLP ;;; Ret ESNULLP else if d =? s then Ret EOK
     else if d <? s then copy_loop c 1 true d dmax s false (Z.to_nat dmax) d s 0 else copy_loop c 1 false d dmax d false (Z.to_nat dmax) d s 0)).
  { destruct (s =? 0). { apply reads_in_bind; [unfold handle_error; destruct (null_slack c); cbn; auto|cbn; auto]. }
    destruct (d =? s); [exact I|].
    destruct (d <? s); (eapply reads_in_weaken; [|apply copy_loop_reads_in; lia]); intros a Ha; left; revert Ha; apply ext_sub; lia. }
  destruct (destbos =? BOS_UNKNOWN); [destruct (rmax_str c <? dmax); [exact I|exact K]|].
  destruct (destbos <? dmax) eqn:E; [|exact K].
  destruct (rmax_str c <? dmax). { apply reads_in_bind; [unfold handle_error; destruct (null_slack c); cbn; auto|cbn; auto]. }
  unfold bos_overflow. apply reads_in_bind.
  - eapply reads_in_weaken; [|apply strnlen_s_prog_reads; [reflexivity|lia]]. intros a Ha. right. revert Ha. apply ext_sub; lia.
  - intros len. destruct (rmax_str c <? len); (apply reads_in_bind; [unfold handle_error; destruct (null_slack c); cbn; auto|cbn; auto]).
Qed.
