(* SpecExt.v -- functional specifications (weakest preconditions) of models in ModExt.v:
   strnterminate_s (C03/C06), strtolowercase_s / strtouppercase_s (C06, operands otherwise untouched). *)
From Coq Require Import List ZArith Lia Bool.
From SC Require Import Base Wp Cfg Comb CombProofs ModExt.
Import ListNotations.
Local Open Scope Z_scope.
Local Open Scope prog_scope.

(* ---- strnterminate_s ---- *)
Lemma nterm_loop_spec n : forall d cnt m,
  wp (nterm_loop n d cnt) m (fun r m' => exists t, 0 <= t <= Z.of_nat n /\ r = cnt + t /\
     (forall i, 0 <= i < t -> m (d + i) <> 0) /\ (t < Z.of_nat n -> m (d + t) = 0) /\ m' = store m 1 (d + t) 0).
Proof.
  induction n as [|n IH]; intros d cnt m; cbn [nterm_loop wp].
  - exists 0. rewrite !Z.add_0_r. repeat split; try lia; try (intros; lia).
  - rewrite load1. destruct (m d =? 0) eqn:E; cbn [wp].
    + apply Z.eqb_eq in E. exists 0. rewrite !Z.add_0_r. repeat split; try lia; auto; try (intros; lia).
    + apply Z.eqb_neq in E. eapply wp_weaken; [|apply IH]. cbn beta. intros r m' (t & Ht & Hr & Hnz & Hz & Hm).
      exists (t + 1). rewrite Nat2Z.inj_succ. repeat split; try lia.
      * intros i Hi. destruct (Z.eq_dec i 0) as [->|Ni]; [rewrite Z.add_0_r; exact E|].
        replace (d + i) with (d + 1 + (i - 1)) by lia. apply Hnz. lia.
      * intros Hl. replace (d + (t + 1)) with (d + 1 + t) by lia. apply Hz. lia.
      * replace (d + (t + 1)) with (d + 1 + t) by lia. exact Hm.
Qed.
(* the full function: on a usable destination the result is the string cut at dmax-1 characters, terminated,
   the count of characters kept is returned, and no other byte changes *)
Theorem strnterminate_s_spec c d dmax m : d <> 0 -> 1 <= dmax <= rmax_str c ->
  wp (strnterminate_s c d dmax BOS_UNKNOWN) m (fun r m' => 0 <= r < dmax /\
     (forall i, 0 <= i < r -> m (d + i) <> 0) /\ (r < dmax - 1 -> m (d + r) = 0) /\
     m' (d + r) = 0 /\ (forall a, a <> d + r -> m' a = m a)).
Proof.
  intros Hd Hm. unfold strnterminate_s.
  replace (d =? 0) with false by (symmetry; apply Z.eqb_neq; lia).
  replace (dmax =? 0) with false by (symmetry; apply Z.eqb_neq; lia).
  rewrite Z.eqb_refl. replace (rmax_str c <? dmax) with false by (symmetry; apply Z.ltb_ge; lia).
  eapply wp_weaken; [|apply nterm_loop_spec]. cbn beta. intros r m' (t & Ht & Hr & Hnz & Hz & ->).
  rewrite Z2Nat.id in * by lia. subst r. rewrite Z.add_0_l. repeat split; try lia; auto.
  - rewrite store1_in. reflexivity.
  - intros a Ha. apply store_out. lia.
Qed.

(* ---- strtolowercase_s / strtouppercase_s ---- *)
Definition conv (lo hi delta x : Z) : Z := if (lo <=? x) && (x <=? hi) then (x + delta) mod 256 else x.
Lemma case_loop_spec lo hi delta n : forall d m,
  wp (case_loop lo hi delta n d) m (fun r m' => r = EOK /\ exists t, 0 <= t <= Z.of_nat n /\
     (forall i, 0 <= i < t -> m (d + i) <> 0) /\ (t < Z.of_nat n -> m (d + t) = 0) /\
     forall a, m' a = if (d <=? a) && (a <? d + t) then conv lo hi delta (m a) else m a).
Proof.
  induction n as [|n IH]; intros d m; cbn [case_loop wp].
  - split; [reflexivity|]. exists 0. repeat split; try lia; try (intros; lia).
    intros a. rewrite ?Z.add_0_r. destruct (Z.leb_spec d a); destruct (Z.ltb_spec a d); cbn; try reflexivity; lia.
  - rewrite load1. destruct (m d =? 0) eqn:E.
    + apply Z.eqb_eq in E. cbn [wp]. split; [reflexivity|]. exists 0. rewrite Z.add_0_r. repeat split; try lia; auto; try (intros; lia).
      intros a. rewrite ?Z.add_0_r. destruct (Z.leb_spec d a); destruct (Z.ltb_spec a d); cbn; try reflexivity; lia.
    + apply Z.eqb_neq in E.
      assert (Step : forall m1, (forall a, a <> d -> m1 a = m a) -> m1 d = conv lo hi delta (m d) ->
        wp (case_loop lo hi delta n (d + 1)) m1 (fun r m' => r = EOK /\ exists t, 0 <= t <= Z.of_nat (S n) /\
           (forall i, 0 <= i < t -> m (d + i) <> 0) /\ (t < Z.of_nat (S n) -> m (d + t) = 0) /\
           forall a, m' a = if (d <=? a) && (a <? d + t) then conv lo hi delta (m a) else m a)).
      { intros m1 Ho Hd. eapply wp_weaken; [|apply IH]. cbn beta. intros r m' (Hr & t & Ht & Hnz & Hz & Hm).
        split; [exact Hr|]. exists (t + 1). rewrite Nat2Z.inj_succ. repeat split; try lia.
        - intros i Hi. destruct (Z.eq_dec i 0) as [->|Ni]; [rewrite Z.add_0_r; exact E|].
          specialize (Hnz (i - 1) ltac:(lia)). rewrite Ho in Hnz by lia. replace (d + 1 + (i - 1)) with (d + i) in Hnz by lia. exact Hnz.
        - intros Hl. specialize (Hz ltac:(lia)). rewrite Ho in Hz by lia. replace (d + 1 + t) with (d + (t + 1)) in Hz by lia. exact Hz.
        - intros a. rewrite Hm. destruct (Z.eq_dec a d) as [->|Na].
          + replace ((d + 1 <=? d) && (d <? d + 1 + t)) with false by (symmetry; apply andb_false_iff; left; apply Z.leb_gt; lia).
            replace ((d <=? d) && (d <? d + (t + 1))) with true by (symmetry; apply andb_true_iff; split; [apply Z.leb_le|apply Z.ltb_lt]; lia). exact Hd.
          + rewrite Ho by exact Na.
            replace ((d <=? a) && (a <? d + (t + 1))) with ((d + 1 <=? a) && (a <? d + 1 + t)); [reflexivity|].
            destruct (Z.leb_spec (d + 1) a), (Z.leb_spec d a), (Z.ltb_spec a (d + 1 + t)), (Z.ltb_spec a (d + (t + 1))); cbn; try reflexivity; lia. }
      destruct ((lo <=? m d) && (m d <=? hi)) eqn:R; cbn [wp].
      * apply Step; [intros a Ha; apply store_out; lia|]. rewrite store1_in. unfold conv. rewrite R. reflexivity.
      * apply Step; [reflexivity|]. unfold conv. rewrite R. reflexivity.
Qed.
Theorem strtolowercase_s_spec c d dmax m : d <> 0 -> 1 <= dmax <= rmax_str c ->
  wp (strtolowercase_s c d dmax BOS_UNKNOWN) m (fun r m' => r = EOK /\ exists t, 0 <= t <= dmax /\
     (forall i, 0 <= i < t -> m (d + i) <> 0) /\ (t < dmax -> m (d + t) = 0) /\
     forall a, m' a = if (d <=? a) && (a <? d + t) then conv 65 90 32 (m a) else m a).
Proof.
  intros Hd Hm. unfold strtolowercase_s, chk_dest_plain.
  replace (d =? 0) with false by (symmetry; apply Z.eqb_neq; lia).
  replace (dmax =? 0) with false by (symmetry; apply Z.eqb_neq; lia).
  rewrite Z.eqb_refl. replace (rmax_str c <? dmax) with false by (symmetry; apply Z.ltb_ge; lia).
  eapply wp_weaken; [|apply case_loop_spec]. cbn beta. intros r m' (Hr & t & Ht & H1 & H2 & H3). rewrite Z2Nat.id in * by lia.
  split; [exact Hr|]. exists t. auto.
Qed.
Theorem strtouppercase_s_spec c d dmax m : d <> 0 -> 1 <= dmax <= rmax_str c ->
  wp (strtouppercase_s c d dmax BOS_UNKNOWN) m (fun r m' => r = EOK /\ exists t, 0 <= t <= dmax /\
     (forall i, 0 <= i < t -> m (d + i) <> 0) /\ (t < dmax -> m (d + t) = 0) /\
     forall a, m' a = if (d <=? a) && (a <? d + t) then conv 97 122 (-32) (m a) else m a).
Proof.
  intros Hd Hm. unfold strtouppercase_s, chk_dest_plain.
  replace (d =? 0) with false by (symmetry; apply Z.eqb_neq; lia).
  replace (dmax =? 0) with false by (symmetry; apply Z.eqb_neq; lia).
  rewrite Z.eqb_refl. replace (rmax_str c <? dmax) with false by (symmetry; apply Z.ltb_ge; lia).
  eapply wp_weaken; [|apply case_loop_spec]. cbn beta. intros r m' (Hr & t & Ht & H1 & H2 & H3). rewrite Z2Nat.id in * by lia.
  split; [exact Hr|]. exists t. auto.
Qed.

(* ---- stpcpy_s: on disjoint operands with room, the result is the source string, the returned pointer is the
   address of its terminator, *errp is EOK, the slack is cleared (null-slack), nothing else changes ---- *)
From SC Require Import CopySpec.
Lemma load4_zero_store m p : load (store m 4 p 0) 4 p = 0.
Proof. rewrite load_store_same by lia. reflexivity. Qed.

Section StpSpec.
  Variables (c : cfg) (fwd : bool) (od odmax bumper errp : Z).
  Hypothesis Herr : errp + 4 <= od \/ od + odmax <= errp.

  (* the success exit *)
  Lemma stp_eok_wp t d rem m (Q : Z -> mem -> Prop) : od <= d -> d + Z.of_nat rem <= od + odmax ->
    (forall m', load m' 4 errp = 0 ->
        (forall a, m' a = if in_range errp 4 a then m' a else if null_slack c && in_range d (Z.of_nat rem) a then 0 else m a) -> Q d m') ->
    (t = false \/ null_slack c = true) ->
    wp (stp_eok c t errp d rem) m Q.
  Proof.
    intros H1 H2 HQ Ht. unfold stp_eok. apply wp_bind.
    assert (Z1 : forall m1, (forall a, m1 a = if null_slack c && in_range d (Z.of_nat rem * 1) a then 0 else m a) ->
                 wp (Store 4 errp EOK (Ret d)) m1 Q).
    { intros m1 Hm1. cbn [wp]. apply HQ; [apply load4_zero_store|]. intros a. destruct (in_range errp 4 a) eqn:E; [reflexivity|].
      apply in_range_false in E. rewrite store_out by lia. rewrite Hm1. rewrite Z.mul_1_r. reflexivity. }
    destruct (null_slack c) eqn:N.
    - apply zero_slack_wp; [lia|]. intros m1 Hm1. apply Z1. rewrite N in Hm1. exact Hm1.
    - destruct Ht as [->|Ht]; [|discriminate]. cbn [wp]. apply Z1. intros a. reflexivity.
  Qed.

  (* the copy loop: Lr characters of the source remain (then its terminator), none of the bumper tests fires *)
  Lemma stp_loop_ok rem : forall d s sl m Lr, wf_mem m -> 0 <= Lr < Z.of_nat rem -> od <= d -> d + Z.of_nat rem <= od + odmax ->
    (forall i, 0 <= i < Lr -> m (s + i) <> 0) -> m (s + Lr) = 0 ->
    (s + Lr < d \/ d + Z.of_nat rem <= s) ->
    (forall i, 0 <= i <= Lr -> (if fwd then d + i else s + i) <> bumper) ->
    wp (stp_loop c fwd od odmax bumper errp BOS_UNKNOWN false false rem d s sl) m (fun r m' =>
      r = d + Lr /\ load m' 4 errp = 0 /\
      (forall i, 0 <= i <= Lr -> m' (d + i) = m (s + i)) /\
      (null_slack c = true -> forall a, d + Lr < a < d + Z.of_nat rem -> m' a = 0) /\
      (forall a, ~ (d <= a < d + Z.of_nat rem) -> ~ (errp <= a < errp + 4) -> m' a = m a)).
  Proof.
    induction rem as [|rem IH]; intros d s sl m Lr Hwf HL H1 H2 Hnz Hz Hdis Hb; [cbn in HL; lia|].
    rewrite Nat2Z.inj_succ in *. cbn [stp_loop].
    pose proof (Hb 0 ltac:(lia)) as Hb0. rewrite !Z.add_0_r in Hb0.
    replace (if fwd then d =? bumper else s =? bumper) with false by (destruct fwd; symmetry; apply Z.eqb_neq; exact Hb0).
    cbn [andb wp]. rewrite load1.
    destruct (m s =? 0) eqn:E.
    - (* the terminator: Lr = 0 *)
      apply Z.eqb_eq in E. assert (Lr = 0) by (destruct (Z.eq_dec Lr 0); [auto|exfalso; apply (Hnz 0); [lia|rewrite Z.add_0_r; exact E]]). subst Lr.
      apply stp_eok_wp; [lia|rewrite Nat2Z.inj_succ; lia| |left; reflexivity].
      intros m' He Hm'. rewrite Z.add_0_r. split; [reflexivity|]. split; [exact He|].
      assert (Hs : forall a, ~ (errp <= a < errp + 4) -> m' a = if null_slack c && in_range d (Z.of_nat (S rem)) a then 0 else store m 1 d (m s) a).
      { intros a Ha. rewrite Hm'. replace (in_range errp 4 a) with false by (symmetry; apply in_range_false; lia). reflexivity. }
      split; [|split].
      + intros i Hi. assert (i = 0) by lia. subst i. rewrite !Z.add_0_r. rewrite Hs by lia. rewrite E.
        destruct (null_slack c && in_range d (Z.of_nat (S rem)) d); [reflexivity|]. rewrite store1_in. reflexivity.
      + intros N a Ha. rewrite Hs by lia. rewrite N. replace (in_range d (Z.of_nat (S rem)) a) with true; [reflexivity|].
        symmetry. apply in_range_spec. rewrite Nat2Z.inj_succ. lia.
      + intros a Ha He'. rewrite Hs by exact He'. replace (in_range d (Z.of_nat (S rem)) a) with false by (symmetry; apply in_range_false; rewrite Nat2Z.inj_succ; lia).
        rewrite andb_false_r. apply store_out. lia.
    - apply Z.eqb_neq in E. assert (1 <= Lr) by (destruct (Z.eq_dec Lr 0) as [->|]; [rewrite Z.add_0_r in Hz; contradiction|lia]).
      cbn [andb negb]. change (negb (BOS_UNKNOWN =? BOS_UNKNOWN)) with false. cbn [andb].
      set (m1 := store m 1 d (m s)).
      assert (Hm1 : forall a, a <> d -> m1 a = m a) by (intros a Ha; apply store_out; lia).
      eapply wp_weaken; [|apply (IH (d + 1) (s + 1) (sl - 1) m1 (Lr - 1)); try lia; [apply wf_store; exact Hwf| | | ]].
      + cbn beta. intros r m' (Hr & He & Hc & Hs & Hf). split; [lia|]. split; [exact He|]. split; [|split].
        * intros i Hi. destruct (Z.eq_dec i 0) as [->|Ni].
          -- rewrite !Z.add_0_r. rewrite Hf by lia. unfold m1. rewrite store1_in. apply Z.mod_small. apply Hwf.
          -- replace (d + i) with (d + 1 + (i - 1)) by lia. rewrite Hc by lia. rewrite Hm1 by lia. f_equal. lia.
        * intros N a Ha. apply Hs; [exact N|lia].
        * intros a Ha He'. rewrite Hf by lia. apply Hm1. lia.
      + intros i Hi. rewrite Hm1 by lia. replace (s + 1 + i) with (s + (i + 1)) by lia. apply Hnz. lia.
      + rewrite Hm1 by lia. replace (s + 1 + (Lr - 1)) with (s + Lr) by lia. exact Hz.
      + intros i Hi. specialize (Hb (i + 1) ltac:(lia)). destruct fwd; [replace (d + 1 + i) with (d + (i + 1)) by lia|replace (s + 1 + i) with (s + (i + 1)) by lia]; exact Hb.
  Qed.
End StpSpec.

Theorem stpcpy_s_spec c d dmax s errp m L : wf_mem m -> d <> 0 -> s <> 0 -> errp <> 0 -> 1 <= dmax <= rmax_str c ->
  0 <= L < dmax -> (forall i, 0 <= i < L -> m (s + i) <> 0) -> m (s + L) = 0 ->
  (s + L < d \/ d + dmax <= s) -> (errp + 4 <= d \/ d + dmax <= errp) ->
  wp (stpcpy_s c d dmax s errp BOS_UNKNOWN BOS_UNKNOWN) m (fun r m' =>
    r = d + L /\ load m' 4 errp = 0 /\
    (forall i, 0 <= i <= L -> m' (d + i) = m (s + i)) /\
    (null_slack c = true -> forall a, d + L < a < d + dmax -> m' a = 0) /\
    (forall a, ~ (d <= a < d + dmax) -> ~ (errp <= a < errp + 4) -> m' a = m a)).
Proof.
  intros Hwf Hd Hs He Hm HL Hnz Hz Hdis Herr. unfold stpcpy_s.
  replace (errp =? 0) with false by (symmetry; apply Z.eqb_neq; lia).
  replace (d =? 0) with false by (symmetry; apply Z.eqb_neq; lia).
  replace (dmax =? 0) with false by (symmetry; apply Z.eqb_neq; lia).
  rewrite Z.eqb_refl. replace (rmax_str c <? dmax) with false by (symmetry; apply Z.ltb_ge; lia).
  replace (s =? 0) with false by (symmetry; apply Z.eqb_neq; lia).
  replace (d =? s) with false by (symmetry; apply Z.eqb_neq; lia).
  destruct (d <? s) eqn:E.
  - apply Z.ltb_lt in E. eapply wp_weaken; [|apply (stp_loop_ok c true d dmax s errp Herr (Z.to_nat dmax) d s 0 m L); rewrite ?Z2Nat.id by lia; auto; try lia; intros i Hi; lia].
    cbn beta. rewrite Z2Nat.id by lia. auto.
  - apply Z.ltb_ge in E. eapply wp_weaken; [|apply (stp_loop_ok c false d dmax d errp Herr (Z.to_nat dmax) d s 0 m L); rewrite ?Z2Nat.id by lia; auto; try lia; intros i Hi; lia].
    cbn beta. rewrite Z2Nat.id by lia. auto.
Qed.
