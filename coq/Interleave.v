(* Interleave.v -- C12(1): two library calls whose footprints are disjoint and which own no
   static object give, under EVERY interleaving of their atomic steps (sequentially consistent
   memory), the results and memory of running them one after the other. *)
From Coq Require Import List ZArith Lia Bool.
From SC Require Import Base Wp.
Import ListNotations.
Local Open Scope Z_scope.

Definition meq (m1 m2 : mem) : Prop := forall a, m1 a = m2 a.

(* programs of interest allocate nothing and touch no static (the others are C12's known findings) *)
Fixpoint plain {A} (p : prog A) : Prop :=
  match p with
  | Ret _ => True
  | Load _ _ k => forall v, plain (k v)
  | Store _ _ _ k | Fill _ _ _ k | Move _ _ _ k | Handler _ _ k => plain k
  | Alloc _ _ | Free _ _ | Static _ _ => False
  end.

(* memory-only semantics (agrees with [run] on plain programs, see runm_run) *)
Fixpoint runm {A} (p : prog A) (m : mem) : option (A * mem) :=
  match p with
  | Ret a => Some (a, m)
  | Load w a k => runm (k (load m w a)) m
  | Store w a v k => runm k (store m w a v)
  | Fill a n v k => runm k (fill m a n v)
  | Move d s n k => runm k (move m d s n)
  | Handler _ _ k => runm k m
  | _ => None
  end.
(* one atomic step *)
Definition stepm {A} (p : prog A) (m : mem) : prog A * mem :=
  match p with
  | Load w a k => (k (load m w a), m)
  | Store w a v k => (k, store m w a v)
  | Fill a n v k => (k, fill m a n v)
  | Move d s n k => (k, move m d s n)
  | Handler _ _ k => (k, m)
  | _ => (p, m)
  end.
(* schedule: true = left thread steps, false = right thread steps; then both run to completion *)
Fixpoint inter {A B} (s : list bool) (p : prog A) (q : prog B) (m : mem) : option (A * B * mem) :=
  match s with
  | [] => match runm p m with
          | Some (a, m1) => match runm q m1 with Some (b, m2) => Some (a, b, m2) | None => None end
          | None => None
          end
  | true :: s' => let '(p', m') := stepm p m in inter s' p' q m'
  | false :: s' => let '(q', m') := stepm q m in inter s' p q' m'
  end.

(* read / write footprints, for every loaded value *)
Fixpoint fp {A} (R W : Z -> Prop) (p : prog A) : Prop :=
  match p with
  | Ret _ => True
  | Load w a k => range_in R a w /\ forall v, fp R W (k v)
  | Store w a _ k => range_in W a w /\ fp R W k
  | Fill a n _ k => range_in W a n /\ fp R W k
  | Move d s n k => range_in R s n /\ range_in W d n /\ fp R W k
  | Handler _ _ k => fp R W k
  | _ => False
  end.
Lemma fp_from_footprints {A} R W (p : prog A) : plain p -> reads_in R p -> writes_in W p -> fp R W p.
Proof.
  induction p; cbn; intros Hp Hr Hw; auto; try contradiction.
  - destruct Hr as [Hr1 Hr2]. split; auto.
  - destruct Hw as [Hw1 Hw2]. split; auto.
  - destruct Hw as [Hw1 Hw2]. split; auto.
  - destruct Hr as [Hr1 Hr2]. destruct Hw as [Hw1 Hw2]. repeat split; auto.
Qed.

Lemma load_meq m1 m2 w a : (forall x, a <= x < a + w -> m1 x = m2 x) -> load m1 w a = load m2 w a.
Proof. apply load_ext. Qed.

Lemma runm_meq {A} (p : prog A) : forall m1 m2, meq m1 m2 ->
  match runm p m1, runm p m2 with
  | Some (a1, n1), Some (a2, n2) => a1 = a2 /\ meq n1 n2
  | None, None => True
  | _, _ => False
  end.
Proof.
  induction p as [a|w p k IHk|w p v k IHk|p n v k IHk|d s n k IHk|hk c k IHk|n k IHk|p k IHk|i k IHk];
    cbn; intros m1 m2 Hmeq; auto.
  - rewrite (load_meq m1 m2 w p) by (intros; apply Hmeq). apply IHk; auto.
  - apply IHk. intros x. unfold store. destruct (in_range p w x); auto.
  - apply IHk. intros x. unfold fill. destruct (in_range p n x); auto.
  - apply IHk. intros x. unfold move. destruct (in_range d n x); auto.
  - apply IHk; auto.
Qed.

(* a memory transformer with write set W whose written values depend only on R *)
Record xform (R W : Z -> Prop) (T : mem -> mem) : Prop := {
  xf_frame : forall m x, ~ W x -> T m x = m x;
  xf_dep : forall m1 m2, (forall x, R x -> m1 x = m2 x) -> forall x, W x -> T m1 x = T m2 x }.
Definition decidable_set (W : Z -> Prop) : Prop := forall x, W x \/ ~ W x.

Lemma xform_commute Rp Wp P Rq Wq T : xform Rp Wp P -> xform Rq Wq T ->
  decidable_set Wp -> decidable_set Wq ->
  (forall x, Wq x -> ~ Rp x /\ ~ Wp x) -> (forall x, Wp x -> ~ Rq x) ->
  forall m, meq (P (T m)) (T (P m)).
Proof.
  intros [Pf Pd] [Tf Td] Dp Dq Hq Hp m x.
  destruct (Dp x) as [Hx|Hx].
  - assert (~ Wq x) by (intro Hw; destruct (Hq x Hw); tauto).
    rewrite (Tf (P m) x) by auto. apply Pd; auto. intros y Hy. apply Tf. intro Hw. destruct (Hq y Hw); tauto.
  - rewrite (Pf (T m) x) by auto. destruct (Dq x) as [Hw|Hw].
    + apply Td; auto. intros y Hy. symmetry. apply Pf. intro Hwp. apply (Hp y Hwp Hy).
    + rewrite !Tf by auto. symmetry. apply Pf. auto.
Qed.

Definition rng (a n : Z) : Z -> Prop := fun x => a <= x < a + n.
Lemma rng_dec a n : decidable_set (rng a n).
Proof. intros x. unfold rng. lia. Qed.
Lemma store_xform w a v : xform (fun _ => False) (rng a w) (fun m => store m w a v).
Proof. split; [intros m x Hx; apply store_out; exact Hx|].
  intros m1 m2 _ x Hx. unfold store. unfold rng in Hx. apply in_range_spec in Hx. rewrite Hx. reflexivity. Qed.
Lemma fill_xform a n v : xform (fun _ => False) (rng a n) (fun m => fill m a n v).
Proof. split; [intros m x Hx; apply fill_out; exact Hx|].
  intros m1 m2 _ x Hx. unfold fill. unfold rng in Hx. apply in_range_spec in Hx. rewrite Hx. reflexivity. Qed.
Lemma move_xform d s n : xform (rng s n) (rng d n) (fun m => move m d s n).
Proof. split; [intros m x Hx; apply move_out; exact Hx|].
  intros m1 m2 H x Hx. unfold rng in Hx. rewrite !move_in by exact Hx. apply H. unfold rng. lia. Qed.
(* a transformer of the other thread commutes with a whole run of p *)
Lemma run_xform_comm {A} Rp Wp Rq Wq T (p : prog A) : xform Rq Wq T -> decidable_set Wq ->
  (forall x, Wq x -> ~ Rp x /\ ~ Wp x) -> (forall x, Wp x -> ~ Rq x) -> fp Rp Wp p ->
  forall m m', meq m' (T m) ->
  match runm p m', runm p m with
  | Some (a1, n1), Some (a2, n2) => a1 = a2 /\ meq n1 (T n2)
  | None, None => True
  | _, _ => False
  end.
Proof.
  intros HT Dq HWq HWp. induction p; cbn; intros Hf m m' He; auto; try contradiction.
  - destruct Hf as [Hr Hf]. replace (load m' w p) with (load m w p).
    + apply H; auto.
    + apply load_meq. intros x Hx. rewrite He. symmetry. apply (xf_frame _ _ _ HT). intro Hq. destruct (HWq x Hq) as [N _]. apply N, Hr, Hx.
  - destruct Hf as [Hwr Hf]. apply IHp; auto. intros x.
    transitivity (store (T m) w p v x).
    { unfold store. destruct (in_range p w x); auto. }
    apply (xform_commute (fun _ => False) (rng p w) (fun m => store m w p v) Rq Wq T (store_xform w p v) HT (rng_dec p w) Dq).
    + intros y Hy. split; [tauto|]. intro Hr. destruct (HWq y Hy) as [_ N]. apply N, Hwr, Hr.
    + intros y Hy. apply HWp, Hwr, Hy.
  - destruct Hf as [Hwr Hf]. apply IHp; auto. intros x.
    transitivity (fill (T m) p n v x).
    { unfold fill. destruct (in_range p n x); auto. }
    apply (xform_commute (fun _ => False) (rng p n) (fun m => fill m p n v) Rq Wq T (fill_xform p n v) HT (rng_dec p n) Dq).
    + intros y Hy. split; [tauto|]. intro Hr. destruct (HWq y Hy) as [_ N]. apply N, Hwr, Hr.
    + intros y Hy. apply HWp, Hwr, Hy.
  - destruct Hf as (Hrd & Hwr & Hf). apply IHp; auto. intros x.
    transitivity (move (T m) d s n x).
    { unfold move. destruct (in_range d n x); auto. }
    apply (xform_commute (rng s n) (rng d n) (fun m => move m d s n) Rq Wq T (move_xform d s n) HT (rng_dec d n) Dq).
    + intros y Hy. destruct (HWq y Hy) as [N1 N2]. split; intro Hr; [apply N1, Hrd, Hr|apply N2, Hwr, Hr].
    + intros y Hy. apply HWp, Hwr, Hy.
  - apply IHp; auto.
Qed.

(* p's run does not disturb what q reads *)
Lemma runm_frame {A} Rp Wp (p : prog A) : fp Rp Wp p -> forall m x r n', runm p m = Some (r, n') -> ~ Wp x -> n' x = m x.
Proof.
  induction p as [a|w p k IHk|w p v k IHk|p n v k IHk|d s n k IHk|hk c k IHk|n k IHk|p k IHk|i k IHk];
    cbn; intros Hf m x r n' Hr Ha; try contradiction; try discriminate.
  - inversion Hr; subst. reflexivity.
  - destruct Hf. eapply IHk; eauto.
  - destruct Hf as [Hw Hf]. rewrite (IHk Hf _ x _ _ Hr Ha). apply store_out. intro Hx. apply Ha, Hw, Hx.
  - destruct Hf as [Hw Hf]. rewrite (IHk Hf _ x _ _ Hr Ha). apply fill_out. intro Hx. apply Ha, Hw, Hx.
  - destruct Hf as (Hrd & Hw & Hf). rewrite (IHk Hf _ x _ _ Hr Ha). apply move_out. intro Hx. apply Ha, Hw, Hx.
  - eapply IHk; eauto.
Qed.
Lemma fp_runm_some {A} R W (p : prog A) : fp R W p -> forall m, exists r n, runm p m = Some (r, n).
Proof. induction p; cbn; intros Hf m; try contradiction; eauto; try (destruct Hf as [? Hf]; eauto); try (destruct Hf as [? Hf]; eauto). Qed.

Definition disjoint_fp (Rp Wp Rq Wq : Z -> Prop) : Prop :=
  (forall x, Wq x -> ~ Rp x /\ ~ Wp x) /\ (forall x, Wp x -> ~ Rq x).

Theorem inter_seq {A B} Rp Wp Rq Wq (s : list bool) : forall (p : prog A) (q : prog B) m,
  disjoint_fp Rp Wp Rq Wq -> decidable_set Wq -> fp Rp Wp p -> fp Rq Wq q ->
  match inter s p q m, runm p m with
  | Some (a, b, m'), Some (a0, m1) =>
      match runm q m1 with Some (b0, m2) => a = a0 /\ b = b0 /\ meq m' m2 | None => False end
  | _, _ => False
  end.
Proof.
  induction s as [|c s IH]; intros p q m D Dq Hp Hq.
  - cbn. destruct (fp_runm_some _ _ p Hp m) as (a & m1 & E1). rewrite E1.
    destruct (fp_runm_some _ _ q Hq m1) as (b & m2 & E2). rewrite E2. repeat split.
  - destruct c; cbn [inter].
    + (* the left thread steps: nothing to commute *)
      destruct p as [a|w pa k|w pa v k|pa n v k|d s0 n k|hk c k|n k|pa k|i k]; cbn [stepm]; try (cbn in Hp; contradiction).
      * apply (IH (Ret a) q m D Dq Hp Hq).
      * cbn in Hp. destruct Hp as [_ Hp]. apply (IH (k (load m w pa)) q m D Dq (Hp _) Hq).
      * cbn in Hp. destruct Hp as [_ Hp]. apply (IH k q (store m w pa v) D Dq Hp Hq).
      * cbn in Hp. destruct Hp as [_ Hp]. apply (IH k q (fill m pa n v) D Dq Hp Hq).
      * cbn in Hp. destruct Hp as (_ & _ & Hp). apply (IH k q (move m d s0 n) D Dq Hp Hq).
      * cbn in Hp. apply (IH k q m D Dq Hp Hq).
    + (* the right thread steps first: commute its step behind the whole run of p *)
      destruct D as [D1 D2].
      destruct (fp_runm_some _ _ p Hp m) as (a0 & m1 & E1).
      assert (WR : forall (Rt Wt : Z -> Prop) T (k : prog B), xform Rt Wt T -> decidable_set Wt ->
                   (forall x, Rt x -> Rq x) -> (forall x, Wt x -> Wq x) -> fp Rq Wq k ->
                   match inter s p k (T m), runm p m with
                   | Some (a, b, m'), Some (a0, m1) =>
                       match runm k (T m1) with Some (b0, m2) => a = a0 /\ b = b0 /\ meq m' m2 | None => False end
                   | _, _ => False
                   end).
      { intros Rt Wt T k HT Dt HRt HWt Hk. specialize (IH p k (T m) (conj D1 D2) Dq Hp Hk).
        pose proof (run_xform_comm Rp Wp Rt Wt T p HT Dt
                      (fun x Hx => D1 x (HWt x Hx)) (fun x Hx Hr => D2 x Hx (HRt x Hr)) Hp m (T m) (fun x => eq_refl)) as C.
        rewrite E1 in *. destruct (inter s p k (T m)) as [[[a b] m']|]; [|exact IH].
        destruct (runm p (T m)) as [[a1 n1]|]; [|contradiction]. destruct C as [Ea En].
        pose proof (runm_meq k n1 (T m1) En) as K.
        destruct (runm k n1) as [[b1 n2]|]; [|contradiction].
        destruct (runm k (T m1)) as [[b2 n3]|]; [|contradiction].
        destruct IH as (I1 & I2 & I3). destruct K as [K1 K2]. subst. repeat split; auto.
        intros x. rewrite I3. apply K2. }
      destruct q as [a|w pa k|w pa v k|pa n v k|d s0 n k|hk c k|n k|pa k|i k]; cbn [stepm]; try (cbn in Hq; contradiction).
      * apply (IH p (Ret a) m (conj D1 D2) Dq Hp Hq).
      * cbn in Hq. destruct Hq as [Hr Hq]. specialize (IH p (k (load m w pa)) m (conj D1 D2) Dq Hp (Hq _)).
        rewrite E1 in *. cbn [runm].
        replace (load m1 w pa) with (load m w pa); [exact IH|].
        apply load_meq. intros x Hx. symmetry. apply (runm_frame Rp Wp p Hp m x a0 m1 E1). intro Hw. apply (D2 x Hw), Hr, Hx.
      * cbn in Hq. destruct Hq as [Hw Hq].
        pose proof (WR (fun _ => False) (rng pa w) (fun m => store m w pa v) k (store_xform w pa v) (rng_dec pa w)
                      (fun x F => match F with end) (fun x Hx => Hw x Hx) Hq) as G.
        rewrite E1 in *. cbn [runm]. exact G.
      * cbn in Hq. destruct Hq as [Hw Hq].
        pose proof (WR (fun _ => False) (rng pa n) (fun m => fill m pa n v) k (fill_xform pa n v) (rng_dec pa n)
                      (fun x F => match F with end) (fun x Hx => Hw x Hx) Hq) as G.
        rewrite E1 in *. cbn [runm]. exact G.
      * cbn in Hq. destruct Hq as (Hr & Hw & Hq).
        pose proof (WR (rng s0 n) (rng d n) (fun m => move m d s0 n) k (move_xform d s0 n) (rng_dec d n)
                      (fun x Hx => Hr x Hx) (fun x Hx => Hw x Hx) Hq) as G.
        rewrite E1 in *. cbn [runm]. exact G.
      * cbn in Hq. specialize (IH p k m (conj D1 D2) Dq Hp Hq). rewrite E1 in *. cbn [runm]. exact IH.
Qed.
