(* Properties_C18.v -- C18: secure erase really erases.  Only theorem statements, each closed by [exact].
   (a) functional part: exactly the requested bytes hold the fill value, nothing else changes -- every n, alignment, value;
   (b) shape part (regenerated from the source on every run): every plain store of every erase function is
       followed by a barrier, so the abstract optimiser cannot remove it;
   (c) NOT provable here: that gcc/clang implement that abstract optimiser. Examined empirically in the thorough
       tier (client programs at -O0..-O3, static/LTO); the evidence labels C18 partial. *)
From Coq Require Import List ZArith Lia Bool String.
From SC Require Import Base Wp Cfg Comb ModMem ProofsMem SpecMem EraseShape.
From SC.Gen Require Import Consts EraseShapes.
Import ListNotations.
Local Open Scope Z_scope.

Theorem C18_memset_s_exact : forall c d dmax v n m, d <> 0 -> 1 <= n <= dmax -> dmax <= rmax_mem c -> 0 <= v <= 255 ->
  wp (memset_s c d dmax v n BOS_UNKNOWN) m (fun r m' => r = EOK /\ forall a, m' a = if in_range d n a then v else m a).
Proof. exact memset_s_spec. Qed.
Print Assumptions C18_memset_s_exact.
Theorem C18_memzero_exact : forall c w d len destbos m, d <> 0 -> 1 <= len * w ->
  ((destbos = BOS_UNKNOWN /\ len * w <= rmax_mem c) \/ (destbos <> BOS_UNKNOWN /\ len * w <= destbos)) ->
  wp (memzerow_s c w d len destbos) m (fun r m' => r = EOK /\ forall a, m' a = if in_range d (len * w) a then 0 else m a).
Proof. exact memzerow_s_spec. Qed.
Print Assumptions C18_memzero_exact.

Theorem C18_protected_stores_survive : forall l, protected l = true -> forall drop, opt drop l = l.
Proof. exact protected_survives. Qed.
Print Assumptions C18_protected_stores_survive.

(* the erase functions of the working tree; strzero_s is the known finding strzero_s-unprotected-stores *)
Local Open Scope string_scope.
Definition shape_ok (e : string * list act) : bool :=
  protected (flatten prim_shapes (snd e)) || String.eqb (fst e) "strzero_s".
Theorem C18_shapes_protected : forallb shape_ok entry_shapes = true /\ List.length entry_shapes = 7%nat /\ List.length prim_shapes = 3%nat.
Proof. vm_compute. repeat split; reflexivity. Qed.
Print Assumptions C18_shapes_protected.
Theorem C18_strzero_s_unprotected_refuted :
  exists e, In e entry_shapes /\ fst e = "strzero_s" /\ protected (flatten prim_shapes (snd e)) = false.
Proof. exists ("strzero_s", [AStoreP]). vm_compute. repeat split; auto 10. Qed.
