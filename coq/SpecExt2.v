(* SpecExt2.v -- functional specifications (C06, C08) of strset_s and strnset_s: on success the first t characters of dest
   (t = the length of the string inside the window) hold the fill value and, with null-slack, everything from the terminator
   to dest+dmax is zero; nothing else changes. *)
From Coq Require Import List ZArith Lia Bool.
From SC Require Import Base Wp Cfg Comb CombProofs ModExt.
Import ListNotations.
Local Open Scope Z_scope.
Local Open Scope prog_scope.

Definition inb (lo hi a : Z) : bool := (lo <=? a) && (a <? hi).
Lemma inb_spec lo hi a : inb lo hi a = true <-> lo <= a < hi.
Proof. unfold inb. rewrite andb_true_iff, Z.leb_le, Z.ltb_lt. tauto. Qed.
Lemma inb_false lo hi a : inb lo hi a = false <-> ~ (lo <= a < hi).
Proof. rewrite <- inb_spec. destruct (inb lo hi a); split; congruence. Qed.

(* the fill loop: stops at the terminator or when the count is used up *)
Lemma set_str_loop_wp c v n (k : nat -> Z -> prog Z) (Q : Z -> mem -> Prop) : forall d m,
  (forall t m1, (t <= n)%nat ->
     (forall i, 0 <= i < Z.of_nat t -> m (d + i) <> 0) -> ((t < n)%nat -> m (d + Z.of_nat t) = 0) ->
     (forall a, m1 a = if inb d (d + Z.of_nat t) a then v mod 256 else m a) ->
     wp (k (n - t)%nat (d + Z.of_nat t)) m1 Q) ->
  wp (set_str_loop c v n d k) m Q.
Proof.
  induction n as [|n IH]; intros d m HK; cbn [set_str_loop].
  - assert (X := HK O m). cbn [Nat.sub Z.of_nat] in X. rewrite Z.add_0_r in X. apply X; try lia; try (intros; lia).
    intros a. replace (inb d d a) with false; [reflexivity|]. symmetry. apply inb_false. lia.
  - cbn [wp]. rewrite load1. destruct (m d =? 0) eqn:E.
    + apply Z.eqb_eq in E. assert (X := HK O m). cbn [Z.of_nat] in X. rewrite Z.add_0_r in X. rewrite Nat.sub_0_r in X. apply X; try lia; try (intros; lia); try (intros; exact E).
      intros a. replace (inb d d a) with false; [reflexivity|]. symmetry. apply inb_false. lia.
    + apply Z.eqb_neq in E. cbn [wp]. apply IH. intros t m1 Ht Hnz Hz Hm1.
      replace (d + 1 + Z.of_nat t) with (d + Z.of_nat (S t)) by (rewrite Nat2Z.inj_succ; lia).
      replace (n - t)%nat with (S n - S t)%nat by lia.
      apply HK; try lia.
      * intros i Hi. rewrite Nat2Z.inj_succ in Hi. destruct (Z.eq_dec i 0) as [->|Ni]; [rewrite Z.add_0_r; exact E|].
        specialize (Hnz (i - 1) ltac:(lia)). rewrite store_out in Hnz by lia. replace (d + 1 + (i - 1)) with (d + i) in Hnz by lia. exact Hnz.
      * intros Hl. specialize (Hz ltac:(lia)). rewrite store_out in Hz by lia. rewrite Nat2Z.inj_succ. replace (d + Z.succ (Z.of_nat t)) with (d + 1 + Z.of_nat t) by lia. exact Hz.
      * intros a. rewrite Hm1. rewrite Nat2Z.inj_succ. destruct (Z.eq_dec a d) as [->|Na].
        -- replace (inb (d + 1) (d + 1 + Z.of_nat t) d) with false by (symmetry; apply inb_false; lia).
           replace (inb d (d + Z.succ (Z.of_nat t)) d) with true by (symmetry; apply inb_spec; lia). apply store1_in.
        -- rewrite store_out by lia. replace (inb d (d + Z.succ (Z.of_nat t)) a) with (inb (d + 1) (d + 1 + Z.of_nat t) a); [reflexivity|].
           destruct (inb (d + 1) (d + 1 + Z.of_nat t) a) eqn:E1; symmetry; [apply inb_spec in E1; apply inb_spec; lia|apply inb_false in E1; apply inb_false; lia].
Qed.

(* what a successful fill leaves: t characters of value, then (null-slack, terminator inside the window) zeros to dest+dmax *)
Definition set_post (c : cfg) (d dmax lim v : Z) (m : mem) (r : Z) (m' : mem) : Prop :=
  r = EOK /\ exists t, 0 <= t <= lim /\
    (forall i, 0 <= i < t -> m (d + i) <> 0) /\ (t < lim -> m (d + t) = 0) /\
    forall a, m' a = if inb d (d + t) a then v mod 256
                     else if null_slack c && (t <? dmax) && (m (d + t) =? 0) && inb (d + t) (d + dmax) a then 0 else m a.

Lemma slack_if_nul_wp c rem p m (Q : Z -> mem -> Prop) :
  (forall m', (forall a, m' a = if null_slack c && (0 <? rem) && (m p =? 0) && inb p (p + rem) a then 0 else m a) -> Q EOK m') ->
  wp (slack_if_nul c rem p) m Q.
Proof.
  intros HQ. unfold slack_if_nul. destruct (null_slack c); cbn [andb]; [|cbn [wp]; apply HQ; reflexivity].
  destruct (0 <? rem) eqn:E; cbn [andb]; [|cbn [wp]; apply HQ; reflexivity].
  cbn [wp]. rewrite load1. destruct (m p =? 0); cbn [andb wp]; [|apply HQ; reflexivity].
  apply HQ. intros a. unfold fill, in_range, inb. rewrite Z.mod_0_l by lia. reflexivity.
Qed.

Theorem strset_s_spec c d dmax value m : d <> 0 -> 1 <= dmax <= rmax_str c -> 0 <= value <= 255 ->
  wp (strset_s c d dmax value BOS_UNKNOWN) m (set_post c d dmax dmax value m).
Proof.
  intros Hd Hm Hv. unfold strset_s, chk_dest_plain.
  replace (d =? 0) with false by (symmetry; apply Z.eqb_neq; lia).
  replace (dmax =? 0) with false by (symmetry; apply Z.eqb_neq; lia).
  rewrite Z.eqb_refl. replace (rmax_str c <? dmax) with false by (symmetry; apply Z.ltb_ge; lia).
  replace ((value <? 0) || (255 <? value)) with false by (symmetry; apply orb_false_iff; split; [apply Z.ltb_ge|apply Z.ltb_ge]; lia).
  apply set_str_loop_wp. intros t m1 Ht Hnz Hz Hm1.
  apply slack_if_nul_wp. intros m' Hm'. unfold set_post. split; [reflexivity|]. exists (Z.of_nat t).
  assert (Htn : Z.of_nat t <= dmax) by lia.
  split; [lia|]. split; [exact Hnz|]. split; [intros Hl; apply Hz; lia|].
  intros a. rewrite Hm', !Hm1. rewrite Nat2Z.inj_sub by lia. rewrite Z2Nat.id by lia.
    replace (inb d (d + Z.of_nat t) (d + Z.of_nat t)) with false by (symmetry; apply inb_false; lia).
    replace (d + Z.of_nat t + (dmax - Z.of_nat t)) with (d + dmax) by lia.
    replace (0 <? dmax - Z.of_nat t) with (Z.of_nat t <? dmax) by (destruct (Z.ltb_spec (Z.of_nat t) dmax), (Z.ltb_spec 0 (dmax - Z.of_nat t)); lia).
    destruct (inb d (d + Z.of_nat t) a) eqn:E1; [|reflexivity].
    apply inb_spec in E1. replace (inb (d + Z.of_nat t) (d + dmax) a) with false by (symmetry; apply inb_false; lia).
    rewrite !andb_false_r. reflexivity.
Qed.

Theorem strnset_s_spec c d dmax value n m : d <> 0 -> 1 <= dmax <= rmax_str c -> 0 <= value <= 255 -> 0 <= n <= dmax ->
  wp (strnset_s c d dmax value n BOS_UNKNOWN) m (set_post c d dmax n value m).
Proof.
  intros Hd Hm Hv Hn. unfold strnset_s, chk_dest_plain.
  replace (d =? 0) with false by (symmetry; apply Z.eqb_neq; lia).
  replace (dmax =? 0) with false by (symmetry; apply Z.eqb_neq; lia).
  rewrite Z.eqb_refl. replace (rmax_str c <? dmax) with false by (symmetry; apply Z.ltb_ge; lia).
  replace ((value <? 0) || (255 <? value)) with false by (symmetry; apply orb_false_iff; split; [apply Z.ltb_ge|apply Z.ltb_ge]; lia).
  replace (dmax <? n) with false by (symmetry; apply Z.ltb_ge; lia).
  apply set_str_loop_wp. intros t m1 Ht Hnz Hz Hm1.
  apply slack_if_nul_wp. intros m' Hm'. unfold set_post. split; [reflexivity|]. exists (Z.of_nat t).
  assert (Htn : Z.of_nat t <= n) by lia.
  split; [lia|]. split; [exact Hnz|]. split; [intros Hl; apply Hz; lia|].
  intros a. rewrite Hm', !Hm1.
    replace (d + Z.of_nat t - d) with (Z.of_nat t) by lia.
    replace (inb d (d + Z.of_nat t) (d + Z.of_nat t)) with false by (symmetry; apply inb_false; lia).
    replace (d + Z.of_nat t + (dmax - Z.of_nat t)) with (d + dmax) by lia.
    replace (0 <? dmax - Z.of_nat t) with (Z.of_nat t <? dmax) by (destruct (Z.ltb_spec (Z.of_nat t) dmax), (Z.ltb_spec 0 (dmax - Z.of_nat t)); lia).
    destruct (inb d (d + Z.of_nat t) a) eqn:E1; [|reflexivity].
    apply inb_spec in E1. replace (inb (d + Z.of_nat t) (d + dmax) a) with false by (symmetry; apply inb_false; lia).
    rewrite !andb_false_r. reflexivity.
Qed.
