(* ModEnv.v -- getenv_s (src/os/getenv_s.c).  libc getenv is an oracle: the model is given the address of the
   value string (0 = the variable is not set). *)
From Coq Require Import List ZArith Lia Bool.
From SC Require Import Base Cfg Comb ModStr.
Import ListNotations.
Local Open Scope Z_scope.
Local Open Scope prog_scope.

(* _getenv_s_chk(len, dest, dmax, name, destbos); value = what getenv(name) returns *)
Definition getenv_s (c : cfg) (lenp dest dmax name destbos value : Z) : prog Z :=
  let setlen (v : Z) (k : prog Z) : prog Z := if lenp =? 0 then k else Store 8 lenp v k in
  let checks (k : unit -> prog Z) : prog Z :=
    if negb (dest =? 0) then
      (if (if destbos =? BOS_UNKNOWN then rmax_str c <? dmax else destbos <? dmax)
       then setlen 0 (Handler HStr ESLEMAX (Ret ESLEMAX)) else k tt)
    else (if negb (dmax =? 0) then setlen 0 (Handler HStr ESNULLP (Ret ESNULLP)) else k tt) in
  checks (fun _ =>
    if name =? 0 then
      setlen 0 ((if negb (dest =? 0) then handle_error c 1 dest dmax ESNULLP else Handler HStr ESNULLP (Ret tt)) ;;; Ret ESNULLP)
    else if value =? 0 then
      (if negb (dest =? 0) then (if null_slack c then Fill dest dmax 0 (Ret tt) else Store 1 dest 0 (Ret tt)) else Ret tt) ;;;
      setlen 0 (Ret (-1))
    else
      len1 <- nlen_loop true 1 (Z.to_nat (rmax_str c + 2)) value 0 BOS_UNKNOWN ;;
      if negb (dmax =? 0) && (dmax <=? len1) then setlen 0 (handle_error c 1 dest dmax ESNOSPC ;;; Ret ESNOSPC)
      else setlen len1 (if (dest =? 0) || (dmax =? 0) then Ret EOK else (strcpy_s c dest dmax value BOS_UNKNOWN ;;; Ret EOK))).
