(* StaticsCheck.v -- C12(3): which objects in writable sections the library may own. *)
From Coq Require Import List String ZArith Bool Ascii.
Import ListNotations.
Local Open Scope string_scope.

Definition handler_vars : list string := ["str_handler"; "mem_handler"; "thrd_str_handler"; "thrd_mem_handler"].
(* read-only lookup tables that happen to live in .data (never written: checked by the segment snapshot) *)
Definition is_table (name : string) : bool :=
  prefix "UNWIF_" name || String.eqb name "errmsgs_s" || prefix "UNW16IF_" name.
Definition in_data (sec : string) : bool := String.eqb sec "d" || String.eqb sec "D".

Definition allowed_static (e : string * string * Z * string) : bool :=
  let '(file, name, size, sec) := e in
  existsb (String.eqb name) handler_vars || (in_data sec && is_table name).
Definition is_known (known : list (string * string)) (e : string * string * Z * string) : bool :=
  let '(file, name, size, sec) := e in existsb (fun k => String.eqb (fst k) file && String.eqb (snd k) name) known.
Definition inventory_ok (known : list (string * string)) (inv : list (string * string * Z * string)) : bool :=
  forallb (fun e => allowed_static e || is_known known e) inv.

(* what the boolean means *)
Lemma inventory_ok_spec known inv : inventory_ok known inv = true ->
  forall e, In e inv -> allowed_static e = true \/ is_known known e = true.
Proof. unfold inventory_ok. rewrite forallb_forall. intros H e He. apply orb_true_iff. apply H. exact He. Qed.
