(* ModSort.v -- C16: qsort_s.  A transcription of src/misc/qsort_s.c (musl's smoothsort:
   qsort_musl, sift, trinkle, cycle, shl/shr/pntz) at element granularity.

   What is transcribed literally: the order of comparator calls and their operands, the
   short-circuit evaluation, the ar[] path of sift/trinkle, the rotation performed by cycle
   (sequential assignments through a temporary), the control flow of both phases of
   qsort_musl including the lp[pshift-1] index and the (p, pshift) bookkeeping.
   What is abstracted: an element is a value of an arbitrary type A (the implementation moves
   width bytes in 256-byte chunks); head pointers are element indices; lp[i] is the i-th
   Leonardo number (the implementation scales by width); the two-word bit vector p is a list
   of booleans, least significant first (no 128-bit limit).  Every index the C code would
   dereference is checked: an index outside [0, n) makes the model answer None, so
   "the model never answers None" is the statement that qsort_s stays inside nmemb*size bytes.
   The model also returns the list of comparator calls (pairs of element indices, most recent
   first); the driver compares it with the calls the implementation really makes. *)
From Coq Require Import List ZArith Lia Bool.
Import ListNotations.
Local Open Scope Z_scope.

(* Leonardo numbers: lp[0] = lp[1] = 1, lp[i] = lp[i-2] + lp[i-1] + 1 *)
Fixpoint leop (k : nat) : Z * Z :=
  match k with O => (1, 1) | S k' => let '(a, b) := leop k' in (b, a + b + 1) end.
Definition leo (k : nat) : Z := fst (leop k).

(* the bit vector p, least significant bit first *)
Definition bits := list bool.
Definition bit0 (p : bits) : bool := match p with b :: _ => b | [] => false end.
Definition bit1 (p : bits) : bool := match p with _ :: b :: _ => b | _ => false end.
Definition is_one (p : bits) : bool := match p with true :: r => forallb negb r | _ => false end.
Definition set0 (p : bits) : bits := match p with [] => [true] | _ :: r => true :: r end.
Definition shl (p : bits) (n : nat) : bits := repeat false n ++ p.
Definition shr (p : bits) (n : nat) : bits := skipn n p.
Fixpoint first_set (p : bits) : option nat :=
  match p with [] => None | true :: _ => Some O | false :: r => option_map S (first_set r) end.
(* pntz: number of trailing zeros of p - 1 for an odd p other than 1; 0 for p = 1 *)
Definition pntz (p : bits) : nat :=
  match p with [] => O | _ :: r => match first_set r with Some k => S k | None => O end end.
(* p ^= 7 *)
Definition xor7 (p : bits) : bits :=
  match p with
  | a :: b :: c :: r => negb a :: negb b :: negb c :: r
  | [a; b] => [negb a; negb b; true]
  | [a] => [negb a; true; true]
  | [] => [true; true; true]
  end.

Section Sort.
  Variable A : Type.
  Variable cmp : A -> A -> Z.            (* the caller's comparator (context included) *)

  Definition trace := list (Z * Z).      (* comparator calls, most recent first *)

  Definition getz (l : list A) (i : Z) : option A :=
    if 0 <=? i then nth_error l (Z.to_nat i) else None.
  Fixpoint upd (l : list A) (i : nat) (a : A) : list A :=
    match l, i with
    | [], _ => []
    | _ :: r, O => a :: r
    | x :: r, S i' => x :: upd r i' a
    end.
  Definition setz (l : list A) (i : Z) (a : A) : option (list A) :=
    if (0 <=? i) && (i <? Z.of_nat (length l)) then Some (upd l (Z.to_nat i) a) else None.
  Definition cmp_at (l : list A) (i j : Z) : option Z :=
    match getz l i, getz l j with Some a, Some b => Some (cmp a b) | _, _ => None end.

  (* cycle(width, ar, n):  tmp = *ar[0]; *ar[0] = *ar[1]; ... ; *ar[n-1] = tmp *)
  Fixpoint cycle_go (l : list A) (ar : list Z) (tmp : A) : option (list A) :=
    match ar with
    | [] => Some l
    | i :: rest =>
        match rest with
        | [] => setz l i tmp
        | j :: _ =>
            match getz l j with
            | None => None
            | Some a => match setz l i a with None => None | Some l' => cycle_go l' rest tmp end
            end
        end
    end.
  Definition cycle (l : list A) (ar : list Z) : option (list A) :=
    match ar with
    | [] => Some l
    | i :: rest =>
        match rest with
        | [] => Some l                                   (* n < 2: return *)
        | _ => match getz l i with None => None | Some tmp => cycle_go l ar tmp end
        end
    end.

  (* the loop of sift(): returns ar[] (in order) and the trace; the array is not modified meanwhile *)
  Fixpoint sift_path (l : list A) (root head : Z) (pshift : nat) (acc : list Z) (tr : trace)
    : option (list Z * trace) :=
    match pshift with
    | S p1 =>
        match p1 with
        | S q =>
            let rt := head - 1 in
            let lf := head - 1 - leo q in
            match cmp_at l root lf with
            | None => None
            | Some c1 =>
                let tr1 := (root, lf) :: tr in
                match (if c1 >=? 0 then
                         match cmp_at l root rt with
                         | None => None
                         | Some c2 => Some (c2 >=? 0, (root, rt) :: tr1)
                         end
                       else Some (false, tr1)) with
                | None => None
                | Some (true, tr2) => Some (rev acc, tr2)                     (* break *)
                | Some (false, tr2) =>
                    match cmp_at l lf rt with
                    | None => None
                    | Some c3 =>
                        if c3 >=? 0 then sift_path l root lf p1 (lf :: acc) ((lf, rt) :: tr2)
                        else sift_path l root rt q (rt :: acc) ((lf, rt) :: tr2)
                    end
                end
            end
        | O => Some (rev acc, tr)
        end
    | O => Some (rev acc, tr)
    end.
  Definition sift (l : list A) (head : Z) (pshift : nat) (tr : trace) : option (list A * trace) :=
    match sift_path l head head pshift [head] tr with
    | None => None
    | Some (ar, tr') => match cycle l ar with None => None | Some l' => Some (l', tr') end
    end.

  (* the loop of trinkle(): returns ar[], the final head, pshift and trusty, and the trace.
     fuel: the number of words of p still to be shifted out (length p suffices) *)
  Fixpoint trinkle_path (fuel : nat) (l : list A) (root head : Z) (p : bits) (pshift : nat) (trusty : bool)
           (acc : list Z) (tr : trace) : option (list Z * Z * nat * bool * trace) :=
    if is_one p then Some (rev acc, head, pshift, trusty, tr)
    else match fuel with
    | O => None
    | S f =>
        let stepson := head - leo pshift in
        match cmp_at l stepson root with
        | None => None
        | Some c1 =>
            let tr1 := (stepson, root) :: tr in
            if c1 <=? 0 then Some (rev acc, head, pshift, trusty, tr1)
            else
              match (if negb trusty && (1 <? Z.of_nat pshift) then
                       let rt := head - 1 in
                       let lf := head - 1 - leo (pshift - 2) in
                       match cmp_at l rt stepson with
                       | None => None
                       | Some c2 =>
                           let tr2 := (rt, stepson) :: tr1 in
                           if c2 >=? 0 then Some (true, tr2)
                           else match cmp_at l lf stepson with
                                | None => None
                                | Some c3 => Some (c3 >=? 0, (lf, stepson) :: tr2)
                                end
                       end
                     else Some (false, tr1)) with
              | None => None
              | Some (true, tr3) => Some (rev acc, head, pshift, trusty, tr3)     (* break *)
              | Some (false, tr3) =>
                  let trail := pntz p in
                  trinkle_path f l root stepson (shr p trail) (pshift + trail) false (stepson :: acc) tr3
              end
        end
    end.
  Definition trinkle (l : list A) (head : Z) (p : bits) (pshift : nat) (trusty : bool) (tr : trace)
    : option (list A * trace) :=
    match trinkle_path (S (length p)) l head head p pshift trusty [head] tr with
    | None => None
    | Some (ar, head', pshift', trusty', tr') =>
        if trusty' then Some (l, tr')
        else match cycle l ar with
             | None => None
             | Some l' => sift l' head' pshift' tr'
             end
    end.

  (* first loop of qsort_musl: while (head < high) *)
  Fixpoint build (fuel : nat) (l : list A) (high head : Z) (p : bits) (pshift : nat) (tr : trace)
    : option (list A * Z * bits * nat * trace) :=
    if head <? high then
      match fuel with
      | O => None
      | S f =>
          match (if bit0 p && bit1 p then
                   match sift l head pshift tr with
                   | None => None
                   | Some (l', tr') => Some (l', tr', shr p 2, (pshift + 2)%nat)
                   end
                 else
                   match pshift with
                   | O => None                                   (* lp[pshift - 1] with pshift = 0 *)
                   | S q =>
                       match (if leo q >=? high - head then trinkle l head p pshift false tr
                              else sift l head pshift tr) with
                       | None => None
                       | Some (l', tr') =>
                           match q with
                           | O => Some (l', tr', shl p 1, O)                  (* pshift == 1 *)
                           | S _ => Some (l', tr', shl p q, 1%nat)            (* shl(p, pshift - 1) *)
                           end
                       end
                   end) with
          | None => None
          | Some (l', tr', p', pshift') => build f l' high (head + 1) (set0 p') pshift' tr'
          end
      end
    else Some (l, head, p, pshift, tr).

  (* second loop: while (pshift != 1 || p != 1) *)
  Fixpoint dismantle (fuel : nat) (l : list A) (head : Z) (p : bits) (pshift : nat) (tr : trace)
    : option (list A * trace) :=
    if Nat.eqb pshift 1 && is_one p then Some (l, tr)
    else match fuel with
    | O => None
    | S f =>
        match pshift with
        | S (S q) =>
            (* shl(p, 2); pshift -= 2; p ^= 7; shr(p, 1) *)
            let p1 := shr (xor7 (shl p 2)) 1 in
            match trinkle l (head - leo q - 1) p1 (S q) true tr with
            | None => None
            | Some (l1, tr1) =>
                let p2 := set0 (shl p1 1) in
                match trinkle l1 (head - 1) p2 q true tr1 with
                | None => None
                | Some (l2, tr2) => dismantle f l2 (head - 1) p2 q tr2
                end
            end
        | _ =>
            let trail := pntz p in
            dismantle f l (head - 1) (shr p trail) (pshift + trail) tr
        end
    end.

  (* qsort_musl(base, nel, width, cmp, ctx) *)
  Definition smoothsort (l : list A) : option (list A * trace) :=
    match l with
    | [] => Some (l, [])
    | _ =>
        let n := Z.of_nat (length l) in
        match build (length l) l (n - 1) 0 [true] 1 [] with
        | None => None
        | Some (l1, head, p, pshift, tr1) =>
            match trinkle l1 head p pshift false tr1 with
            | None => None
            | Some (l2, tr2) => dismantle (S (length l)) l2 head p pshift tr2
            end
        end
    end.
End Sort.

(* the instance the drivers run: keys with their original position, compared on the key *)
Definition keycmp (a b : Z * Z) : Z := match Z.compare (fst a) (fst b) with Lt => -1 | Eq => 0 | Gt => 1 end.
Definition smoothsort_keys (l : list (Z * Z)) : option (list (Z * Z) * list (Z * Z)) :=
  smoothsort (Z * Z) keycmp l.
