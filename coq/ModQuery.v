(* ModQuery.v -- C10: hand models of read-only query functions (src/extstr, src/extmem, src/extwchar, src/wchar).
   Each model follows the C text statement by statement (order of the checks, order of the loads in the loop
   conditions, what is stored through the result pointer).  libc calls (strchr, memchr, memrchr, toupper) are
   MODELLED: byte scans with the C semantics, toupper of the C locale. *)
From Coq Require Import List ZArith Lia Bool.
From SC Require Import Base Cfg Comb.
Import ListNotations.
Local Open Scope Z_scope.
Local Open Scope prog_scope.

Definition sx8 (a : Z) : Z := if a <? 128 then a else a - 256.          (* plain char is signed on this target *)
Definition sx32 (a : Z) : Z := if a <? 2147483648 then a else a - 4294967296.
Definition i32 (v : Z) : Z := v mod 4294967296.
Definition u64 (v : Z) : Z := v mod 18446744073709551616.
Definition hfail (hk : hkind) (code : Z) : prog Z := Handler hk code (Ret code).
(* "if (destbos == BOS_UNKNOWN) { CHK_DMAX_MAX } else { CHK_DEST_OVR }" of the non-clearing kind *)
Definition chk_max_ovr (hk : hkind) (rmax dmax destbos : Z) (k : unit -> prog Z) : prog Z :=
  if destbos =? BOS_UNKNOWN then (if rmax <? dmax then hfail hk ESLEMAX else k tt)
  else if destbos <? dmax then (if rmax <? dmax then hfail hk ESLEMAX else hfail hk EOVERFLOW)
  else k tt.

(* ---------- strcmp_s(dest, dmax, src, resultp, destbos, srcbos) ---------- *)
Fixpoint strcmp_loop (n : nat) (d s slen srcbos : Z) (k : Z -> Z -> prog Z) : prog Z :=
  Load 1 d (fun a => if a =? 0 then k d s else
  Load 1 s (fun b => if b =? 0 then k d s else
  match n with
  | O => k d s
  | S n' => if negb (a =? b) then k d s
            else if srcbos <=? slen + 1 then hfail HStr ESUNTERM
            else strcmp_loop n' (d + 1) (s + 1) (slen + 1) srcbos k
  end)).
Definition strcmp_s (c : cfg) (dest dmax src resultp destbos srcbos : Z) : prog Z :=
  if resultp =? 0 then hfail HStr ESNULLP
  else Store 4 resultp 0 (
    if dest =? 0 then hfail HStr ESNULLP
    else if src =? 0 then hfail HStr ESNULLP
    else if dmax =? 0 then hfail HStr ESZEROL
    else chk_max_ovr HStr (rmax_str c) dmax destbos (fun _ =>
      strcmp_loop (Z.to_nat dmax) dest src 0 srcbos (fun d s =>
        Load 1 d (fun a => Load 1 s (fun b => Store 4 resultp (i32 (sx8 a - sx8 b)) (Ret EOK)))))).

(* ---------- strcasecmp_s(dest, dmax, src, resultp, destbos) ---------- *)
Definition toupper (a : Z) : Z := if (97 <=? a) && (a <=? 122) then a - 32 else a.
Fixpoint strcasecmp_loop (n : nat) (d s resultp : Z) : prog Z :=
  Load 1 d (fun a =>
    let fin := Load 1 d (fun a' => Load 1 s (fun b' => Store 4 resultp (i32 (toupper a' - toupper b')) (Ret EOK))) in
    if a =? 0 then fin else
    Load 1 s (fun b => if b =? 0 then fin else
    match n with
    | O => fin
    | S n' => if negb (toupper a =? toupper b) then Store 4 resultp (i32 (toupper a - toupper b)) (Ret EOK)
              else strcasecmp_loop n' (d + 1) (s + 1) resultp
    end)).
Definition strcasecmp_s (c : cfg) (dest dmax src resultp destbos : Z) : prog Z :=
  if resultp =? 0 then hfail HStr ESNULLP
  else if dest =? 0 then hfail HStr ESNULLP
  else if src =? 0 then hfail HStr ESNULLP
  else if dmax =? 0 then hfail HStr ESZEROL
  else chk_max_ovr HStr (rmax_str c) dmax destbos (fun _ => strcasecmp_loop (Z.to_nat dmax) dest src resultp).

(* ---------- memcmp_s(dest, dmax, src, slen, diff, destbos, srcbos) ---------- *)
Fixpoint memcmp_loop (n : nat) (d s diff : Z) : prog Z :=
  match n with
  | O => Ret EOK
  | S n' => Load 1 d (fun a => Load 1 s (fun b =>
      if negb (a =? b) then Store 4 diff (i32 (if a <? b then -1 else 1)) (Ret EOK)
      else memcmp_loop n' (d + 1) (s + 1) diff))
  end.
Definition memcmp_s (c : cfg) (dest dmax src slen diff destbos srcbos : Z) : prog Z :=
  if diff =? 0 then hfail HMem ESNULLP
  else Store 4 diff (i32 (-1)) (
    if dest =? 0 then hfail HMem ESNULLP
    else if src =? 0 then hfail HMem ESNULLP
    else if dmax =? 0 then hfail HMem ESZEROL
    else chk_max_ovr HMem (rmax_mem c) dmax destbos (fun _ =>
      if slen =? 0 then hfail HMem ESZEROL
      else chk_max_ovr HMem (rmax_mem c) slen srcbos (fun _ =>
        if dmax <? slen then hfail HMem ESNOSPC
        else if dest =? src then Store 4 diff 0 (Ret EOK)
        else Store 4 diff 0 (memcmp_loop (Z.to_nat (Z.min dmax slen)) dest src diff)))).

(* ---------- libc scans ---------- *)
(* strchr(s, ch): first index with s[i] = (char)ch, or the terminator when ch = 0; NULL when the terminator comes first *)
Fixpoint strchr_m (fuel : nat) (p ch : Z) (k : Z -> prog Z) : prog Z :=
  match fuel with
  | O => k 0
  | S f => Load 1 p (fun a => if a =? ch mod 256 then k p else if a =? 0 then k 0 else strchr_m f (p + 1) ch k)
  end.
Fixpoint memchr_m (n : nat) (p ch : Z) (k : Z -> prog Z) : prog Z :=
  match n with
  | O => k 0
  | S n' => Load 1 p (fun a => if a =? ch mod 256 then k p else memchr_m n' (p + 1) ch k)
  end.
(* memrchr: from the last byte down *)
Fixpoint memrchr_m (n : nat) (p ch : Z) (k : Z -> prog Z) : prog Z :=
  match n with
  | O => k 0
  | S n' => Load 1 (p + Z.of_nat n') (fun a => if a =? ch mod 256 then k (p + Z.of_nat n') else memrchr_m n' p ch k)
  end.

(* ---------- strchr_s(dest, dmax, ch, resultp, destbos); ch is an int ---------- *)
Definition strchr_s (c : cfg) (dest dmax ch resultp destbos : Z) : prog Z :=
  if resultp =? 0 then hfail HStr ESNULLP
  else Store 8 resultp 0 (
    if dest =? 0 then hfail HStr ESNULLP
    else if dmax =? 0 then hfail HStr ESZEROL
    else chk_max_ovr HStr (rmax_str c) dmax destbos (fun _ =>
      if 255 <? sx32 (ch mod 4294967296) then hfail HStr ESLEMAX
      else strchr_m (Z.to_nat (rmax_str c + 2)) dest ch (fun r =>
        Store 8 resultp r (
          if r =? 0 then Ret ESNOTFND
          else if dmax <? r - dest then Store 8 resultp 0 (Ret ESNOTFND)
          else Ret EOK)))).

(* ---------- memchr_s / memrchr_s (dest, dmax, ch, resultp, destbos) ---------- *)
Definition memchr_s (c : cfg) (dest dmax ch resultp destbos : Z) : prog Z :=
  if resultp =? 0 then hfail HMem ESNULLP
  else Store 8 resultp 0 (
    if dest =? 0 then hfail HMem ESNULLP
    else if dmax =? 0 then hfail HMem ESZEROL
    else chk_max_ovr HMem (rmax_mem c) dmax destbos (fun _ =>
      if 255 <? sx32 (ch mod 4294967296) then hfail HMem ESLEMAX
      else memchr_m (Z.to_nat dmax) dest ch (fun r => Store 8 resultp r (if r =? 0 then Ret ESNOTFND else Ret EOK)))).
Definition memrchr_core (c : cfg) (dest dmax ch resultp destbos : Z) : prog Z :=
  if resultp =? 0 then hfail HMem ESNULLP
  else Store 8 resultp 0 (
    if dest =? 0 then hfail HMem ESNULLP
    else if dmax =? 0 then hfail HMem ESZEROL
    else chk_max_ovr HMem (rmax_mem c) dmax destbos (fun _ =>
      if 255 <? sx32 (ch mod 4294967296) then hfail HMem ESLEMAX
      else memrchr_m (Z.to_nat dmax) dest ch (fun r => Store 8 resultp r (if r =? 0 then Ret ESNOTFND else Ret EOK)))).
Definition memrchr_s := memrchr_core.

(* ---------- strrchr_s(dest, dmax, ch, resultp, destbos): strnlen_s then memrchr_s (the public macro: bos of the object = unknown here) ---------- *)
Definition strrchr_s (c : cfg) (dest dmax ch resultp destbos : Z) : prog Z :=
  if resultp =? 0 then hfail HStr ESNULLP
  else Store 8 resultp 0 (
    if dest =? 0 then hfail HStr ESNULLP
    else if dmax =? 0 then hfail HStr ESZEROL
    else chk_max_ovr HStr (rmax_str c) dmax destbos (fun _ =>
      if 255 <? sx32 (ch mod 4294967296) then hfail HStr ESLEMAX
      else
        len <- strnlen_s_prog c dest dmax BOS_UNKNOWN ;;
        if len =? 0 then Ret ESZEROL
        else memrchr_core c dest (if dmax =? len then dmax else len + 1) ch resultp BOS_UNKNOWN)).

(* ---------- strspn_s / strcspn_s / strpbrk_s (dest, dmax, src, slen, countp|firstp, destbos, srcbos) ---------- *)
(* inner scan "while (*scan2 && smax)": is a among the first slen characters of src (before its terminator) *)
Fixpoint in_set (n : nat) (s a : Z) (k : bool -> prog Z) : prog Z :=
  Load 1 s (fun b => if b =? 0 then k false else
  match n with
  | O => k false
  | S n' => if a =? b then k true else in_set n' (s + 1) a k
  end).
Fixpoint span_loop (inc : bool) (n : nat) (d src : Z) (slen : nat) (countp cnt : Z) : prog Z :=
  Load 1 d (fun a => if a =? 0 then Ret EOK else
  match n with
  | O => Ret EOK
  | S n' => in_set slen src a (fun found =>
      if Bool.eqb found inc then Store 8 countp (cnt + 1) (span_loop inc n' (d + 1) src slen countp (cnt + 1))
      else Ret EOK)
  end).
Definition strspn_s (c : cfg) (dest dmax src slen countp destbos srcbos : Z) : prog Z :=
  if countp =? 0 then hfail HStr ESNULLP
  else Store 8 countp 0 (
    if dest =? 0 then hfail HStr ESNULLP
    else if src =? 0 then hfail HStr ESNULLP
    else if dmax =? 0 then hfail HStr ESZEROL
    else chk_max_ovr HStr (rmax_str c) dmax destbos (fun _ =>
      chk_max_ovr HStr (rmax_str c) slen srcbos (fun _ =>
        if slen =? 0 then hfail HStr ESZEROL
        else span_loop true (Z.to_nat dmax) dest src (Z.to_nat slen) countp 0))).
Definition strcspn_s (c : cfg) (dest dmax src slen countp destbos srcbos : Z) : prog Z :=
  if countp =? 0 then hfail HStr ESNULLP
  else Store 8 countp 0 (
    if dest =? 0 then hfail HStr ESNULLP
    else if src =? 0 then hfail HStr ESNULLP
    else if dmax =? 0 then hfail HStr ESZEROL
    else chk_max_ovr HStr (rmax_str c) dmax destbos (fun _ =>
      if slen =? 0 then hfail HStr ESZEROL
      else if rmax_str c <? slen then hfail HStr ESLEMAX
      else if negb (srcbos =? BOS_UNKNOWN) && (srcbos <? slen) then hfail HMem EOVERFLOW
      else span_loop false (Z.to_nat dmax) dest src (Z.to_nat slen) countp 0)).
(* strpbrk_s: "while (*ps) { if match; if (!len) return ESNOTFND; ps++; len--; }" *)
Fixpoint pbrk_inner (fuel : nat) (ps a : Z) (len : Z) (k : option bool -> prog Z) : prog Z :=
  match fuel with
  | O => k (Some false)
  | S f => Load 1 ps (fun b => if b =? 0 then k (Some false)
            else if a =? b then k (Some true)
            else if len =? 0 then k None
            else pbrk_inner f (ps + 1) a (len - 1) k)
  end.
Fixpoint pbrk_loop (n : nat) (d src slen firstp : Z) (fuel : nat) : prog Z :=
  Load 1 d (fun a => if a =? 0 then Ret ESNOTFND else
  match n with
  | O => Ret ESNOTFND
  | S n' => pbrk_inner fuel src a slen (fun r =>
      match r with
      | Some true => Store 8 firstp d (Ret EOK)
      | None => Ret ESNOTFND
      | Some false => pbrk_loop n' (d + 1) src slen firstp fuel
      end)
  end).
Definition strpbrk_s (c : cfg) (dest dmax src slen firstp destbos srcbos : Z) : prog Z :=
  if firstp =? 0 then hfail HStr ESNULLP
  else Store 8 firstp 0 (
    if dest =? 0 then hfail HStr ESNULLP
    else if src =? 0 then hfail HStr ESNULLP
    else if dmax =? 0 then hfail HStr ESZEROL
    else chk_max_ovr HStr (rmax_str c) dmax destbos (fun _ =>
      (if srcbos =? BOS_UNKNOWN then (fun k => if rmax_str c <? slen then hfail HStr ESLEMAX else k tt)
       else (fun k => if srcbos <? slen then bos_overflow c dest destbos else k tt))
      (fun _ =>
        if slen =? 0 then hfail HStr ESZEROL
        else pbrk_loop (Z.to_nat dmax) dest src slen firstp (Z.to_nat (slen + 2))))).

(* ---------- strprefix_s(dest, dmax, src, destbos) ---------- *)
Fixpoint prefix_loop (n : nat) (d s : Z) : prog Z :=
  Load 1 s (fun b => if b =? 0 then Ret EOK else
  match n with
  | O => Ret EOK
  | S n' => Load 1 d (fun a => if negb (a =? b) then Ret ESNOTFND else prefix_loop n' (d + 1) (s + 1))
  end).
Definition strprefix_s (c : cfg) (dest dmax src destbos : Z) : prog Z :=
  if dest =? 0 then hfail HStr ESNULLP
  else if src =? 0 then hfail HStr ESNULLP
  else if dmax =? 0 then hfail HStr ESZEROL
  else chk_max_ovr HStr (rmax_str c) dmax destbos (fun _ =>
    Load 1 src (fun b0 => if b0 =? 0 then Ret ESNOTFND else prefix_loop (Z.to_nat dmax) dest src)).

(* ---------- strfirstdiff_s / strfirstsame_s (dest, dmax, src, resultp, destbos) ---------- *)
Fixpoint first_loop (same : bool) (n : nat) (d s i resultp : Z) : prog Z :=
  Load 1 d (fun a => if a =? 0 then Ret (if same then ESNOTFND else ESNODIFF) else
  Load 1 s (fun b => if b =? 0 then Ret (if same then ESNOTFND else ESNODIFF) else
  match n with
  | O => Ret (if same then ESNOTFND else ESNODIFF)
  | S n' => if Bool.eqb (a =? b) same then Store 8 resultp i (Ret EOK)
            else first_loop same n' (d + 1) (s + 1) (i + 1) resultp
  end)).
Definition strfirst_s (same : bool) (c : cfg) (dest dmax src resultp destbos : Z) : prog Z :=
  if resultp =? 0 then hfail HStr ESNULLP
  else Store 8 resultp 0 (
    if dest =? 0 then hfail HStr ESNULLP
    else if src =? 0 then hfail HStr ESNULLP
    else if dmax =? 0 then hfail HStr ESZEROL
    else chk_max_ovr HStr (rmax_str c) dmax destbos (fun _ => first_loop same (Z.to_nat dmax) dest src 0 resultp)).
Definition strfirstdiff_s := strfirst_s false.
Definition strfirstsame_s := strfirst_s true.

(* ---------- wcsnlen_s(str, smax, strbos): the loop tests smax before it dereferences ---------- *)
Fixpoint wnlen_loop (w : Z) (n : nat) (p cnt orig : Z) : prog Z :=
  match n with
  | O => Ret orig
  | S n' => Load w p (fun a => if a =? 0 then Ret cnt else wnlen_loop w n' (p + w) (cnt + 1) orig)
  end.
Definition wcsnlen_s (c : cfg) (str smax strbos : Z) : prog Z :=
  if str =? 0 then Ret 0
  else if smax =? 0 then Handler HStr ESZEROL (Ret 0)
  else if rmax_wstr c <? smax then Handler HStr ESLEMAX (Ret 0)
  else wnlen_loop (wchar_w c) (Z.to_nat smax) str 0 smax.
