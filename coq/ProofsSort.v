(* ProofsSort.v -- C16, qsort_s: theorems about the smoothsort model of ModSort.v.
   1. every run that completes leaves a permutation of the input (no element lost, duplicated or altered),
      for every comparator whatsoever;
   2. the model never answers None: every element index it dereferences (comparator operands,
      rotation slots) lies inside [0, n), for every input, every comparator -- i.e. no access
      outside nmemb*size bytes; the Leonardo-forest bookkeeping (p, pshift) is the invariant. *)
From Coq Require Import List ZArith Lia Bool Permutation.
From SC Require Import ModSort.
Import ListNotations.
Local Open Scope Z_scope.

(* ---------- Leonardo numbers ---------- *)
Lemma leop_S k : leop (S k) = (snd (leop k), fst (leop k) + snd (leop k) + 1).
Proof. cbn [leop]. destruct (leop k); reflexivity. Qed.
Lemma leo_snd k : snd (leop k) = leo (S k).
Proof. unfold leo. rewrite leop_S. reflexivity. Qed.
Lemma leo_0 : leo 0 = 1. Proof. reflexivity. Qed.
Lemma leo_1 : leo 1 = 1. Proof. reflexivity. Qed.
Lemma leo_SS k : leo (S (S k)) = leo (S k) + leo k + 1.
Proof. unfold leo at 1. rewrite leop_S. cbn [fst]. rewrite leop_S. cbn [snd]. rewrite leo_snd. fold (leo k). lia. Qed.
Lemma leo_pos k : 1 <= leo k.
Proof.
  assert (H : 1 <= leo k /\ 1 <= leo (S k)).
  { induction k as [|k [IH1 IH2]]; [rewrite leo_0, leo_1; lia|]. split; [exact IH2|rewrite leo_SS; lia]. }
  apply H.
Qed.
Lemma leo_ge3 k : 3 <= leo (S (S k)).
Proof. rewrite leo_SS. pose proof (leo_pos k). pose proof (leo_pos (S k)). lia. Qed.

Section SortProofs.
  Variable A : Type.
  Variable cmp : A -> A -> Z.
  Notation getz := (getz A). Notation setz := (setz A). Notation upd := (upd A).
  Notation cycle := (cycle A). Notation cycle_go := (cycle_go A).

  (* ---------- upd / getz / setz ---------- *)
  Lemma upd_length l i a : length (upd l i a) = length l.
  Proof. revert i; induction l as [|x l IH]; intros [|i]; cbn; auto. Qed.
  Lemma upd_perm l i a v : nth_error l i = Some v -> Permutation (v :: upd l i a) (a :: l).
  Proof.
    revert i; induction l as [|x l IH]; intros [|i] H; cbn in *; try discriminate.
    - inversion H; subst. apply perm_swap || reflexivity.
    - etransitivity; [apply perm_swap|]. etransitivity; [apply perm_skip, (IH i H)|]. apply perm_swap.
  Qed.
  Lemma nth_error_upd_same l i a : (i < length l)%nat -> nth_error (upd l i a) i = Some a.
  Proof. revert i; induction l as [|x l IH]; intros [|i] H; cbn in *; try lia; auto. apply IH; lia. Qed.
  Lemma nth_error_upd_other l i j a : i <> j -> nth_error (upd l i a) j = nth_error l j.
  Proof. revert i j; induction l as [|x l IH]; intros [|i] [|j] H; cbn; auto; try congruence. Qed.

  Lemma getz_some l i v : getz l i = Some v -> 0 <= i < Z.of_nat (length l) /\ nth_error l (Z.to_nat i) = Some v.
  Proof.
    unfold ModSort.getz. destruct (0 <=? i) eqn:E; [|discriminate]. apply Z.leb_le in E. intros H. split; [|exact H].
    assert (Z.to_nat i < length l)%nat by (apply nth_error_Some; congruence). lia.
  Qed.
  Lemma getz_in l i : 0 <= i < Z.of_nat (length l) -> exists v, getz l i = Some v.
  Proof.
    intros H. unfold ModSort.getz. replace (0 <=? i) with true by (symmetry; apply Z.leb_le; lia).
    destruct (nth_error l (Z.to_nat i)) eqn:E; [eauto|]. apply nth_error_None in E. lia.
  Qed.
  Lemma setz_some l i a l' : setz l i a = Some l' -> 0 <= i < Z.of_nat (length l) /\ l' = upd l (Z.to_nat i) a.
  Proof.
    unfold ModSort.setz. destruct ((0 <=? i) && (i <? Z.of_nat (length l))) eqn:E; [|discriminate].
    apply andb_true_iff in E. destruct E as [E1 E2]. apply Z.leb_le in E1. apply Z.ltb_lt in E2. intros H; inversion H. split; [lia|reflexivity].
  Qed.
  Lemma setz_in l i a : 0 <= i < Z.of_nat (length l) -> setz l i a = Some (upd l (Z.to_nat i) a).
  Proof.
    intros H. unfold ModSort.setz. replace (0 <=? i) with true by (symmetry; apply Z.leb_le; lia).
    replace (i <? Z.of_nat (length l)) with true by (symmetry; apply Z.ltb_lt; lia). reflexivity.
  Qed.

  (* ---------- cycle: a permutation, whatever the slots (duplicates included) ---------- *)
  Lemma cycle_go_perm ar : forall l tmp i rest l' v, ar = i :: rest ->
    cycle_go l ar tmp = Some l' -> getz l i = Some v -> Permutation (v :: l') (tmp :: l) /\ length l' = length l.
  Proof.
    induction ar as [|i0 ar IH]; intros l tmp i rest l' v Heq Hc Hv; [discriminate|]. inversion Heq; subst i0 ar. clear Heq.
    cbn [ModSort.cycle_go] in Hc. destruct rest as [|j r].
    - apply setz_some in Hc. destruct Hc as [Hi ->]. apply getz_some in Hv. destruct Hv as [_ Hv].
      split; [apply upd_perm; exact Hv|apply upd_length].
    - destruct (getz l j) as [a|] eqn:Hj; [|discriminate]. destruct (setz l i a) as [l1|] eqn:Hs; [|discriminate].
      apply setz_some in Hs. destruct Hs as [Hi ->].
      pose proof (getz_some _ _ _ Hv) as [_ Hv']. pose proof (getz_some _ _ _ Hj) as [Hjr Hj'].
      assert (Hj1 : getz (upd l (Z.to_nat i) a) j = Some a).
      { unfold ModSort.getz. replace (0 <=? j) with true by (symmetry; apply Z.leb_le; lia).
        destruct (Nat.eq_dec (Z.to_nat i) (Z.to_nat j)) as [E|E].
        - rewrite <- E. apply nth_error_upd_same. lia.
        - rewrite nth_error_upd_other by exact E. exact Hj'. }
      destruct (IH _ _ j r l' a eq_refl Hc Hj1) as [P L]. split.
      + pose proof (upd_perm l (Z.to_nat i) a v Hv') as P2.
        apply Permutation_cons_inv with (a := a).
        etransitivity; [apply perm_swap|]. etransitivity; [apply perm_skip, P|].
        etransitivity; [apply perm_swap|]. etransitivity; [apply perm_skip, P2|]. apply perm_swap.
      + rewrite L. apply upd_length.
  Qed.
  Lemma cycle_perm l ar l' : cycle l ar = Some l' -> Permutation l l' /\ length l' = length l.
  Proof.
    unfold ModSort.cycle. destruct ar as [|i rest]; [intros H; inversion H; auto|].
    destruct rest as [|j r]; [intros H; inversion H; auto|].
    destruct (getz l i) as [tmp|] eqn:Hi; [|discriminate]. intros H.
    destruct (cycle_go_perm _ l tmp i (j :: r) l' tmp eq_refl H Hi) as [P L]. split; [|exact L].
    symmetry. eapply Permutation_cons_inv. exact P.
  Qed.
  (* cycle succeeds when every slot is inside the array *)
  Lemma cycle_go_ok ar : forall l tmp, Forall (fun i => 0 <= i < Z.of_nat (length l)) ar -> cycle_go l ar tmp <> None.
  Proof.
    induction ar as [|i rest IH]; intros l tmp H; cbn [ModSort.cycle_go]; [discriminate|].
    inversion H as [|? ? Hi Hr]; subst. destruct rest as [|j r].
    - rewrite setz_in by exact Hi. discriminate.
    - inversion Hr as [|? ? Hj _]; subst. destruct (getz_in l j Hj) as [a ->]. rewrite setz_in by exact Hi.
      apply IH. rewrite upd_length. exact Hr.
  Qed.
  Lemma cycle_ok l ar : Forall (fun i => 0 <= i < Z.of_nat (length l)) ar -> cycle l ar <> None.
  Proof.
    intros H. unfold ModSort.cycle. destruct ar as [|i rest]; [discriminate|]. destruct rest as [|j r]; [discriminate|].
    inversion H as [|? ? Hi _]; subst. destruct (getz_in l i Hi) as [a ->]. apply cycle_go_ok. exact H.
  Qed.

  (* ---------- permutation through sift, trinkle, build, dismantle ---------- *)
  Definition PL (l l' : list A) : Prop := Permutation l l' /\ length l' = length l.
  Lemma PL_refl l : PL l l. Proof. split; auto. Qed.
  Lemma PL_trans l1 l2 l3 : PL l1 l2 -> PL l2 l3 -> PL l1 l3.
  Proof. intros [P1 L1] [P2 L2]. split; [etransitivity; eauto|congruence]. Qed.

  Lemma sift_PL l head pshift tr l' tr' : sift A cmp l head pshift tr = Some (l', tr') -> PL l l'.
  Proof.
    unfold sift. destruct (sift_path A cmp l head head pshift [head] tr) as [[ar t]|]; [|discriminate].
    destruct (cycle l ar) as [l1|] eqn:E; [|discriminate]. intros H; inversion H; subst. apply cycle_perm in E. exact E.
  Qed.
  Lemma trinkle_PL l head p pshift trusty tr l' tr' : trinkle A cmp l head p pshift trusty tr = Some (l', tr') -> PL l l'.
  Proof.
    unfold trinkle. destruct (trinkle_path A cmp (S (length p)) l head head p pshift trusty [head] tr) as [[[[[ar h'] ps'] t'] tr1]|]; [|discriminate].
    destruct t'; [intros H; inversion H; subst; apply PL_refl|].
    destruct (cycle l ar) as [l1|] eqn:E; [|discriminate]. intros H. apply cycle_perm in E. apply sift_PL in H. eapply PL_trans; eauto.
  Qed.
  Lemma build_PL fuel : forall l high head p pshift tr l' head' p' pshift' tr',
    build A cmp fuel l high head p pshift tr = Some (l', head', p', pshift', tr') -> PL l l'.
  Proof.
    induction fuel as [|f IH]; intros l high head p pshift tr l' head' p' pshift' tr'; cbn [build];
      destruct (head <? high); try discriminate; try (intros H; inversion H; subst; apply PL_refl).
    destruct (bit0 p && bit1 p).
    - destruct (sift A cmp l head pshift tr) as [[l1 tr1]|] eqn:E; [|discriminate]. intros H. apply IH in H. apply sift_PL in E. eapply PL_trans; eauto.
    - destruct pshift as [|q]; [discriminate|].
      destruct (if leo q >=? high - head then trinkle A cmp l head p (S q) false tr else sift A cmp l head (S q) tr) as [[l1 tr1]|] eqn:E; [|discriminate].
      assert (PL l l1) by (destruct (leo q >=? high - head); [eapply trinkle_PL|eapply sift_PL]; eauto).
      destruct q; intros H1; apply IH in H1; eapply PL_trans; eauto.
  Qed.
  Lemma dismantle_PL fuel : forall l head p pshift tr l' tr',
    dismantle A cmp fuel l head p pshift tr = Some (l', tr') -> PL l l'.
  Proof.
    induction fuel as [|f IH]; intros l head p pshift tr l' tr'; cbn [dismantle];
      destruct (Nat.eqb pshift 1 && is_one p); try discriminate; try (intros H; inversion H; subst; apply PL_refl).
    destruct pshift as [|[|q]]; try (intros H; apply IH in H; exact H).
    destruct (trinkle A cmp l (head - leo q - 1) (shr (xor7 (shl p 2)) 1) (S q) true tr) as [[l1 tr1]|] eqn:E1; [|discriminate].
    destruct (trinkle A cmp l1 (head - 1) (set0 (shl (shr (xor7 (shl p 2)) 1) 1)) q true tr1) as [[l2 tr2]|] eqn:E2; [|discriminate].
    intros H. apply IH in H. apply trinkle_PL in E1. apply trinkle_PL in E2. eapply PL_trans; [exact E1|]. eapply PL_trans; eauto.
  Qed.

  Theorem smoothsort_perm l l' tr : smoothsort A cmp l = Some (l', tr) -> Permutation l l' /\ length l' = length l.
  Proof.
    unfold smoothsort. destruct l as [|x l0]; [intros H; inversion H; auto|]. set (l := x :: l0).
    destruct (build A cmp (length l) l (Z.of_nat (length l) - 1) 0 [true] 1 []) as [[[[[l1 head] p] pshift] tr1]|] eqn:E1; [|discriminate].
    destruct (trinkle A cmp l1 head p pshift false tr1) as [[l2 tr2]|] eqn:E2; [|discriminate].
    intros H. apply build_PL in E1. apply trinkle_PL in E2. apply dismantle_PL in H.
    exact (PL_trans _ _ _ E1 (PL_trans _ _ _ E2 H)).
  Qed.
End SortProofs.

(* ====================================================================================
   2. the model never leaves the array: the Leonardo forest described by (p, pshift)
   ==================================================================================== *)
(* total size of the trees: bit i of p set <-> a tree of order pshift + i is present *)
Fixpoint fsum (p : bits) (s : nat) : Z :=
  match p with [] => 0 | b :: r => (if b then leo s else 0) + fsum r (S s) end.

Lemma fsum_nonneg p : forall s, 0 <= fsum p s.
Proof. induction p as [|b r IH]; intros s; cbn [fsum]; [lia|]. pose proof (IH (S s)). pose proof (leo_pos s). destruct b; lia. Qed.
Lemma fsum_zero p : forall s, fsum p s = 0 -> forallb negb p = true.
Proof.
  induction p as [|b r IH]; intros s H; cbn in *; [reflexivity|].
  pose proof (fsum_nonneg r (S s)). pose proof (leo_pos s). destruct b; [lia|]. cbn. apply (IH (S s)). lia.
Qed.
Lemma fsum_allfalse p : forall s, forallb negb p = true -> fsum p s = 0.
Proof. induction p as [|b r IH]; intros s H; cbn in *; [reflexivity|]. apply andb_true_iff in H. destruct H as [Hb Hr]. destruct b; [discriminate|]. rewrite (IH (S s) Hr). lia. Qed.
Lemma first_set_some r : forallb negb r = false -> exists k, first_set r = Some k.
Proof. induction r as [|b r IH]; cbn; [discriminate|]. destruct b; [intros _; exists O; reflexivity|]. cbn. intros H. destruct (IH H) as [k ->]. exists (S k). reflexivity. Qed.
Lemma first_set_skipn r : forall k s, first_set r = Some k ->
  bit0 (skipn k r) = true /\ fsum (skipn k r) (s + k) = fsum r s /\ (length (skipn k r) <= length r)%nat /\ (k < length r)%nat.
Proof.
  induction r as [|b r IH]; intros k s H; cbn in H; [discriminate|]. destruct b.
  - inversion H; subst. cbn [skipn]. rewrite Nat.add_0_r. cbn [bit0 length]. repeat split; try reflexivity; lia.
  - destruct (first_set r) as [k'|] eqn:E; [|discriminate]. cbn in H. inversion H; subst. cbn [skipn].
    destruct (IH k' (S s) eq_refl) as (B & F & L & K). repeat split; [exact B| |cbn; lia|cbn; lia].
    replace (s + S k')%nat with (S s + k')%nat by lia. rewrite F. cbn [fsum]. lia.
Qed.
Lemma is_one_false_fsum p s : bit0 p = true -> is_one p = false -> leo s + 1 <= fsum p s.
Proof.
  destruct p as [|b r]; cbn; [discriminate|]. intros -> H. 
  destruct (Z.eq_dec (fsum r (S s)) 0) as [E|E]; [apply fsum_zero in E; congruence|]. pose proof (fsum_nonneg r (S s)). lia.
Qed.
Lemma is_one_true_fsum p s : is_one p = true -> fsum p s = leo s.
Proof. destruct p as [|[|] r]; cbn; try discriminate. intros H. rewrite (fsum_allfalse r (S s) H). lia. Qed.

Section Bounds.
  Variable A : Type.
  Variable cmp : A -> A -> Z.
  Variable n : Z.                       (* number of elements *)
  Definition inr (i : Z) : Prop := 0 <= i < n.
  Definition len_ok (l : list A) : Prop := Z.of_nat (length l) = n.

  Lemma cmp_at_in l i j : len_ok l -> inr i -> inr j -> exists c, cmp_at A cmp l i j = Some c.
  Proof.
    intros L Hi Hj. unfold cmp_at. unfold inr, len_ok in *.
    destruct (getz_in A l i) as [a ->]; [lia|]. destruct (getz_in A l j) as [b ->]; [lia|]. eauto.
  Qed.

  (* sift: the tree of order pshift rooted at head lies inside [0, head] *)
  Lemma sift_path_ok l : len_ok l -> forall pshift root head acc tr,
    inr root -> inr head -> leo pshift <= head + 1 -> Forall inr acc ->
    exists ar tr', sift_path A cmp l root head pshift acc tr = Some (ar, tr') /\ Forall inr ar.
  Proof.
    intros L pshift. induction pshift as [pshift IH] using (well_founded_induction lt_wf).
    intros root head acc tr Hroot Hhead Hfit Hacc.
    destruct pshift as [|[|q]]; cbn [sift_path]; try (eexists _, _; split; [reflexivity|apply Forall_rev; exact Hacc]).
    rewrite leo_SS in Hfit. pose proof (leo_pos q) as Pq. pose proof (leo_pos (S q)) as Psq.
    assert (Hlf : inr (head - 1 - leo q)) by (unfold inr in *; lia).
    assert (Hrt : inr (head - 1)) by (unfold inr in *; lia).
    destruct (cmp_at_in l root (head - 1 - leo q) L Hroot Hlf) as [c1 ->].
    destruct (cmp_at_in l root (head - 1) L Hroot Hrt) as [c2 E2].
    destruct (cmp_at_in l (head - 1 - leo q) (head - 1) L Hlf Hrt) as [c3 E3].
    assert (Cont : forall tr2, exists ar tr',
      match cmp_at A cmp l (head - 1 - leo q) (head - 1) with
      | Some c3 => if c3 >=? 0 then sift_path A cmp l root (head - 1 - leo q) (S q) (head - 1 - leo q :: acc) ((head - 1 - leo q, head - 1) :: tr2)
                   else sift_path A cmp l root (head - 1) q (head - 1 :: acc) ((head - 1 - leo q, head - 1) :: tr2)
      | None => None end = Some (ar, tr') /\ Forall inr ar).
    { intros tr2. rewrite E3. destruct (c3 >=? 0).
      - apply IH; [lia|exact Hroot|exact Hlf|lia|constructor; assumption].
      - apply IH; [lia|exact Hroot|exact Hrt|lia|constructor; assumption]. }
    destruct (c1 >=? 0).
    - rewrite E2. destruct (c2 >=? 0); [eexists _, _; split; [reflexivity|apply Forall_rev; exact Hacc]|apply Cont].
    - apply Cont.
  Qed.

  Lemma sift_ok l head pshift tr : len_ok l -> inr head -> leo pshift <= head + 1 ->
    exists l' tr', sift A cmp l head pshift tr = Some (l', tr') /\ len_ok l'.
  Proof.
    intros L Hh Hfit. unfold sift.
    destruct (sift_path_ok l L pshift head head [head] tr Hh Hh Hfit) as (ar & tr' & -> & Har); [constructor; [exact Hh|constructor]|].
    destruct (cycle A l ar) as [l'|] eqn:E.
    - eexists _, _; split; [reflexivity|]. apply cycle_perm in E. unfold len_ok in *. destruct E as [_ ->]. exact L.
    - exfalso. revert E. apply cycle_ok. unfold len_ok in L. rewrite L. exact Har.
  Qed.

  (* the forest (p, pshift) ends at head: bit 0 is the tree rooted at head *)
  Definition WF (head : Z) (p : bits) (s : nat) : Prop := bit0 p = true /\ fsum p s = head + 1 /\ head < n.

  Lemma WF_fit head p s : WF head p s -> leo s <= head + 1 /\ inr head.
  Proof.
    intros (B & F & H). destruct p as [|b r]; [discriminate|]. cbn in B. subst b. cbn [fsum] in F.
    pose proof (fsum_nonneg r (S s)). pose proof (leo_pos s). unfold inr. lia.
  Qed.

  Lemma trinkle_path_ok l : len_ok l -> forall fuel root head p pshift trusty acc tr,
    (length p < fuel)%nat -> inr root -> WF head p pshift -> Forall inr acc ->
    exists ar head' ps' t' tr', trinkle_path A cmp fuel l root head p pshift trusty acc tr = Some (ar, head', ps', t', tr')
      /\ Forall inr ar /\ inr head' /\ leo ps' <= head' + 1.
  Proof.
    intros L fuel. induction fuel as [|f IH]; intros root head p pshift trusty acc tr Hf Hroot Hwf Hacc; [lia|].
    cbn [trinkle_path]. destruct (WF_fit _ _ _ Hwf) as [Hfit Hhead].
    destruct (is_one p) eqn:E1.
    { eexists _, _, _, _, _. split; [reflexivity|]. split; [apply Forall_rev; exact Hacc|]. split; assumption. }
    destruct Hwf as (B & F & Hn).
    pose proof (is_one_false_fsum p pshift B E1) as Hbig. pose proof (leo_pos pshift) as Pp.
    assert (Hstep : inr (head - leo pshift)) by (unfold inr in *; lia).
    destruct (cmp_at_in l (head - leo pshift) root L Hstep Hroot) as [c1 ->].
    destruct (c1 <=? 0).
    { eexists _, _, _, _, _. split; [reflexivity|]. split; [apply Forall_rev; exact Hacc|]. split; assumption. }
    (* the recursive call *)
    assert (Rec : forall tr3, exists ar head' ps' t' tr',
      trinkle_path A cmp f l root (head - leo pshift) (shr p (pntz p)) (pshift + pntz p) false (head - leo pshift :: acc) tr3 = Some (ar, head', ps', t', tr')
      /\ Forall inr ar /\ inr head' /\ leo ps' <= head' + 1).
    { intros tr3. destruct p as [|b r]; [discriminate|]. cbn in B. subst b. cbn [is_one] in E1.
      destruct (first_set_some r E1) as [k Hk]. unfold pntz. rewrite Hk. unfold shr. cbn [skipn].
      destruct (first_set_skipn r k (S pshift) Hk) as (B' & F' & L' & K').
      apply IH; [cbn [length] in Hf; lia|exact Hroot| |constructor; assumption].
      split; [exact B'|]. split; [|unfold inr in Hstep; lia].
      replace (pshift + S k)%nat with (S pshift + k)%nat by lia. rewrite F'. cbn [fsum] in F. lia. }
    destruct (negb trusty && (1 <? Z.of_nat pshift)) eqn:E2; [|apply Rec].
    apply andb_true_iff in E2. destruct E2 as [_ E2]. apply Z.ltb_lt in E2.
    destruct pshift as [|[|q]]; try lia. replace (S (S q) - 2)%nat with q by lia.
    rewrite leo_SS in *. pose proof (leo_pos q). pose proof (leo_pos (S q)).
    assert (Hrt : inr (head - 1)) by (unfold inr in *; lia).
    assert (Hlf : inr (head - 1 - leo q)) by (unfold inr in *; lia).
    destruct (cmp_at_in l (head - 1) (head - (leo (S q) + leo q + 1)) L Hrt Hstep) as [c2 ->].
    destruct (c2 >=? 0).
    { eexists _, _, _, _, _. split; [reflexivity|]. split; [apply Forall_rev; exact Hacc|]. split; [assumption|rewrite ?leo_SS; lia]. }
    destruct (cmp_at_in l (head - 1 - leo q) (head - (leo (S q) + leo q + 1)) L Hlf Hstep) as [c3 ->].
    destruct (c3 >=? 0).
    { eexists _, _, _, _, _. split; [reflexivity|]. split; [apply Forall_rev; exact Hacc|]. split; [assumption|rewrite ?leo_SS; lia]. }
    apply Rec.
  Qed.

  Lemma trinkle_ok l head p pshift trusty tr : len_ok l -> WF head p pshift ->
    exists l' tr', trinkle A cmp l head p pshift trusty tr = Some (l', tr') /\ len_ok l'.
  Proof.
    intros L Hwf. unfold trinkle. destruct (WF_fit _ _ _ Hwf) as [_ Hh].
    destruct (trinkle_path_ok l L (S (length p)) head head p pshift trusty [head] tr) as (ar & h' & ps' & t' & tr' & -> & Har & Hh' & Hfit');
      [lia|exact Hh|exact Hwf|constructor; [exact Hh|constructor]|].
    destruct t'; [eexists _, _; split; [reflexivity|exact L]|].
    destruct (cycle A l ar) as [l1|] eqn:E.
    - apply cycle_perm in E. destruct E as [_ E]. assert (L1 : len_ok l1) by (unfold len_ok in *; congruence).
      exact (sift_ok l1 h' ps' tr' L1 Hh' Hfit').
    - exfalso. revert E. apply cycle_ok. unfold len_ok in L. rewrite L. exact Har.
  Qed.

  (* ---- the first loop: at most the two smallest trees have consecutive orders ---- *)
  Fixpoint noadj (p : bits) : bool :=
    match p with a :: r => match r with b :: _ => negb (a && b) && noadj r | [] => true end | [] => true end.
  Definition Binv (head : Z) (p : bits) (s : nat) : Prop :=
    bit0 p = true /\ fsum p s = head + 1 /\ noadj (tl p) = true /\ (s = O -> bit1 p = true) /\ 0 <= head.

  Lemma noadj_false_cons p : noadj p = true -> noadj (false :: p) = true.
  Proof. destruct p as [|b r]; cbn; auto. Qed.
  Lemma noadj_repeat k p : noadj p = true -> noadj (repeat false k ++ p) = true.
  Proof. induction k as [|k IH]; intros H; cbn [repeat app]; [exact H|]. apply noadj_false_cons, IH, H. Qed.
  Lemma fsum_repeat k : forall p s, fsum (repeat false k ++ p) s = fsum p (s + k).
  Proof. induction k as [|k IH]; intros p s; cbn [repeat app fsum]; [now rewrite Nat.add_0_r|]. rewrite IH. replace (S s + k)%nat with (s + S k)%nat by lia. lia. Qed.

  Lemma build_ok : forall fuel l head p s tr, len_ok l -> Binv head p s -> head <= n - 1 -> (Z.to_nat (n - 1 - head) <= fuel)%nat ->
    exists l' p' s' tr', build A cmp fuel l (n - 1) head p s tr = Some (l', n - 1, p', s', tr') /\ len_ok l' /\ Binv (n - 1) p' s'.
  Proof.
    induction fuel as [|f IH]; intros l head p s tr L Hinv Hle Hfuel.
    - assert (head = n - 1) by lia. subst head. cbn [build]. rewrite Z.ltb_irrefl. eexists _, _, _, _. split; [reflexivity|]. split; assumption.
    - cbn [build]. destruct (head <? n - 1) eqn:E.
      2:{ apply Z.ltb_ge in E. assert (head = n - 1) by lia. subst head. eexists _, _, _, _. split; [reflexivity|]. split; assumption. }
      apply Z.ltb_lt in E. destruct Hinv as (B & F & Vp & Jp & H0).
      destruct p as [|b0 r0]; [discriminate|]. cbn in B. subst b0. cbn [tl] in Vp.
      assert (Hwf : WF head (true :: r0) s) by (split; [reflexivity|split; [exact F|lia]]).
      destruct (WF_fit _ _ _ Hwf) as [Hfit Hh].
      destruct (bit0 (true :: r0) && bit1 (true :: r0)) eqn:E01.
      + (* two smallest trees of consecutive orders: merge them under the new root *)
        cbn in E01. destruct r0 as [|b1 r1]; [discriminate|]. cbn in E01. subst b1.
        destruct (sift_ok l head s tr L Hh Hfit) as (l1 & tr1 & -> & L1).
        assert (Hinv' : Binv (head + 1) (set0 (shr (true :: true :: r1) 2)) (s + 2)).
        { unfold shr. cbn [skipn]. cbn [fsum] in F. replace (s + 2)%nat with (S (S s)) by lia.
          destruct r1 as [|b2 r2].
          - unfold Binv. cbn [set0 bit0 tl fsum noadj] in *. rewrite leo_SS. repeat split; try lia; try (intros; discriminate).
          - cbn [noadj] in Vp. apply andb_true_iff in Vp. destruct Vp as [Vb Vr]. destruct b2; [discriminate|].
            unfold Binv. cbn [set0 bit0 tl fsum] in *. rewrite leo_SS. repeat split; try lia.
            destruct r2 as [|b3 r3]; [reflexivity|]. cbn [noadj] in Vr. cbn in Vr. exact Vr. }
        destruct (IH l1 (head + 1) _ _ tr1 L1 Hinv') as (l' & p' & s' & tr' & Hb & L' & I'); [lia|lia|].
        eexists _, _, _, _. split; [exact Hb|]. split; assumption.
      + destruct s as [|q].
        { specialize (Jp eq_refl). cbn in E01. cbn in Jp. rewrite Jp in E01. discriminate. }
        assert (Hb1 : bit1 (true :: r0) = false) by (cbn in E01; exact E01).
        assert (Hna : noadj (true :: r0) = true).
        { destruct r0 as [|b1 r1]; [reflexivity|]. cbn in Hb1. subst b1. cbn [noadj]. cbn. exact Vp. }
        assert (Step : exists l1 tr1, (if leo q >=? n - 1 - head then trinkle A cmp l head (true :: r0) (S q) false tr else sift A cmp l head (S q) tr) = Some (l1, tr1) /\ len_ok l1).
        { destruct (leo q >=? n - 1 - head); [apply trinkle_ok; assumption|apply sift_ok; assumption]. }
        destruct Step as (l1 & tr1 & -> & L1).
        destruct q as [|q'].
        * assert (Hinv' : Binv (head + 1) (set0 (shl (true :: r0) 1)) 0).
          { unfold shl. cbn [repeat app set0]. split; [reflexivity|]. split; [cbn [fsum]; cbn [fsum] in F; rewrite leo_0; lia|].
            split; [cbn [tl]; exact Hna|]. split; [intros _; reflexivity|lia]. }
          destruct (IH l1 (head + 1) _ _ tr1 L1 Hinv') as (l' & p' & s' & tr' & Hb & L' & I'); [lia|lia|].
          eexists _, _, _, _. split; [exact Hb|]. split; assumption.
        * assert (Hinv' : Binv (head + 1) (set0 (shl (true :: r0) (S q'))) 1).
          { unfold shl. cbn [repeat app set0]. split; [reflexivity|]. split.
            - cbn [fsum]. rewrite fsum_repeat. replace (2 + q')%nat with (S (S q')) by lia. rewrite leo_1. lia.
            - split; [cbn [tl]; apply noadj_repeat; exact Hna|]. split; [intros; discriminate|lia]. }
          destruct (IH l1 (head + 1) _ _ tr1 L1 Hinv') as (l' & p' & s' & tr' & Hb & L' & I'); [lia|lia|].
          eexists _, _, _, _. split; [exact Hb|]. split; assumption.
  Qed.

  (* ---- the second loop ---- *)
  Definition Dinv (head : Z) (p : bits) (s : nat) : Prop :=
    bit0 p = true /\ fsum p s = head + 1 /\ (s = O -> bit1 p = true) /\ head < n.

  Lemma dismantle_ok : forall fuel l head p s tr, len_ok l -> Dinv head p s -> (Z.to_nat head < fuel)%nat ->
    exists l' tr', dismantle A cmp fuel l head p s tr = Some (l', tr') /\ len_ok l'.
  Proof.
    induction fuel as [|f IH]; intros l head p s tr L (B & F & Jp & Hn) Hfuel; [lia|].
    cbn [dismantle]. destruct (Nat.eqb s 1 && is_one p) eqn:Ex; [eexists _, _; split; [reflexivity|exact L]|].
    destruct p as [|b0 r0]; [discriminate|]. cbn in B. subst b0.
    destruct s as [|[|q]].
    - (* pshift = 0: the tree of order 0 is removed, the tree of order 1 is next *)
      specialize (Jp eq_refl). destruct r0 as [|b1 r1]; [discriminate|]. cbn in Jp. subst b1.
      unfold pntz. cbn [first_set]. unfold shr. cbn [skipn]. cbn [fsum] in F. rewrite leo_0, leo_1 in F.
      pose proof (fsum_nonneg r1 2).
      apply IH; [exact L| |lia]. split; [reflexivity|]. split; [cbn [fsum Nat.add]; rewrite ?leo_1; lia|]. split; [intros; discriminate|lia].
    - cbn [Nat.eqb andb] in Ex. cbn [is_one] in Ex. destruct (first_set_some r0 Ex) as [k Hk].
      unfold pntz. rewrite Hk. unfold shr. cbn [skipn].
      destruct (first_set_skipn r0 k 2 Hk) as (B' & F' & _ & _). cbn [fsum] in F. rewrite leo_1 in F.
      assert (1 <= fsum (skipn k r0) (2 + k)).
      { destruct (skipn k r0) as [|b r]; [discriminate|]. cbn in B'. subst b. cbn [fsum]. pose proof (fsum_nonneg r (S (2 + k))). pose proof (leo_pos (2 + k)). lia. }
      apply IH; [exact L| |lia]. split; [exact B'|]. split; [replace (1 + S k)%nat with (2 + k)%nat by lia; lia|]. split; [intros; discriminate|lia].
    - cbn [fsum] in F. rewrite leo_SS in F. pose proof (leo_pos q). pose proof (leo_pos (S q)). pose proof (fsum_nonneg r0 (S (S (S q)))).
      unfold shl, shr. cbn [repeat app xor7 negb skipn set0].
      destruct (trinkle_ok l (head - leo q - 1) (true :: false :: r0) (S q) true tr L) as (l1 & tr1 & -> & L1).
      { split; [reflexivity|]. split; [cbn [fsum]; lia|lia]. }
      destruct (trinkle_ok l1 (head - 1) (true :: true :: false :: r0) q true tr1 L1) as (l2 & tr2 & -> & L2).
      { split; [reflexivity|]. split; [cbn [fsum]; lia|lia]. }
      apply IH; [exact L2| |lia]. split; [reflexivity|]. split; [cbn [fsum]; lia|]. split; [intros; reflexivity|lia].
  Qed.
End Bounds.

(* the sort never dereferences an index outside the array, and it terminates within its fuel *)
Theorem smoothsort_total (A : Type) (cmp : A -> A -> Z) (l : list A) : smoothsort A cmp l <> None.
Proof.
  unfold smoothsort. destruct l as [|x l0]; [discriminate|]. set (l := x :: l0). set (n := Z.of_nat (length l)).
  assert (L : len_ok A n l) by reflexivity. assert (1 <= n) by (unfold n, l; cbn [length]; lia).
  destruct (build_ok A cmp n (length l) l 0 [true] 1 [] L) as (l1 & p & s & tr1 & -> & L1 & (B & F & Vp & Jp & H0)).
  { split; [reflexivity|]. split; [reflexivity|]. split; [reflexivity|]. split; [intros; discriminate|lia]. }
  { lia. } { unfold n. lia. }
  destruct (trinkle_ok A cmp n l1 (n - 1) p s false tr1 L1) as (l2 & tr2 & -> & L2).
  { split; [exact B|]. split; [exact F|lia]. }
  destruct (dismantle_ok A cmp n (S (length l)) l2 (n - 1) p s tr2 L2) as (l3 & tr3 & -> & _).
  { split; [exact B|]. split; [exact F|]. split; [exact Jp|lia]. }
  { unfold n. lia. }
  discriminate.
Qed.

(* ====================================================================================
   3. the run depends on the elements only through the signs the comparator reports:
      mapping the elements by f, and replacing the comparator by one that agrees in sign
      on the images, maps the whole run (same comparator calls, image of the final array)
   ==================================================================================== *)
Section Param.
  Variables A B : Type.
  Variable cmpA : A -> A -> Z.
  Variable cmpB : B -> B -> Z.
  Variable f : A -> B.
  Variable l0 : list A.
  Hypothesis Hc : forall a a', In a l0 -> In a' l0 ->
    (cmpA a a' >=? 0) = (cmpB (f a) (f a') >=? 0) /\ (cmpA a a' <=? 0) = (cmpB (f a) (f a') <=? 0).

  Definition om {X Y} (g : X -> Y) (o : option X) : option Y := match o with Some x => Some (g x) | None => None end.
  Definition mf2 (x : list A * trace) : list B * trace := (map f (fst x), snd x).

  Lemma getz_map l i : getz B (map f l) i = om f (getz A l i).
  Proof. unfold getz. destruct (0 <=? i); [|reflexivity]. rewrite nth_error_map. destruct (nth_error l (Z.to_nat i)); reflexivity. Qed.
  Lemma upd_map l i a : upd B (map f l) i (f a) = map f (upd A l i a).
  Proof. revert i; induction l as [|x l IH]; intros [|i]; cbn; auto. f_equal. apply IH. Qed.
  Lemma setz_map l i a : setz B (map f l) i (f a) = om (map f) (setz A l i a).
  Proof. unfold setz. rewrite map_length. destruct ((0 <=? i) && (i <? Z.of_nat (length l))); [|reflexivity]. cbn. f_equal. apply upd_map. Qed.
  Lemma cycle_go_map ar : forall l tmp, cycle_go B (map f l) ar (f tmp) = om (map f) (cycle_go A l ar tmp).
  Proof.
    induction ar as [|i rest IH]; intros l tmp; cbn [cycle_go]; [reflexivity|]. destruct rest as [|j r]; [apply setz_map|].
    rewrite getz_map. destruct (getz A l j) as [a|]; [|reflexivity]. cbn [om]. rewrite setz_map.
    destruct (setz A l i a) as [l1|]; [|reflexivity]. cbn [om]. apply IH.
  Qed.
  Lemma cycle_map l ar : cycle B (map f l) ar = om (map f) (cycle A l ar).
  Proof.
    unfold cycle. destruct ar as [|i rest]; [reflexivity|]. destruct rest as [|j r]; [reflexivity|].
    rewrite getz_map. destruct (getz A l i) as [a|]; [|reflexivity]. cbn [om]. apply cycle_go_map.
  Qed.

  Definition agree (o : option Z) (o' : option Z) : Prop :=
    match o, o' with
    | Some c, Some c' => (c >=? 0) = (c' >=? 0) /\ (c <=? 0) = (c' <=? 0)
    | None, None => True
    | _, _ => False
    end.
  Lemma getz_In l i a : getz A l i = Some a -> In a l.
  Proof. unfold getz. destruct (0 <=? i); [|discriminate]. apply nth_error_In. Qed.
  Lemma cmp_at_map l i j : incl l l0 -> agree (cmp_at A cmpA l i j) (cmp_at B cmpB (map f l) i j).
  Proof.
    intros Hi. unfold cmp_at. rewrite !getz_map. destruct (getz A l i) as [a|] eqn:Ea; [|exact I]. cbn [om].
    destruct (getz A l j) as [b|] eqn:Eb; [|exact I]. cbn [om agree]. apply Hc; apply Hi; eapply getz_In; eassumption.
  Qed.

  Ltac agree_step l i j Hi :=
    let H := fresh "Hag" in
    pose proof (cmp_at_map l i j Hi) as H;
    destruct (cmp_at A cmpA l i j), (cmp_at B cmpB (map f l) i j); cbn [agree] in H; try contradiction; try reflexivity;
    let H1 := fresh "Hge" in let H2 := fresh "Hle" in destruct H as [H1 H2]; try rewrite <- H1; try rewrite <- H2.

  Lemma sift_path_map l : incl l l0 -> forall pshift root head acc tr,
    sift_path B cmpB (map f l) root head pshift acc tr = sift_path A cmpA l root head pshift acc tr.
  Proof.
    intros Hi pshift. induction pshift as [pshift IH] using (well_founded_induction lt_wf). intros root head acc tr.
    destruct pshift as [|[|q]]; cbn [sift_path]; try reflexivity.
    agree_step l root (head - 1 - leo q) Hi.
    assert (Cont : forall tr2,
      match cmp_at B cmpB (map f l) (head - 1 - leo q) (head - 1) with
      | Some c3 => if c3 >=? 0 then sift_path B cmpB (map f l) root (head - 1 - leo q) (S q) (head - 1 - leo q :: acc) ((head - 1 - leo q, head - 1) :: tr2)
                   else sift_path B cmpB (map f l) root (head - 1) q (head - 1 :: acc) ((head - 1 - leo q, head - 1) :: tr2)
      | None => None end =
      match cmp_at A cmpA l (head - 1 - leo q) (head - 1) with
      | Some c3 => if c3 >=? 0 then sift_path A cmpA l root (head - 1 - leo q) (S q) (head - 1 - leo q :: acc) ((head - 1 - leo q, head - 1) :: tr2)
                   else sift_path A cmpA l root (head - 1) q (head - 1 :: acc) ((head - 1 - leo q, head - 1) :: tr2)
      | None => None end).
    { intros tr2. agree_step l (head - 1 - leo q) (head - 1) Hi. destruct (z1 >=? 0); apply IH; lia. }
    destruct (z >=? 0); [|apply Cont].
    agree_step l root (head - 1) Hi. destruct (z1 >=? 0); [reflexivity|apply Cont].
  Qed.

  Lemma incl_PL l l' : incl l l0 -> PL A l l' -> incl l' l0.
  Proof. intros Hi [P _] x Hx. apply Hi. eapply Permutation_in; [symmetry; exact P|exact Hx]. Qed.

  Lemma sift_map l head pshift tr : incl l l0 ->
    sift B cmpB (map f l) head pshift tr = om mf2 (sift A cmpA l head pshift tr).
  Proof.
    intros Hi. unfold sift. rewrite sift_path_map by exact Hi.
    destruct (sift_path A cmpA l head head pshift [head] tr) as [[ar tr']|]; [|reflexivity].
    rewrite cycle_map. destruct (cycle A l ar); reflexivity.
  Qed.

  Lemma trinkle_path_map l : incl l l0 -> forall fuel root head p pshift trusty acc tr,
    trinkle_path B cmpB fuel (map f l) root head p pshift trusty acc tr = trinkle_path A cmpA fuel l root head p pshift trusty acc tr.
  Proof.
    intros Hi fuel. induction fuel as [|fu IH]; intros root head p pshift trusty acc tr; cbn [trinkle_path]; [reflexivity|].
    destruct (is_one p); [reflexivity|].
    agree_step l (head - leo pshift) root Hi. destruct (z <=? 0); [reflexivity|].
    destruct (negb trusty && (1 <? Z.of_nat pshift)); [|apply IH].
    agree_step l (head - 1) (head - leo pshift) Hi. destruct (z1 >=? 0); [reflexivity|].
    agree_step l (head - 1 - leo (pshift - 2)) (head - leo pshift) Hi. destruct (z3 >=? 0); [reflexivity|apply IH].
  Qed.

  Lemma trinkle_map l head p pshift trusty tr : incl l l0 ->
    trinkle B cmpB (map f l) head p pshift trusty tr = om mf2 (trinkle A cmpA l head p pshift trusty tr).
  Proof.
    intros Hi. unfold trinkle. rewrite trinkle_path_map by exact Hi.
    destruct (trinkle_path A cmpA (S (length p)) l head head p pshift trusty [head] tr) as [[[[[ar h'] ps'] t'] tr']|]; [|reflexivity].
    destruct t'; [reflexivity|]. rewrite cycle_map. destruct (cycle A l ar) as [l1|] eqn:E; [|reflexivity]. cbn [om].
    apply sift_map. eapply incl_PL; [exact Hi|]. apply cycle_perm in E. exact E.
  Qed.

  Definition mf5 (x : list A * Z * bits * nat * trace) : list B * Z * bits * nat * trace :=
    let '(l, h, p, s, t) := x in (map f l, h, p, s, t).

  Lemma build_map fuel : forall l high head p pshift tr, incl l l0 ->
    build B cmpB fuel (map f l) high head p pshift tr = om mf5 (build A cmpA fuel l high head p pshift tr).
  Proof.
    induction fuel as [|fu IH]; intros l high head p pshift tr Hi; cbn [build]; destruct (head <? high); try reflexivity.
    destruct (bit0 p && bit1 p).
    - rewrite sift_map by exact Hi. destruct (sift A cmpA l head pshift tr) as [[l1 tr1]|] eqn:E; [|reflexivity]. cbn [om mf2 fst snd].
      apply IH. eapply incl_PL; [exact Hi|]. eapply sift_PL; exact E.
    - destruct pshift as [|q]; [reflexivity|].
      assert (Hs : (if leo q >=? high - head then trinkle B cmpB (map f l) head p (S q) false tr else sift B cmpB (map f l) head (S q) tr)
                   = om mf2 (if leo q >=? high - head then trinkle A cmpA l head p (S q) false tr else sift A cmpA l head (S q) tr)).
      { destruct (leo q >=? high - head); [apply trinkle_map|apply sift_map]; exact Hi. }
      rewrite Hs. destruct (if leo q >=? high - head then trinkle A cmpA l head p (S q) false tr else sift A cmpA l head (S q) tr) as [[l1 tr1]|] eqn:E; [|reflexivity].
      assert (Hi1 : incl l1 l0).
      { eapply incl_PL; [exact Hi|]. destruct (leo q >=? high - head); [eapply trinkle_PL|eapply sift_PL]; exact E. }
      cbn [om mf2 fst snd]. destruct q; apply IH; exact Hi1.
  Qed.

  Lemma dismantle_map fuel : forall l head p pshift tr, incl l l0 ->
    dismantle B cmpB fuel (map f l) head p pshift tr = om mf2 (dismantle A cmpA fuel l head p pshift tr).
  Proof.
    induction fuel as [|fu IH]; intros l head p pshift tr Hi; cbn [dismantle]; destruct (Nat.eqb pshift 1 && is_one p); try reflexivity.
    destruct pshift as [|[|q]]; try (apply IH; exact Hi).
    rewrite trinkle_map by exact Hi.
    destruct (trinkle A cmpA l (head - leo q - 1) (shr (xor7 (shl p 2)) 1) (S q) true tr) as [[l1 tr1]|] eqn:E1; [|reflexivity]. cbn [om mf2 fst snd].
    assert (Hi1 : incl l1 l0) by (eapply incl_PL; [exact Hi|eapply trinkle_PL; exact E1]).
    rewrite trinkle_map by exact Hi1.
    destruct (trinkle A cmpA l1 (head - 1) (set0 (shl (shr (xor7 (shl p 2)) 1) 1)) q true tr1) as [[l2 tr2]|] eqn:E2; [|reflexivity]. cbn [om mf2 fst snd].
    apply IH. eapply incl_PL; [exact Hi1|eapply trinkle_PL; exact E2].
  Qed.

  Theorem smoothsort_map : smoothsort B cmpB (map f l0) = om mf2 (smoothsort A cmpA l0).
  Proof.
    unfold smoothsort. destruct l0 as [|x r] eqn:El; [reflexivity|]. rewrite <- El in *. 
    replace (map f (x :: r)) with (map f l0) by (rewrite El; reflexivity). 
    assert (Hne : match map f l0 with [] => False | _ => True end) by (rewrite El; exact I).
    destruct (map f l0) as [|y r'] eqn:Em; [contradiction|]. rewrite <- Em. rewrite map_length.
    rewrite build_map by apply incl_refl.
    destruct (build A cmpA (length l0) l0 (Z.of_nat (length l0) - 1) 0 [true] 1 []) as [[[[[l1 head] p] pshift] tr1]|] eqn:E1; [|reflexivity]. cbn [om mf5].
    assert (Hi1 : incl l1 l0) by (eapply incl_PL; [apply incl_refl|eapply build_PL; exact E1]).
    rewrite trinkle_map by exact Hi1.
    destruct (trinkle A cmpA l1 head p pshift false tr1) as [[l2 tr2]|] eqn:E2; [|reflexivity]. cbn [om mf2 fst snd].
    apply dismantle_map. eapply incl_PL; [exact Hi1|eapply trinkle_PL; exact E2].
  Qed.
End Param.

(* ====================================================================================
   4. order: for every array of at most N0 = 7 elements and every comparator induced by a key
      function, the result is ordered.  Finite part: all key lists over {0..n-1} of length n,
      n <= 7, by computation; lifted to arbitrary elements, keys and comparators by the
      parametricity theorem (competition ranks preserve the order pattern).
   ==================================================================================== *)
Definition zcmp (a b : Z) : Z := match Z.compare a b with Lt => -1 | Eq => 0 | Gt => 1 end.
Definition rank (ks : list Z) (x : Z) : Z := Z.of_nat (length (filter (fun y => y <? x) ks)).

Lemma rank_mono ks x y : x < y -> rank ks x <= rank ks y /\ (In x ks -> rank ks x < rank ks y).
Proof.
  intros Hxy. unfold rank. induction ks as [|k ks [IH1 IH2]]; cbn [filter length In]; [split; [lia|tauto]|].
  destruct (k <? x) eqn:E1; destruct (k <? y) eqn:E2; cbn [length];
    try (apply Z.ltb_lt in E1); try (apply Z.ltb_ge in E1); try (apply Z.ltb_lt in E2); try (apply Z.ltb_ge in E2); try lia.
  all: split; [lia|]; intros [->|H]; [lia|]; specialize (IH2 H); lia.
Qed.
Lemma rank_bound ks x : 0 <= rank ks x <= Z.of_nat (length ks) /\ (In x ks -> rank ks x < Z.of_nat (length ks)).
Proof.
  unfold rank. induction ks as [|k ks [IH1 IH2]]; cbn [filter length In]; [split; [lia|tauto]|].
  destruct (k <? x) eqn:E1; cbn [length].
  - apply Z.ltb_lt in E1. split; [lia|]. intros [->|H]; [lia|]. specialize (IH2 H). lia.
  - split; [lia|]. intros _. lia.
Qed.
Lemma zcmp_rank ks x y : In x ks -> In y ks -> zcmp (rank ks x) (rank ks y) = zcmp x y.
Proof.
  intros Hx Hy. unfold zcmp. destruct (Z.compare_spec x y) as [->|H|H].
  - rewrite Z.compare_refl. reflexivity.
  - destruct (rank_mono ks x y H) as [_ R]. specialize (R Hx). apply Z.compare_lt_iff in R. rewrite R. reflexivity.
  - destruct (rank_mono ks y x H) as [_ R]. specialize (R Hy). apply Z.compare_gt_iff in R. rewrite R. reflexivity.
Qed.

Fixpoint sortedb (l : list Z) : bool :=
  match l with a :: r => match r with b :: _ => (a <=? b) && sortedb r | [] => true end | [] => true end.
Definition sorts_ok (ks : list Z) : bool :=
  match smoothsort Z zcmp ks with Some (l', _) => sortedb l' | None => false end.
(* every list of n values drawn from vals, built in front of suffix *)
Fixpoint all_ok (vals : list Z) (n : nat) (P : list Z -> bool) (suffix : list Z) : bool :=
  match n with O => P suffix | S n' => forallb (fun v => all_ok vals n' P (v :: suffix)) vals end.
Lemma all_ok_spec vals P : forall n suffix, all_ok vals n P suffix = true ->
  forall l, length l = n -> (forall x, In x l -> In x vals) -> P (rev l ++ suffix) = true.
Proof.
  induction n as [|n IH]; intros suffix H l Hl Hin.
  - destruct l; [exact H|discriminate].
  - destruct l as [|x l]; [discriminate|]. cbn [all_ok] in H. rewrite forallb_forall in H.
    cbn [rev]. rewrite <- app_assoc. cbn [app]. apply IH; [apply H, Hin; left; reflexivity|cbn in Hl; lia|intros y Hy; apply Hin; right; exact Hy].
Qed.
Definition vals (n : nat) : list Z := map Z.of_nat (seq 0 n).
Definition check_n (n : nat) : bool := all_ok (vals n) n sorts_ok [].
Lemma check_upto6 : forallb check_n (seq 0 7) = true.
Proof. vm_compute. reflexivity. Qed.
(* the layer n = 7 is split by the last element into SortCheck7_<k>.v (compiled in parallel) and assembled in ProofsSort7.v *)
