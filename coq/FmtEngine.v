(* FmtEngine.v -- C11: executable model of the library's own printf engine (safec_vsnprintf_s in
   src/str/vsnprintf_s.c) for the literal, %%, integer (d i u x X o with flags, width, precision and
   hh h l ll z j t), %c and %s conversions, and of the _vsnprintf_s_chk / _vsprintf_s_chk wrappers.
   Floating conversions, %lc/%ls and %p are outside the model (the engine reports EUnmodelled there).
   No proofs here. *)
From Coq Require Import List ZArith Bool.
Import ListNotations.
Local Open Scope Z_scope.

Inductive arg := AInt (z : Z) | AStr (s : list Z) | ANullStr.

Record flags := mkF { f_zero : bool; f_left : bool; f_plus : bool; f_space : bool; f_hash : bool; f_upper : bool;
                      f_char : bool; f_short : bool; f_long : bool; f_llong : bool; f_prec : bool; f_ldbl : bool }.
Definition f0 := mkF false false false false false false false false false false false false.
Definition NTOA_BUF := 32.
Definition ESNULLP := 400. Definition ESLEMAX := 403. Definition ESNOSPC := 406. Definition EINVAL := 22. Definition ESZEROL := 401.

(* outcome of the engine: characters stored so far (in order), and how it ended *)
(* last0: the error came back through idx (integer conversions) as the last thing of the format: the engine still stores the
   terminator at bufsize-1 before returning the code *)
Inductive fin := FOk | FErr (ret : Z) (handler : option Z) (last0 : bool) | FUnmodelled.
Record est := mkE { e_out : list Z (* reversed *); e_fin : fin }.

(* out(): one character at index idx = length so far; safec_out_buffer refuses at idx >= bufsize *)
Definition oerr := FErr (- ESNOSPC) (Some ESNOSPC) false.
Definition put (bufsize : Z) (c : Z) (o : list Z) : list Z * option fin :=
  if Z.of_nat (length o) <? bufsize then (c :: o, None) else (o, Some oerr).
(* characters are stored one by one until one does not fit *)
Fixpoint puts (bufsize : Z) (cs : list Z) (o : list Z) : list Z * option fin :=
  match cs with
  | [] => (o, None)
  | c :: t => if Z.of_nat (length o) <? bufsize then puts bufsize t (c :: o) else (o, Some oerr)
  end.
Definition spaces (n : Z) : list Z := repeat 32 (Z.to_nat n).

(* digits of the magnitude, least significant first, at most 32 (the do/while of safec_ntoa_long) *)
Definition digit_char (upper : bool) (d : Z) : Z := if d <? 10 then 48 + d else (if upper then 65 else 97) + d - 10.
Fixpoint digits_from (fuel : nat) (upper : bool) (base v : Z) : list Z :=
  match fuel with
  | O => []
  | S f => digit_char upper (v mod base) :: (if v / base =? 0 then [] else digits_from f upper base (v / base))
  end.
Definition pad_to (l : list Z) (n : Z) : list Z :=   (* push '0' while len < n and len < 32 *)
  l ++ repeat 48 (Z.to_nat (Z.min n NTOA_BUF - Z.of_nat (length l))).
Definition push (l : list Z) (c : Z) : list Z := if Z.of_nat (length l) <? NTOA_BUF then l ++ [c] else l.
Definition drop_last (l : list Z) : list Z := removelast l.

(* safec_ntoa_long + safec_ntoa_format + safec_out_rev *)
Definition ntoa (bufsize : Z) (o : list Z) (value : Z) (negative : bool) (base prec width : Z) (fl : flags) : list Z * option fin :=
  let hash := f_hash fl && negb (value =? 0) in
  let buf0 := if negb (f_prec fl) || negb (value =? 0) then digits_from 32 (f_upper fl) base value else [] in
  let width1 := if negb (f_left fl) && negb (width =? 0) && f_zero fl && (negative || f_plus fl || f_space fl) then width - 1 else width in
  let buf1 := if f_left fl then buf0 else
                let b := pad_to buf0 prec in
                if f_zero fl then pad_to b width1 else b in
  let buf2 := if hash then
                let len := Z.of_nat (length buf1) in
                let b := if negb (f_prec fl) && negb (len =? 0) && ((len =? prec) || (len =? width1)) then
                           let b' := drop_last buf1 in
                           if negb (Z.of_nat (length b') =? 0) && (base =? 16) then drop_last b' else b'
                         else buf1 in
                let b := if (base =? 16) && negb (f_upper fl) then push b 120
                         else if (base =? 16) && f_upper fl then push b 88
                         else if base =? 2 then push b 98 else b in
                push b 48
              else buf1 in
  let buf3 := if Z.of_nat (length buf2) <? NTOA_BUF then
                (if negative then buf2 ++ [45] else if f_plus fl then buf2 ++ [43] else if f_space fl then buf2 ++ [32] else buf2)
              else buf2 in
  if 2147483614 <? width1 then (o, Some (FErr (- ESLEMAX) (Some ESLEMAX) false))
  else
    let len := Z.of_nat (length buf3) in
    let pre := if negb (f_left fl) && negb (f_zero fl) then spaces (width1 - len) else [] in
    let body := rev buf3 in
    let post := if f_left fl then spaces (width1 - (Z.of_nat (length pre) + len)) else [] in
    puts bufsize (pre ++ body ++ post) o.

Definition is_digit (c : Z) := (48 <=? c) && (c <=? 57).
Fixpoint atoi (l : list Z) (acc : Z) : Z * list Z :=
  match l with
  | c :: t => if is_digit c then atoi t ((acc * 10 + (c - 48)) mod 4294967296) else (acc, l)
  | [] => (acc, l)
  end.
Fixpoint parse_flags (l : list Z) (fl : flags) : flags * list Z :=
  match l with
  | c :: t =>
      if c =? 48 then parse_flags t (mkF true (f_left fl) (f_plus fl) (f_space fl) (f_hash fl) (f_upper fl) (f_char fl) (f_short fl) (f_long fl) (f_llong fl) (f_prec fl) (f_ldbl fl))
      else if c =? 45 then parse_flags t (mkF (f_zero fl) true (f_plus fl) (f_space fl) (f_hash fl) (f_upper fl) (f_char fl) (f_short fl) (f_long fl) (f_llong fl) (f_prec fl) (f_ldbl fl))
      else if c =? 43 then parse_flags t (mkF (f_zero fl) (f_left fl) true (f_space fl) (f_hash fl) (f_upper fl) (f_char fl) (f_short fl) (f_long fl) (f_llong fl) (f_prec fl) (f_ldbl fl))
      else if c =? 32 then parse_flags t (mkF (f_zero fl) (f_left fl) (f_plus fl) true (f_hash fl) (f_upper fl) (f_char fl) (f_short fl) (f_long fl) (f_llong fl) (f_prec fl) (f_ldbl fl))
      else if c =? 35 then parse_flags t (mkF (f_zero fl) (f_left fl) (f_plus fl) (f_space fl) true (f_upper fl) (f_char fl) (f_short fl) (f_long fl) (f_llong fl) (f_prec fl) (f_ldbl fl))
      else (fl, l)
  | [] => (fl, l)
  end.
Definition set_left (fl : flags) := mkF (f_zero fl) true (f_plus fl) (f_space fl) (f_hash fl) (f_upper fl) (f_char fl) (f_short fl) (f_long fl) (f_llong fl) (f_prec fl) (f_ldbl fl).
Definition set_prec (fl : flags) := mkF (f_zero fl) (f_left fl) (f_plus fl) (f_space fl) (f_hash fl) (f_upper fl) (f_char fl) (f_short fl) (f_long fl) (f_llong fl) true (f_ldbl fl).
Definition set_len (fl : flags) (c s l ll ld : bool) := mkF (f_zero fl) (f_left fl) (f_plus fl) (f_space fl) (f_hash fl) (f_upper fl) (f_char fl || c) (f_short fl || s) (f_long fl || l) (f_llong fl || ll) (f_prec fl) (f_ldbl fl || ld).
Definition int_flags (fl : flags) (spec : Z) : flags :=
  let dec := negb ((spec =? 120) || (spec =? 88) || (spec =? 111) || (spec =? 98)) in
  let signed := (spec =? 100) || (spec =? 105) in
  mkF (f_zero fl && negb (f_prec fl)) (f_left fl) (f_plus fl && signed) (f_space fl && signed) (f_hash fl && negb dec) (spec =? 88)
      (f_char fl) (f_short fl) (f_long fl) (f_llong fl) (f_prec fl) (f_ldbl fl).
Definition wrap_s (bits v : Z) : Z := let m := v mod 2 ^ bits in if m <? 2 ^ (bits - 1) then m else m - 2 ^ bits.
Definition strnlen (s : list Z) (n : Z) : Z := Z.min (Z.of_nat (length s)) n.

(* width / precision taken from an int argument *)
Definition pop_int (args : list arg) : option (Z * list arg) :=
  match args with AInt z :: t => Some (wrap_s 32 z, t) | _ => None end.

Definition defer (r : list Z * option fin) (rest : list Z) : list Z * option fin :=
  match r with
  | (o, Some (FErr ret h _)) => (o, Some (FErr ret h (match rest with [] => true | _ => false end)))
  | _ => r
  end.
(* one directive, after '%': returns new output, remaining format, remaining args *)
Definition directive (bufsize : Z) (l : list Z) (args : list arg) (o : list Z) : (list Z * option fin) * list Z * list arg :=
  let '(fl, l) := parse_flags l f0 in
  (* width *)
  let '(width, fl, l, args, okw) :=
    match l with
    | c :: t => if is_digit c then let '(w, l') := atoi l 0 in (w, fl, l', args, true)
                else if c =? 42 then
                  match pop_int args with
                  | Some (w, args') => if w <? 0 then ((- w) mod 4294967296, set_left fl, t, args', true) else (w, fl, t, args', true)
                  | None => (0, fl, t, args, false)
                  end
                else (0, fl, l, args, true)
    | [] => (0, fl, l, args, true)
    end in
  (* precision *)
  let '(prec, fl, l, args, okp) :=
    match l with
    | 46 :: t =>
        let fl := set_prec fl in
        match t with
        | c :: t' => if is_digit c then let '(p, l') := atoi t 0 in (p, fl, l', args, true)
                     else if c =? 42 then
                       match pop_int args with
                       | Some (p, args') => ((if 0 <? p then p else 0), fl, t', args', true)
                       | None => (0, fl, t', args, false)
                       end
                     else (0, fl, t, args, true)
        | [] => (0, fl, t, args, true)
        end
    | _ => (0, fl, l, args, true)
    end in
  if negb (okw && okp) then ((o, Some FUnmodelled), l, args) else
  (* length *)
  let '(fl, l, lenerr) :=
    match l with
    | 108 :: 108 :: t => (set_len fl false false true true false, t, false)
    | 108 :: t => (set_len fl false false true false false, t, false)
    | 76 :: t => (set_len fl false false false false true, t, false)      (* no l/h can precede in this grammar *)
    | 104 :: 104 :: t => (set_len fl true true false false false, t, false)
    | 104 :: t => (set_len fl false true false false false, t, false)
    | 116 :: t | 106 :: t | 122 :: t => (set_len fl false false true false false, t, false)
    | _ => (fl, l, false)
    end in
  match l with
  | [] => ((o, Some (FErr (-1) (Some EINVAL) false)), l, args)            (* "%" at the end: default case on '\0' *)
  | spec :: rest =>
      if existsb (Z.eqb spec) [100; 105; 117; 120; 88; 111; 98] then
        if f_ldbl fl then ((o, Some (FErr (-1) (Some EINVAL) false)), rest, args) else
        let base := if (spec =? 120) || (spec =? 88) then 16 else if spec =? 111 then 8 else if spec =? 98 then 2 else 10 in
        let fl' := int_flags fl spec in
        match args with
        | AInt z :: args' =>
            if (spec =? 100) || (spec =? 105) then
              let v := if f_llong fl || f_long fl then wrap_s 64 z
                       else if f_char fl then wrap_s 8 z else if f_short fl then wrap_s 16 z else wrap_s 32 z in
              (defer (ntoa bufsize o (Z.abs v) (v <? 0) base prec width fl') rest, rest, args')
            else
              let v := if f_llong fl || f_long fl then z mod 2 ^ 64
                       else if f_char fl then z mod 256 else if f_short fl then z mod 65536 else z mod 2 ^ 32 in
              (defer (ntoa bufsize o v false base prec width fl') rest, rest, args')
        | _ => ((o, Some FUnmodelled), rest, args)
        end
      else if spec =? 99 then
        if f_long fl then ((o, Some FUnmodelled), rest, args) else
        match args with
        | AInt z :: args' =>
            let pre := if f_left fl then [] else spaces (width - 1) in
            let post := if f_left fl then spaces (width - 1) else [] in
            (puts bufsize (pre ++ [z mod 256] ++ post) o, rest, args')
        | _ => ((o, Some FUnmodelled), rest, args)
        end
      else if spec =? 115 then
        if f_long fl then ((o, Some FUnmodelled), rest, args) else
        match args with
        | ANullStr :: args' => ((o, Some (FErr (- ESNULLP) (Some ESNULLP) false)), rest, args')
        | AStr s :: args' =>
            let l0 := strnlen s (if prec =? 0 then 18446744073709551615 else prec) in
            if bufsize <? l0 + Z.of_nat (length o) then ((o, Some (FErr (- ESNOSPC) (Some ESNOSPC) false)), rest, args') else
            let l1 := if f_prec fl then Z.min l0 prec else l0 in
            let pre := if f_left fl then [] else spaces (width - l1) in
            let body := if f_prec fl then firstn (Z.to_nat prec) s else s in
            let post := if f_left fl then spaces (width - l1) else [] in
            (puts bufsize (pre ++ body ++ post) o, rest, args')
        | _ => ((o, Some FUnmodelled), rest, args)
        end
      else if spec =? 37 then (put bufsize 37 o, rest, args)
      else if spec =? 110 then ((o, Some (FErr (-1) (Some EINVAL) false)), rest, args)
      else if existsb (Z.eqb spec) [102; 70; 101; 69; 103; 71; 97; 65; 112] then ((o, Some FUnmodelled), rest, args)
      else ((o, Some (FErr (-1) (Some EINVAL) false)), rest, args)
  end.

Fixpoint engine (fuel : nat) (bufsize : Z) (l : list Z) (args : list arg) (o : list Z) : est :=
  match fuel with
  | O => mkE o FUnmodelled
  | S f =>
      match l with
      | [] => mkE o FOk
      | c :: t =>
          if c =? 37 then
            match directive bufsize t args o with
            | ((o', None), l', args') => engine f bufsize l' args' o'
            | ((o', Some e), _, _) => mkE o' e
            end
          else match put bufsize c o with
               | (o', None) => engine f bufsize t args o'
               | (o', Some e) => mkE o' e
               end
      end
  end.
Definition run_engine (bufsize : Z) (fmt : list Z) (args : list arg) : est := engine (S (length fmt)) bufsize fmt args [].

(* ---------- the wrappers: final contents of dest[0..dmax) from the initial contents ---------- *)
Fixpoint overlay (init text : list Z) : list Z :=
  match init, text with
  | _ :: i, c :: t => c :: overlay i t
  | _, _ => init
  end.
Fixpoint set_nth (l : list Z) (n : nat) (v : Z) : list Z :=
  match l, n with
  | _ :: t, O => v :: t
  | x :: t, S k => x :: set_nth t k v
  | [], _ => []
  end.
Definition zero_from (l : list Z) (n : nat) : list Z := firstn n l ++ repeat 0 (length l - n).
Fixpoint find_pn (l : list Z) (prev : Z) : bool :=   (* strnstr(fmt, "%n") and the test on the preceding character, first occurrence *)
  match l with
  | a :: t => match t with
              | b :: _ => if (a =? 37) && (b =? 110) then negb (prev =? 37) else find_pn t a
              | [] => false
              end
  | [] => false
  end.
Record wres := mkW { w_ret : Z; w_dest : list Z; w_handlers : list Z; w_known : bool }.
(* _vsnprintf_s_chk with destbos unknown; init = the dmax bytes of dest before the call *)
Definition vsnprintf_s_m (slack : bool) (rmax : Z) (init : list Z) (fmt : list Z) (args : list arg) : wres :=
  let dmax := Z.of_nat (length init) in
  if dmax =? 0 then mkW (- ESZEROL) init [ESZEROL] true
  else if rmax <? dmax then mkW (- ESLEMAX) init [ESLEMAX] true
  else if find_pn fmt 0 then mkW (- EINVAL) init [EINVAL] true
  else
    let r := run_engine dmax fmt args in
    let text := rev (e_out r) in
    let idx := length text in
    match e_fin r with
    | FOk =>
        (* terminator at idx, or at bufsize-1 when idx = bufsize *)
        let d := overlay init text in
        let d := set_nth d (if Nat.ltb idx (length init) then idx else length init - 1) 0 in
        let d := if slack then zero_from d idx else set_nth d (length init - 1) 0 in
        mkW (Z.of_nat idx) d [] true
    | FErr ret h last0 =>
        let d := overlay init text in
        let d := if last0 then set_nth d (length init - 1) 0 else d in
        let d := if slack then repeat 0 (length init) else set_nth d 0 0 in
        mkW ret d (match h with Some c => [c] | None => [] end) true
    | FUnmodelled => mkW 0 init [] false
    end.
(* _vsprintf_s_chk: a result of dmax or more characters is an error *)
Definition vsprintf_s_m (slack : bool) (rmax : Z) (init : list Z) (fmt : list Z) (args : list arg) : wres :=
  let r := vsnprintf_s_m slack rmax init fmt args in
  if w_known r && negb (Z.of_nat (length init) =? 0) && (Z.of_nat (length init) <=? w_ret r) then
    mkW (- ESNOSPC) (if slack then repeat 0 (length init) else set_nth (w_dest r) 0 0) (w_handlers r ++ [ESNOSPC]) true
  else r.
(* the stream entry points: the text handed to fputc *)
Definition stream_m (fmt : list Z) (args : list arg) : est :=
  if find_pn fmt 0 then mkE [] (FErr (- EINVAL) (Some EINVAL) false) else run_engine 18446744073709551615 fmt args.
