(* ConstTime.v -- C19(b): a tiny imperative language for the loops of the timingsafe comparators,
   its leakage semantics (branch outcomes + addresses accessed), a secrecy type system, and the
   theorem: a well-typed program leaks the same for every pair of memories. *)
From Coq Require Import List ZArith Lia Bool.
Import ListNotations.
Local Open Scope Z_scope.

Inductive cop := OXor | OOr | OAnd | OSub | OAdd | OShr | OLt | ONe | OMul.
Inductive cexpr :=
| CConst (z : Z)
| CVar (x : nat)
| CLoad (addr : cexpr)            (* one byte at the address *)
| CBin (op : cop) (a b : cexpr)
| CNot (a : cexpr)                (* bitwise complement *)
| CLNot (a : cexpr).              (* logical not *)
Inductive cstmt :=
| CSkip
| CAssign (x : nat) (e : cexpr)
| CSeq (a b : cstmt)
| CIf (c : cexpr) (a b : cstmt)
| CWhile (c : cexpr) (body : cstmt).

Definition cenv := nat -> Z.
Definition cmem := Z -> Z.
Definition set (e : cenv) (x : nat) (v : Z) : cenv := fun y => if Nat.eqb y x then v else e y.
Inductive obs := OBranch (b : bool) | OAddr (a : Z).

Definition cop_eval (op : cop) (a b : Z) : Z :=
  match op with
  | OXor => Z.lxor a b | OOr => Z.lor a b | OAnd => Z.land a b | OSub => a - b | OAdd => a + b
  | OShr => Z.shiftr a b | OLt => if a <? b then 1 else 0 | ONe => if a =? b then 0 else 1 | OMul => a * b
  end.
(* value and leakage of an expression *)
Fixpoint ceval (e : cexpr) (env : cenv) (m : cmem) : Z * list obs :=
  match e with
  | CConst z => (z, [])
  | CVar x => (env x, [])
  | CLoad a => let '(va, la) := ceval a env m in (m va, la ++ [OAddr va])
  | CBin op a b => let '(va, la) := ceval a env m in let '(vb, lb) := ceval b env m in (cop_eval op va vb, la ++ lb)
  | CNot a => let '(va, la) := ceval a env m in (Z.lnot va, la)
  | CLNot a => let '(va, la) := ceval a env m in ((if va =? 0 then 1 else 0), la)
  end.
Fixpoint cexec (fuel : nat) (s : cstmt) (env : cenv) (m : cmem) : option (cenv * list obs) :=
  match fuel with
  | O => None
  | S f =>
      match s with
      | CSkip => Some (env, [])
      | CAssign x e => let '(v, l) := ceval e env m in Some (set env x v, l)
      | CSeq a b => match cexec f a env m with
                    | Some (env1, l1) => match cexec f b env1 m with Some (env2, l2) => Some (env2, l1 ++ l2) | None => None end
                    | None => None end
      | CIf c a b => let '(v, l) := ceval c env m in
                     match cexec f (if v =? 0 then b else a) env m with
                     | Some (env1, l1) => Some (env1, l ++ OBranch (negb (v =? 0)) :: l1) | None => None end
      | CWhile c body => let '(v, l) := ceval c env m in
                     if v =? 0 then Some (env, l ++ [OBranch false])
                     else match cexec f body env m with
                          | Some (env1, l1) => match cexec f (CWhile c body) env1 m with
                                               | Some (env2, l2) => Some (env2, l ++ OBranch true :: l1 ++ l2) | None => None end
                          | None => None end
      end
  end.

(* ---------------- secrecy types ---------------- *)
Inductive lvl := Pub | Sec.
Definition join (a b : lvl) : lvl := match a, b with Pub, Pub => Pub | _, _ => Sec end.
Definition leb_lvl (a b : lvl) : bool := match a, b with Sec, Pub => false | _, _ => true end.
Definition tenv := nat -> lvl.
(* None: ill-typed (an address depends on a secret) *)
Fixpoint ety (G : tenv) (e : cexpr) : option lvl :=
  match e with
  | CConst _ => Some Pub
  | CVar x => Some (G x)
  | CLoad a => match ety G a with Some Pub => Some Sec | _ => None end     (* memory contents are secret *)
  | CBin _ a b => match ety G a, ety G b with Some x, Some y => Some (join x y) | _, _ => None end
  | CNot a | CLNot a => ety G a
  end.
Fixpoint sty (G : tenv) (s : cstmt) : bool :=
  match s with
  | CSkip => true
  | CAssign x e => match ety G e with Some l => leb_lvl l (G x) | None => false end
  | CSeq a b => sty G a && sty G b
  | CIf c a b => match ety G c with Some Pub => sty G a && sty G b | _ => false end
  | CWhile c body => match ety G c with Some Pub => sty G body | _ => false end
  end.

Definition pub_eq (G : tenv) (e1 e2 : cenv) : Prop := forall x, G x = Pub -> e1 x = e2 x.

Lemma ety_pub_value G e : ety G e = Some Pub -> forall r1 r2 m1 m2, pub_eq G r1 r2 ->
  fst (ceval e r1 m1) = fst (ceval e r2 m2).
Proof.
  induction e; cbn; intros Ht r1 r2 m1 m2 Hp; auto.
  - inversion Ht. auto.
  - destruct (ety G e) as [[|]|]; discriminate.
  - destruct (ety G e1) as [[|]|] eqn:E1; destruct (ety G e2) as [[|]|] eqn:E2; try discriminate.
    specialize (IHe1 eq_refl r1 r2 m1 m2 Hp). specialize (IHe2 eq_refl r1 r2 m1 m2 Hp).
    destruct (ceval e1 r1 m1), (ceval e1 r2 m2), (ceval e2 r1 m1), (ceval e2 r2 m2). cbn in *. subst. reflexivity.
  - specialize (IHe Ht r1 r2 m1 m2 Hp). destruct (ceval e r1 m1), (ceval e r2 m2). cbn in *. subst. reflexivity.
  - specialize (IHe Ht r1 r2 m1 m2 Hp). destruct (ceval e r1 m1), (ceval e r2 m2). cbn in *. subst. reflexivity.
Qed.
Lemma ety_leak G e : forall l, ety G e = Some l -> forall r1 r2 m1 m2, pub_eq G r1 r2 ->
  snd (ceval e r1 m1) = snd (ceval e r2 m2).
Proof.
  induction e; cbn; intros l Ht r1 r2 m1 m2 Hp; auto.
  - destruct (ety G e) as [[|]|] eqn:E; try discriminate.
    pose proof (ety_pub_value G e E r1 r2 m1 m2 Hp) as V. specialize (IHe Pub eq_refl r1 r2 m1 m2 Hp).
    destruct (ceval e r1 m1), (ceval e r2 m2). cbn in *. subst. reflexivity.
  - destruct (ety G e1) as [x|] eqn:E1; [|discriminate]. destruct (ety G e2) as [y|] eqn:E2; [|discriminate].
    specialize (IHe1 x eq_refl r1 r2 m1 m2 Hp). specialize (IHe2 y eq_refl r1 r2 m1 m2 Hp).
    destruct (ceval e1 r1 m1), (ceval e1 r2 m2), (ceval e2 r1 m1), (ceval e2 r2 m2). cbn in *. subst. reflexivity.
  - specialize (IHe l Ht r1 r2 m1 m2 Hp). destruct (ceval e r1 m1), (ceval e r2 m2). cbn in *. auto.
  - specialize (IHe l Ht r1 r2 m1 m2 Hp). destruct (ceval e r1 m1), (ceval e r2 m2). cbn in *. auto.
Qed.

Lemma set_pub_eq G e1 e2 x v1 v2 : pub_eq G e1 e2 -> (G x = Pub -> v1 = v2) -> pub_eq G (set e1 x v1) (set e2 x v2).
Proof. intros Hp Hv y Hy. unfold set. destruct (Nat.eqb_spec y x); subst; auto. Qed.

(* noninterference for leakage: same observations, public parts of the final environments agree *)
Theorem ct_noninterference G : forall fuel s e1 e2 m1 m2, sty G s = true -> pub_eq G e1 e2 ->
  match cexec fuel s e1 m1, cexec fuel s e2 m2 with
  | Some (f1, l1), Some (f2, l2) => l1 = l2 /\ pub_eq G f1 f2
  | None, None => True
  | _, _ => False
  end.
Proof.
  induction fuel as [|fuel IH]; intros s e1 e2 m1 m2 Ht Hp; cbn; auto.
  destruct s as [|x e|a b|c a b|c body]; cbn in Ht.
  - split; auto.
  - destruct (ety G e) as [l|] eqn:E; [|discriminate].
    pose proof (ety_leak G e l E e1 e2 m1 m2 Hp) as L.
    destruct (ceval e e1 m1) as [v1 l1] eqn:C1, (ceval e e2 m2) as [v2 l2] eqn:C2. cbn in L. split; auto.
    apply set_pub_eq; auto. intros Hx. destruct l; [|rewrite Hx in Ht; discriminate].
    pose proof (ety_pub_value G e E e1 e2 m1 m2 Hp) as V. rewrite C1, C2 in V. exact V.
  - apply andb_prop in Ht. destruct Ht as [Ha Hb].
    specialize (IH a e1 e2 m1 m2 Ha Hp) as IA.
    destruct (cexec fuel a e1 m1) as [[f1 l1]|], (cexec fuel a e2 m2) as [[f2 l2]|]; auto; try contradiction.
    destruct IA as [-> Hp']. specialize (IH b f1 f2 m1 m2 Hb Hp') as IB.
    destruct (cexec fuel b f1 m1) as [[g1 k1]|], (cexec fuel b f2 m2) as [[g2 k2]|]; auto. destruct IB as [-> ?]. auto.
  - destruct (ety G c) as [[|]|] eqn:E; try discriminate. apply andb_prop in Ht. destruct Ht as [Ha Hb].
    pose proof (ety_leak G c Pub E e1 e2 m1 m2 Hp) as L. pose proof (ety_pub_value G c E e1 e2 m1 m2 Hp) as V.
    destruct (ceval c e1 m1) as [v1 l1], (ceval c e2 m2) as [v2 l2]. cbn in L, V. subst.
    assert (Hs : sty G (if v2 =? 0 then b else a) = true) by (destruct (v2 =? 0); auto).
    specialize (IH _ e1 e2 m1 m2 Hs Hp).
    destruct (cexec fuel (if v2 =? 0 then b else a) e1 m1) as [[f1 k1]|], (cexec fuel (if v2 =? 0 then b else a) e2 m2) as [[f2 k2]|]; auto.
    destruct IH as [-> ?]. auto.
  - destruct (ety G c) as [[|]|] eqn:E; try discriminate.
    pose proof (ety_leak G c Pub E e1 e2 m1 m2 Hp) as L. pose proof (ety_pub_value G c E e1 e2 m1 m2 Hp) as V.
    destruct (ceval c e1 m1) as [v1 l1], (ceval c e2 m2) as [v2 l2]. cbn in L, V. subst.
    destruct (v2 =? 0); [split; auto|].
    specialize (IH body e1 e2 m1 m2 Ht Hp) as IB.
    destruct (cexec fuel body e1 m1) as [[f1 k1]|], (cexec fuel body e2 m2) as [[f2 k2]|]; auto; try contradiction.
    destruct IB as [-> Hp'].
    assert (Hw : sty G (CWhile c body) = true) by (cbn; rewrite E; exact Ht).
    specialize (IH (CWhile c body) f1 f2 m1 m2 Hw Hp') as IW.
    destruct (cexec fuel (CWhile c body) f1 m1) as [[g1 j1]|], (cexec fuel (CWhile c body) f2 m2) as [[g2 j2]|]; auto.
    destruct IW as [-> ?]. auto.
Qed.

(* type inference: the least assignment of levels; vars 0..n-1; [pub] lists the variables that hold
   public inputs (lengths, pointers) and must stay public *)
Fixpoint assigned_sec (G : tenv) (s : cstmt) (x : nat) : bool :=
  match s with
  | CSkip => false
  | CAssign y e => Nat.eqb x y && match ety G e with Some Pub => false | _ => true end
  | CSeq a b | CIf _ a b => assigned_sec G a x || assigned_sec G b x
  | CWhile _ b => assigned_sec G b x
  end.
(* the environment is materialised as a list in every round (closures would re-evaluate exponentially) *)
Definition of_list (l : list lvl) : tenv := fun x => nth x l Pub.
Fixpoint infer (rounds nvars : nat) (s : cstmt) (l : list lvl) : list lvl :=
  match rounds with
  | O => l
  | S r => infer r nvars s
             (map (fun x => match nth x l Pub with Sec => Sec | Pub => if assigned_sec (of_list l) s x then Sec else Pub end) (seq 0 nvars))
  end.
Definition ct_check (nvars : nat) (s : cstmt) : bool := sty (of_list (infer nvars nvars s (repeat Pub nvars))) s.
(* whatever the inference computes, a successful check is a typing derivation *)
Corollary ct_check_sound nvars s : ct_check nvars s = true ->
  forall fuel e m1 m2,
  match cexec fuel s e m1, cexec fuel s e m2 with
  | Some (_, l1), Some (_, l2) => l1 = l2
  | None, None => True
  | _, _ => False
  end.
Proof.
  intros H fuel e m1 m2. pose proof (ct_noninterference _ fuel s e e m1 m2 H (fun x _ => eq_refl)) as N.
  destruct (cexec fuel s e m1) as [[? ?]|], (cexec fuel s e m2) as [[? ?]|]; auto. destruct N; auto.
Qed.
