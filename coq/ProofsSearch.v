(* ProofsSearch.v -- C16 (bsearch_s part): for every array sorted with respect to the key and every
   element count, the halving loop finds a matching element iff one exists, and only probes indices
   inside the array. *)
From Coq Require Import List ZArith Lia Bool.
From SC Require Import ModSearch.
Local Open Scope Z_scope.

(* the comparator's view of a sorted array: key > elements, then key = elements, then key < elements *)
Definition sorted_wrt (cmp : Z -> Z) (lo hi : Z) : Prop :=
  forall i j, lo <= i -> i <= j -> j < hi -> (cmp i <= 0 -> cmp j <= 0) /\ (cmp i < 0 -> cmp j < 0).

Lemma bsearch_abs_sound fuel : forall cmp base nmemb r,
  bsearch_abs fuel cmp base nmemb = Some r -> cmp r = 0 /\ base <= r < base + nmemb.
Proof.
  induction fuel as [|f IH]; intros cmp base nmemb r H; cbn in H; [discriminate|].
  destruct (nmemb <=? 0) eqn:E0; [discriminate|]. apply Z.leb_gt in E0.
  assert (Hd : 0 <= nmemb / 2 < nmemb) by (split; [apply Z.div_pos; lia|apply Z.div_lt; lia]).
  destruct (cmp (base + nmemb / 2) =? 0) eqn:E1.
  - inversion H; subst. apply Z.eqb_eq in E1. split; [exact E1|lia].
  - destruct (nmemb =? 1); [discriminate|]. destruct (cmp (base + nmemb / 2) <? 0).
    + destruct (IH _ _ _ _ H) as [A B]. split; [exact A|lia].
    + destruct (IH _ _ _ _ H) as [A B]. split; [exact A|lia].
Qed.

(* every index handed to the comparator lies inside the array *)
Fixpoint probes (fuel : nat) (cmp : Z -> Z) (base nmemb : Z) : list Z :=
  match fuel with
  | O => nil
  | S f =>
      if nmemb <=? 0 then nil
      else let mid := base + nmemb / 2 in
           mid :: (if cmp mid =? 0 then nil else if nmemb =? 1 then nil
                   else if cmp mid <? 0 then probes f cmp base (nmemb / 2) else probes f cmp mid (nmemb - nmemb / 2))
  end.
Lemma probes_in_range fuel : forall cmp base nmemb, Forall (fun j => base <= j < base + nmemb) (probes fuel cmp base nmemb).
Proof.
  induction fuel as [|f IH]; intros cmp base nmemb; cbn; [constructor|].
  destruct (nmemb <=? 0) eqn:E0; [constructor|]. apply Z.leb_gt in E0.
  assert (Hd : 0 <= nmemb / 2 < nmemb) by (split; [apply Z.div_pos; lia|apply Z.div_lt; lia]).
  constructor; [lia|]. destruct (cmp (base + nmemb / 2) =? 0); [constructor|]. destruct (nmemb =? 1); [constructor|].
  destruct (cmp (base + nmemb / 2) <? 0).
  - eapply Forall_impl; [|apply IH]. cbn. intros a Ha. lia.
  - eapply Forall_impl; [|apply IH]. cbn. intros a Ha. lia.
Qed.

Lemma bsearch_abs_complete fuel : forall cmp base nmemb,
  (Z.to_nat nmemb <= fuel)%nat -> sorted_wrt cmp base (base + nmemb) ->
  (exists i, base <= i < base + nmemb /\ cmp i = 0) -> bsearch_abs fuel cmp base nmemb <> None.
Proof.
  induction fuel as [|f IH]; intros cmp base nmemb Hf Hs (i & Hi & Hz).
  - assert (nmemb <= 0) by lia. lia.
  - cbn. destruct (nmemb <=? 0) eqn:E0; [apply Z.leb_le in E0; lia|]. apply Z.leb_gt in E0.
    assert (Hd : 0 <= nmemb / 2 < nmemb) by (split; [apply Z.div_pos; lia|apply Z.div_lt; lia]).
    set (mid := base + nmemb / 2).
    destruct (cmp mid =? 0) eqn:E1; [discriminate|]. apply Z.eqb_neq in E1.
    destruct (nmemb =? 1) eqn:E2.
    { apply Z.eqb_eq in E2. exfalso. assert (i = mid) by (unfold mid; rewrite E2; cbn; lia). subst i. contradiction. }
    apply Z.eqb_neq in E2.
    assert (H2 : 1 <= nmemb / 2) by (apply Z.div_le_lower_bound; lia).
    destruct (cmp mid <? 0) eqn:E3.
    + apply Z.ltb_lt in E3. apply IH.
      * lia.
      * intros a b Ha Hab Hb. apply Hs; lia.
      * exists i. split; [|exact Hz]. destruct (Z_lt_le_dec i mid) as [Hlt|Hge]; [unfold mid in Hlt; lia|].
        exfalso. destruct (Hs mid i ltac:(unfold mid; lia) Hge ltac:(lia)) as [_ H3]. specialize (H3 E3). lia.
    + apply Z.ltb_ge in E3. apply IH.
      * assert (nmemb - nmemb / 2 < nmemb) by lia. lia.
      * intros a b Ha Hab Hb. apply Hs; unfold mid in *; lia.
      * exists i. split; [|exact Hz]. destruct (Z_lt_le_dec i mid) as [Hlt|Hge]; [|unfold mid in *; lia].
        exfalso. destruct (Hs i mid ltac:(lia) ltac:(lia) ltac:(unfold mid; lia)) as [H3 _]. rewrite Hz in H3. specialize (H3 (Z.le_refl 0)). lia.
Qed.

(* ---- the program-level model computes the abstract search over the bytewise comparator ---- *)
From SC Require Import Base Wp.
Fixpoint memcmp_val (k : nat) (m : mem) (a b : Z) : Z :=
  match k with
  | O => 0
  | S k' => if m a <? m b then -1 else if m b <? m a then 1 else memcmp_val k' m (a + 1) (b + 1)
  end.
Lemma memcmp_prog_wp k : forall a b m (Q : Z -> mem -> Prop), Q (memcmp_val k m a b) m -> wp (memcmp_prog k a b) m Q.
Proof.
  induction k as [|k IH]; intros a b m Q HQ; cbn [memcmp_prog wp memcmp_val] in *; [exact HQ|].
  rewrite !load1. destruct (m a <? m b); [exact HQ|]. destruct (m b <? m a); [exact HQ|]. apply IH. exact HQ.
Qed.
Lemma bsearch_loop_abs fuel : forall key b0 size base nmemb m,
  let cmp := fun j => memcmp_val (Z.to_nat (Z.min size 4)) m key (b0 + size * j) in
  wp (bsearch_loop fuel key (b0 + size * base) nmemb size) m (fun r m' =>
     m' = m /\ r = match bsearch_abs fuel cmp base nmemb with Some j => b0 + size * j | None => 0 end).
Proof.
  induction fuel as [|f IH]; intros key b0 size base nmemb m cmp; cbn [bsearch_loop bsearch_abs wp].
  - split; reflexivity.
  - destruct (nmemb <=? 0); [cbn; split; reflexivity|].
    apply wp_bind. apply memcmp_prog_wp.
    replace (b0 + size * base + size * (nmemb / 2)) with (b0 + size * (base + nmemb / 2)) by lia.
    fold (cmp (base + nmemb / 2)). destruct (cmp (base + nmemb / 2) =? 0); [cbn; split; reflexivity|].
    destruct (nmemb =? 1); [cbn; split; reflexivity|].
    destruct (cmp (base + nmemb / 2) <? 0); apply IH.
Qed.
