(* ProofsTokSeq.v -- functional correctness of the tokeniser models (C14): one call of
   strtok_s / wcstok_s on a terminated string delivers the next reference token (SpecTok.ref_call),
   terminates it inside the buffer, overwrites at most that one delimiter, and leaves the saved
   pointer / remaining length describing the rest of the string; hence a whole call sequence
   is the reference sequence, for every string, every delimiter set per call, every dmax > strlen. *)
From Coq Require Import List ZArith Lia Bool.
From SC Require Import Base Wp Cfg Comb CombProofs ModTok SpecTok.
Import ListNotations.
Local Open Scope Z_scope.
Local Open Scope prog_scope.

Definition zlen (s : list Z) : Z := Z.of_nat (length s).
Definition chars_ok (s : list Z) : Prop := Forall (fun ch => ch <> 0) s.

Section TokSeq.
  Variables (c : cfg) (w : Z) (wide : bool) (dmaxp ptr : Z).
  Hypothesis Hw : 0 < w.
  Notation elem m a := (load m w a).

  (* the elements of s at p, p+w, ..., followed by a zero element *)
  Definition str_at (m : mem) (p : Z) (s : list Z) : Prop :=
    (forall j, (j < length s)%nat -> elem m (p + Z.of_nat j * w) = nth j s 0) /\
    elem m (p + zlen s * w) = 0.

  Lemma str_at_nil m p : str_at m p [] <-> elem m p = 0.
  Proof. unfold str_at, zlen. cbn. rewrite Z.add_0_r. split; [intros [_ H]; exact H|intros H; split; [intros j Hj; lia|exact H]]. Qed.
  Lemma str_at_cons m p ch s : str_at m p (ch :: s) <-> elem m p = ch /\ str_at m (p + w) s.
  Proof.
    unfold str_at, zlen. cbn [length nth]. rewrite Nat2Z.inj_succ. split.
    - intros [H1 H2]. split; [specialize (H1 O ltac:(lia)); cbn in H1; now rewrite Z.add_0_r in H1|]. split.
      + intros j Hj. specialize (H1 (S j) ltac:(lia)). cbn [nth] in H1. rewrite <- H1. f_equal. rewrite Nat2Z.inj_succ. lia.
      + rewrite <- H2. f_equal. lia.
    - intros [H0 [H1 H2]]. split.
      + intros [|j] Hj; cbn [nth]; [now rewrite Z.add_0_r|]. rewrite <- (H1 j) by lia. f_equal. rewrite Nat2Z.inj_succ. lia.
      + rewrite <- H2. f_equal. lia.
  Qed.
  Lemma str_at_ext m m' p s : (forall x, p <= x < p + (zlen s + 1) * w -> m' x = m x) -> str_at m p s -> str_at m' p s.
  Proof.
    unfold str_at. intros He [H1 H2]. split.
    - intros j Hj. rewrite <- (H1 j Hj). apply load_ext. intros x Hx. apply He. unfold zlen. nia.
    - rewrite <- H2. apply load_ext. intros x Hx. apply He. unfold zlen in *. nia.
  Qed.
  Lemma chars_ok_cons ch s : chars_ok (ch :: s) <-> ch <> 0 /\ chars_ok s.
  Proof. unfold chars_ok. split; [intros H; inversion H; auto|intros [H1 H2]; constructor; auto]. Qed.

  (* ---- membership scan over the delimiter list ---- *)
  Lemma delim_scan_wp : forall dl n pt ch any m (Q : dres -> mem -> Prop),
    str_at m pt dl -> chars_ok dl -> (length dl <= n)%nat ->
    Q (if isdelim dl ch then DFound else DNot (any || nonempty dl)) m ->
    wp (delim_scan w n pt ch any) m Q.
  Proof.
    induction dl as [|d dl IH]; intros n pt ch any m Q Hs Hc Hn HQ.
    - apply str_at_nil in Hs. destruct n; cbn [delim_scan wp]; rewrite Hs; cbn; now rewrite orb_false_r in HQ.
    - apply str_at_cons in Hs. destruct Hs as [Hd Hs]. apply chars_ok_cons in Hc. destruct Hc as [Hd0 Hc].
      destruct n as [|n]; [cbn in Hn; lia|]. cbn [delim_scan wp]. rewrite Hd.
      apply Z.eqb_neq in Hd0. rewrite Hd0. unfold isdelim in HQ. cbn [existsb] in HQ. fold (isdelim dl ch) in HQ.
      destruct (ch =? d); [exact HQ|]. cbn [orb] in HQ.
      apply IH; auto; [cbn in Hn; lia|]. destruct (isdelim dl ch); [exact HQ|].
      cbn [nonempty] in HQ. now rewrite orb_true_r in HQ.
  Qed.

  Section OneDelim.
    Variables (delim : Z) (dl : list Z).
    Hypothesis Hdl : chars_ok dl.
    Hypothesis Hdn : (length dl <= Z.to_nat (tok_delim_max c))%nat.
    Hypothesis Hdne : nonempty dl = true.
    Notation nondelim := (fun ch => negb (isdelim dl ch)).

    (* phase 2 *)
    Lemma tokend_wp : forall s n d tok m (Q : Z -> mem -> Prop),
      str_at m d s -> chars_ok s -> (length s <= n)%nat -> str_at m delim dl ->
      (let '(t, r2) := span nondelim s in
       match r2 with
       | [] => forall pv nv, pv = d + zlen s * w -> nv = Z.of_nat n - zlen s ->
               Q tok (store (store m 8 ptr pv) 8 dmaxp nv)
       | _ :: _ => forall a pv nv, a = d + zlen t * w -> pv = a + w -> nv = Z.of_nat n - zlen t - 1 ->
               Q tok (store (store (store m w a 0) 8 ptr pv) 8 dmaxp nv)
       end) ->
      wp (tokend c w dmaxp ptr delim n d tok) m Q.
    Proof.
      induction s as [|ch s IH]; intros n d tok m Q Hs Hc Hn Hd HQ.
      - apply str_at_nil in Hs. cbn [span] in HQ. destruct n; cbn [tokend wp]; rewrite Hs; cbn [Z.eqb wp];
          apply HQ; unfold zlen; cbn; lia.
      - apply str_at_cons in Hs. destruct Hs as [Hch Hs]. apply chars_ok_cons in Hc. destruct Hc as [Hch0 Hc].
        destruct n as [|n]; [cbn in Hn; lia|]. cbn [tokend wp]. rewrite Hch. apply Z.eqb_neq in Hch0. rewrite Hch0.
        apply wp_bind. apply delim_scan_wp with (dl := dl); auto.
        cbn [span] in HQ. destruct (isdelim dl ch) eqn:E; cbn [negb] in HQ.
        + cbn [wp]. apply HQ; unfold zlen; cbn [length]; lia.
        + apply IH; auto; [cbn in Hn; lia|]. destruct (span nondelim s) as [t r2].
          destruct r2 as [|d2 r3].
          * intros pv nv Hpv Hnv. apply HQ; unfold zlen in *; cbn [length]; lia.
          * intros a pv nv Ha Hpv Hnv. apply HQ; unfold zlen in *; cbn [length]; lia.
    Qed.

    (* phase 1 + phase 2: the call proper, in terms of the reference *)
    Lemma ref_call_delim ch s : isdelim dl ch = true ->
      ref_call dl (ch :: s) = match ref_call dl s with
                              | None => None
                              | Some (sk, tok, rest, b) => Some (ch :: sk, tok, rest, b)
                              end.
    Proof.
      intros E. unfold ref_call. cbn [span]. rewrite E. destruct (span (isdelim dl) s) as [sk r1].
      destruct r1 as [|x r1]; [reflexivity|]. destruct (span nondelim (x :: r1)) as [tok r2]. destruct r2; reflexivity.
    Qed.
    Lemma ref_call_nondelim ch s : isdelim dl ch = false ->
      ref_call dl (ch :: s) = let '(t, r2) := span nondelim s in
                              match r2 with [] => Some ([], ch :: t, [], false) | _ :: r3 => Some ([], ch :: t, r3, true) end.
    Proof.
      intros E. unfold ref_call. cbn [span]. rewrite E. cbn [span]. rewrite E. cbn [negb]. destruct (span nondelim s) as [t r2]. destruct r2; reflexivity.
    Qed.

    Lemma tokskip_wp : forall s n d m (Q : Z -> mem -> Prop),
      str_at m d s -> chars_ok s -> (length s <= n)%nat -> str_at m delim dl ->
      match ref_call dl s with
      | None => forall pv nv, pv = d + zlen s * w -> nv = Z.of_nat n - zlen s ->
                Q 0 (store (store m 8 ptr pv) 8 dmaxp nv)
      | Some (sk, tok, rest, false) => forall pv nv, pv = d + zlen s * w -> nv = Z.of_nat n - zlen s ->
                Q (d + zlen sk * w) (store (store m 8 ptr pv) 8 dmaxp nv)
      | Some (sk, tok, rest, true) => forall a pv nv, a = d + (zlen sk + zlen tok) * w -> pv = a + w ->
                nv = Z.of_nat n - zlen sk - zlen tok - 1 ->
                Q (d + zlen sk * w) (store (store (store m w a 0) 8 ptr pv) 8 dmaxp nv)
      end ->
      wp (tokskip c w wide dmaxp ptr delim n d) m Q.
    Proof.
      induction s as [|ch s IH]; intros n d m Q Hs Hc Hn Hd HQ.
      - apply str_at_nil in Hs. cbn in HQ. destruct n; cbn [tokskip wp]; rewrite Hs; cbn [Z.eqb wp];
          apply HQ; unfold zlen; cbn; lia.
      - apply str_at_cons in Hs. destruct Hs as [Hch Hs]. apply chars_ok_cons in Hc. destruct Hc as [Hch0 Hc].
        destruct n as [|n]; [cbn in Hn; lia|]. cbn [tokskip wp]. rewrite Hch. apply Z.eqb_neq in Hch0. rewrite Hch0.
        apply wp_bind. apply delim_scan_wp with (dl := dl); auto. rewrite Hdne. cbn [orb].
        destruct (isdelim dl ch) eqn:E.
        + rewrite (ref_call_delim ch s E) in HQ. apply IH; auto; [cbn in Hn; lia|].
          destruct (ref_call dl s) as [[[[sk tok] rest] b]|].
          * destruct b.
            -- intros a pv nv Ha Hpv Hnv. replace (d + w + zlen sk * w) with (d + zlen (ch :: sk) * w) by (unfold zlen; cbn [length]; lia).
               apply HQ; unfold zlen in *; cbn [length]; lia.
            -- intros pv nv Hpv Hnv. replace (d + w + zlen sk * w) with (d + zlen (ch :: sk) * w) by (unfold zlen; cbn [length]; lia).
               apply HQ; unfold zlen in *; cbn [length]; lia.
          * intros pv nv Hpv Hnv. apply HQ; unfold zlen in *; cbn [length]; lia.
        + rewrite (ref_call_nondelim ch s E) in HQ. apply tokend_wp with (s := s); auto; [cbn in Hn; lia|].
          destruct (span nondelim s) as [t r2]. destruct r2 as [|d2 r3].
          * intros pv nv Hpv Hnv. replace d with (d + zlen [] * w) at 1 by (unfold zlen; cbn; lia).
            apply HQ; unfold zlen in *; cbn [length]; lia.
          * intros a pv nv Ha Hpv Hnv. replace d with (d + zlen [] * w) at 1 by (unfold zlen; cbn; lia).
            apply HQ; unfold zlen in *; cbn [length]; lia.
    Qed.
  End OneDelim.

  (* ================= one call, as a step of the caller-visible state ================= *)
  Definition elems_at (m : mem) (p : Z) (s : list Z) : Prop :=
    forall j, (j < length s)%nat -> elem m (p + Z.of_nat j * w) = nth j s 0.
  Lemma str_at_elems m p s : str_at m p s <-> elems_at m p s /\ elem m (p + zlen s * w) = 0.
  Proof. reflexivity. Qed.
  Lemma elems_at_app m p a b : elems_at m p (a ++ b) <-> elems_at m p a /\ elems_at m (p + zlen a * w) b.
  Proof.
    unfold elems_at, zlen. split.
    - intros H. split.
      + intros j Hj. rewrite H by (rewrite app_length; lia). now rewrite app_nth1.
      + intros j Hj. specialize (H (length a + j)%nat ltac:(rewrite app_length; lia)).
        rewrite app_nth2 in H by lia. replace (length a + j - length a)%nat with j in H by lia. rewrite <- H. f_equal. rewrite Nat2Z.inj_add. lia.
    - intros [Ha Hb] j Hj. rewrite app_length in Hj. destruct (Nat.lt_ge_cases j (length a)) as [L|G].
      + rewrite app_nth1 by lia. now apply Ha.
      + rewrite app_nth2 by lia. rewrite <- (Hb (j - length a)%nat) by lia. f_equal. rewrite Nat2Z.inj_sub by lia. lia.
  Qed.
  Lemma elems_at_ext m m' p s : (forall x, p <= x < p + zlen s * w -> m' x = m x) -> elems_at m p s -> elems_at m' p s.
  Proof. unfold elems_at, zlen. intros He H j Hj. rewrite <- (H j Hj). apply load_ext. intros x Hx. apply He. nia. Qed.
  Lemma chars_ok_app a b : chars_ok (a ++ b) <-> chars_ok a /\ chars_ok b.
  Proof. unfold chars_ok. apply Forall_app. Qed.

  (* geometry: the string lives in [lo, hi); the two caller variables are 8-byte cells elsewhere *)
  Variables (lo hi : Z).
  Hypothesis Hlo : 0 <= lo.
  Hypothesis Hhi : hi < 256 ^ 8.
  Hypothesis Hptr : ptr + 8 <= lo \/ hi <= ptr.
  Hypothesis Hdmaxp : dmaxp + 8 <= lo \/ hi <= dmaxp.
  Hypothesis Hcells : ptr + 8 <= dmaxp \/ dmaxp + 8 <= ptr.
  Definition cell (a x : Z) : Prop := a <= x < a + 8.

  (* what the caller holds between two calls: *ptr = p, *dmaxp = n, the rest of the string s
     (terminated, strictly shorter than n) at p, and p + n elements ends exactly at hi *)
  Variable nmax : Z.   (* the largest length the entry checks accept (RSIZE_MAX_STR / RSIZE_MAX_WSTR) *)
  Record tok_state0 (m : mem) (p : Z) (n : nat) (s : list Z) : Prop := {
    ts_str : str_at m p s;
    ts_chars : chars_ok s;
    ts_len : (length s < n)%nat;
    ts_dmax : load m 8 dmaxp = Z.of_nat n;
    ts_lo : lo <= p;
    ts_hi : p + Z.of_nat n * w = hi;
    ts_max : Z.of_nat n <= nmax
  }.
  (* between two calls the saved pointer is valid too; before the first call it is not *)
  Definition tok_state (m : mem) (p : Z) (n : nat) (s : list Z) : Prop :=
    tok_state0 m p n s /\ load m 8 ptr = p.

  Lemma cells_out m1 pv nv x : ~ cell ptr x -> ~ cell dmaxp x -> store (store m1 8 ptr pv) 8 dmaxp nv x = m1 x.
  Proof. unfold cell. intros H1 H2. rewrite !store_out by lia. reflexivity. Qed.
  Lemma cells_ptr m1 pv nv : 0 <= pv < 256 ^ 8 -> load (store (store m1 8 ptr pv) 8 dmaxp nv) 8 ptr = pv.
  Proof. intros H. rewrite load_store_other by lia. rewrite load_store_same by lia. apply Z.mod_small. exact H. Qed.
  Lemma cells_dmaxp m1 pv nv : 0 <= nv < 256 ^ 8 -> load (store (store m1 8 ptr pv) 8 dmaxp nv) 8 dmaxp = nv.
  Proof. intros H. rewrite load_store_same by lia. apply Z.mod_small. exact H. Qed.

  Definition tok_post (dl : list Z) (m : mem) (p : Z) (n : nat) (s : list Z) (r : Z) (m' : mem) : Prop :=
    match ref_call dl s with
    | None =>
        r = 0 /\ tok_state m' (p + zlen s * w) (n - length s) [] /\
        (forall x, ~ cell ptr x -> ~ cell dmaxp x -> m' x = m x)
    | Some (sk, tok, rest, b) =>
        r = p + zlen sk * w /\ lo <= r /\ r + (zlen tok + 1) * w <= hi /\
        str_at m' r tok /\
        tok_state m' (r + (zlen tok + (if b then 1 else 0)) * w)
                     (n - length sk - length tok - (if b then 1 else 0)) rest /\
        (* only the delimiter that ended the token is overwritten (by a terminator) *)
        (forall x, ~ cell ptr x -> ~ cell dmaxp x ->
                   ~ (b = true /\ r + zlen tok * w <= x < r + zlen tok * w + w) -> m' x = m x)
    end.

  Lemma tok_call_spec dl delim m p n s :
    chars_ok dl -> (length dl <= Z.to_nat (tok_delim_max c))%nat -> nonempty dl = true ->
    str_at m delim dl -> tok_state0 m p n s ->
    wp (tokskip c w wide dmaxp ptr delim n p) m (tok_post dl m p n s).
  Proof.
    intros Hdl Hdn Hdne Hd [Hs Hc Hn Hdm Hl Hh Hmx].
    apply tokskip_wp with (dl := dl) (s := s); auto; [lia|].
    unfold tok_post. pose proof (ref_call_tok dl s) as HT.
    assert (Hnz : 0 <= zlen s) by (unfold zlen; lia).
    destruct (ref_call dl s) as [[[[sk tok] rest] b]|].
    - specialize (HT _ _ _ _ eq_refl). destruct HT as (Htne & Htok & Hsk & Hsplit).
      destruct b.
      + destruct Hsplit as (dch & Hdch & ->).
        intros a pv nv -> -> ->. set (r := p + zlen sk * w). set (a := p + (zlen sk + zlen tok) * w).
        apply str_at_elems in Hs. destruct Hs as [He Hz]. apply elems_at_app in He. destruct He as [Hesk He].
        apply elems_at_app in He. destruct He as [Hetok He]. change (dch :: rest) with ([dch] ++ rest) in He.
        apply elems_at_app in He. destruct He as [_ Herest].
        apply chars_ok_app in Hc. destruct Hc as [_ Hc]. apply chars_ok_app in Hc. destruct Hc as [_ Hc].
        change (dch :: rest) with ([dch] ++ rest) in Hc. apply chars_ok_app in Hc. destruct Hc as [_ Hcrest].
        unfold zlen in *. rewrite !app_length in *. cbn [length] in *.
        rewrite !Nat2Z.inj_add in *. change (Z.of_nat 1) with 1 in *.
        assert (Hr : r = p + Z.of_nat (length sk) * w) by reflexivity.
        assert (Ha : a = r + Z.of_nat (length tok) * w) by (unfold a, r; lia).
        split; [reflexivity|]. split; [nia|]. split; [nia|].
        assert (Hout : forall x, ~ cell ptr x -> ~ cell dmaxp x -> ~ (a <= x < a + w) ->
                 store (store (store m w a 0) 8 ptr (a + w)) 8 dmaxp (Z.of_nat n - Z.of_nat (length sk) - Z.of_nat (length tok) - 1) x = m x).
        { intros x H1 H2 H3. rewrite cells_out by auto. apply store_out. exact H3. }
        assert (Hin : forall x, lo <= x < hi -> ~ cell ptr x /\ ~ cell dmaxp x) by (unfold cell; intros; lia).
        split; [|split].
        * (* the token, terminated where the delimiter was *)
          apply str_at_elems. split.
          -- eapply elems_at_ext; [|exact Hetok]. intros x Hx. unfold zlen in Hx. apply Hout; try apply Hin; nia.
          -- unfold zlen. rewrite <- Ha. rewrite (load_ext _ (store m w a 0)).
             ++ rewrite load_store_same by lia. apply Z.mod_0_l. apply Z.pow_nonzero; lia.
             ++ intros x Hx. apply cells_out; apply Hin; nia.
        * (* the caller state for the next call *)
          replace (r + (Z.of_nat (length tok) + 1) * w) with (a + w) by lia.
          split; [constructor|].
          -- apply str_at_elems. split.
             ++ eapply elems_at_ext; [|replace (a + w) with (p + Z.of_nat (length sk) * w + Z.of_nat (length tok) * w + 1 * w) by (unfold a; lia); exact Herest].
                intros x Hx. unfold zlen in Hx. apply Hout; try apply Hin; nia.
             ++ unfold zlen. match type of Hz with load m w ?q = 0 => replace (a + w + Z.of_nat (length rest) * w) with q by (unfold a; lia) end.
                etransitivity; [|exact Hz].
                apply load_ext. intros x Hx. apply Hout; try apply Hin; nia.
          -- exact Hcrest.
          -- lia.
          -- rewrite cells_dmaxp by nia. lia.
          -- nia.
          -- rewrite <- Hh. nia.
          -- lia.
          -- apply cells_ptr. nia.
        * intros x H1 H2 H3. apply Hout; auto. rewrite Ha. intros H4. apply H3. split; [reflexivity|lia].
      + destruct Hsplit as (-> & ->).
        intros pv nv -> ->.
        apply str_at_elems in Hs. destruct Hs as [He Hz]. apply elems_at_app in He. destruct He as [Hesk Hetok].
        unfold zlen in *. rewrite !app_length in *. rewrite !Nat2Z.inj_add in *.
        set (r := p + Z.of_nat (length sk) * w) in *.
        assert (Hin : forall x, lo <= x < hi -> ~ cell ptr x /\ ~ cell dmaxp x) by (unfold cell; intros; lia).
        split; [reflexivity|]. split; [nia|]. split; [nia|].
        split; [|split].
        * apply str_at_elems. split.
          -- eapply elems_at_ext; [|exact Hetok]. intros x Hx. unfold zlen in Hx. apply cells_out; apply Hin; nia.
          -- rewrite <- Hz. unfold zlen. replace (r + Z.of_nat (length tok) * w) with (p + (Z.of_nat (length sk) + Z.of_nat (length tok)) * w) by (unfold r; lia).
             apply load_ext. intros x Hx. apply cells_out; apply Hin; nia.
        * replace (r + (Z.of_nat (length tok) + 0) * w) with (p + (Z.of_nat (length sk) + Z.of_nat (length tok)) * w) by (unfold r; lia).
          split; [constructor|].
          -- apply str_at_nil. rewrite <- Hz. apply load_ext. intros x Hx. apply cells_out; apply Hin; nia.
          -- constructor.
          -- cbn. lia.
          -- rewrite cells_dmaxp by nia. lia.
          -- nia.
          -- rewrite <- Hh. nia.
          -- lia.
          -- apply cells_ptr. nia.
        * intros x H1 H2 _. apply cells_out; auto.
    - intros pv nv -> ->. unfold zlen in *.
      assert (Hin : forall x, lo <= x < hi -> ~ cell ptr x /\ ~ cell dmaxp x) by (unfold cell; intros; lia).
      destruct Hs as [_ Hz]. unfold zlen in Hz.
      split; [reflexivity|]. split.
      + split; [constructor|].
        * apply str_at_nil. rewrite <- Hz. apply load_ext. intros x Hx. apply cells_out; apply Hin; nia.
        * constructor.
        * cbn. lia.
        * rewrite cells_dmaxp by nia. lia.
        * nia.
        * rewrite <- Hh. nia.
        * lia.
        * apply cells_ptr. nia.
      + intros x H1 H2. apply cells_out; auto.
  Qed.
End TokSeq.

(* ================= the entry points ================= *)
Section Entry.
  Variables (c : cfg) (dmaxp ptr lo hi : Z).
  Hypothesis Hlo : 0 < lo.
  Hypothesis Hhi : hi < 256 ^ 8.
  Hypothesis Hptr : ptr + 8 <= lo \/ hi <= ptr.
  Hypothesis Hdmaxp : dmaxp + 8 <= lo \/ hi <= dmaxp.
  Hypothesis Hcells : ptr + 8 <= dmaxp \/ dmaxp + 8 <= ptr.
  Hypothesis Hptr0 : ptr <> 0.
  Hypothesis Hdmaxp0 : dmaxp <> 0.

  Ltac neq0 H := let E := fresh in assert (E := H); apply Z.eqb_neq in E; rewrite E; clear E.

  Section Narrow.
    Variables (nmax bos : Z).
    Hypothesis Hnmax : nmax <= rmax_str c.
    Hypothesis Hbos : bos = BOS_UNKNOWN \/ nmax <= bos.
    Notation st0 := (tok_state0 1 dmaxp lo hi nmax).
    Notation st := (tok_state 1 dmaxp ptr lo hi nmax).
    Notation post := (tok_post 1 dmaxp ptr lo hi nmax).

    Lemma strtok_s_first m p n s dl delim :
      delim <> 0 -> chars_ok dl -> (length dl <= Z.to_nat (tok_delim_max c))%nat -> nonempty dl = true ->
      str_at 1 m delim dl -> st0 m p n s ->
      wp (strtok_s c p dmaxp delim ptr bos) m (post dl m p n s).
    Proof.
      intros Hd0 Hdl Hdn Hdne Hd Hst. pose proof Hst as [Hs Hc Hn Hdm Hl Hh Hmx].
      unfold strtok_s. neq0 Hdmaxp0. cbn [wp]. rewrite Hdm.
      assert (Hn0 : Z.of_nat n <> 0) by lia. neq0 Hn0. neq0 Hd0. neq0 Hptr0.
      assert (Hp0 : p <> 0) by lia. neq0 Hp0. rewrite Nat2Z.id.
      destruct Hbos as [->|Hbos'].
      - cbn [Z.eqb orb]. replace (BOS_UNKNOWN =? BOS_UNKNOWN) with true by reflexivity. cbn [orb].
        replace (rmax_str c <? Z.of_nat n) with false by (symmetry; apply Z.ltb_ge; lia).
        apply tok_call_spec; auto; lia.
      - rewrite orb_false_r. destruct (bos =? BOS_UNKNOWN).
        + replace (rmax_str c <? Z.of_nat n) with false by (symmetry; apply Z.ltb_ge; lia).
          apply tok_call_spec; auto; lia.
        + replace (bos <? Z.of_nat n) with false by (symmetry; apply Z.ltb_ge; lia).
          apply tok_call_spec; auto; lia.
    Qed.

    Lemma strtok_s_next m p n s dl delim :
      delim <> 0 -> chars_ok dl -> (length dl <= Z.to_nat (tok_delim_max c))%nat -> nonempty dl = true ->
      str_at 1 m delim dl -> st m p n s ->
      wp (strtok_s c 0 dmaxp delim ptr bos) m (post dl m p n s).
    Proof.
      intros Hd0 Hdl Hdn Hdne Hd [Hst Hp]. pose proof Hst as [Hs Hc Hn Hdm Hl Hh Hmx].
      unfold strtok_s. neq0 Hdmaxp0. cbn [wp]. rewrite Hdm.
      assert (Hn0 : Z.of_nat n <> 0) by lia. neq0 Hn0. neq0 Hd0. neq0 Hptr0.
      cbn [Z.eqb wp]. rewrite Hp. assert (Hp0 : p <> 0) by lia. neq0 Hp0. rewrite Nat2Z.id.
      rewrite orb_true_r.
      replace (rmax_str c <? Z.of_nat n) with false by (symmetry; apply Z.ltb_ge; lia).
      apply tok_call_spec; auto; lia.
    Qed.
  End Narrow.

  Section Wide.
    Hypothesis Hww : 0 < wchar_w c.
    Notation w := (wchar_w c).
    Variables (nmax bos : Z).
    Hypothesis Hnmax : nmax <= rmax_wstr c.
    Hypothesis Hbos : bos = BOS_UNKNOWN \/ nmax * w <= bos.
    Notation st0 := (tok_state0 w dmaxp lo hi nmax).
    Notation st := (tok_state w dmaxp ptr lo hi nmax).
    Notation post := (tok_post w dmaxp ptr lo hi nmax).

    Lemma wcstok_s_first m p n s dl delim :
      delim <> 0 -> chars_ok dl -> (length dl <= Z.to_nat (tok_delim_max c))%nat -> nonempty dl = true ->
      str_at w m delim dl -> st0 m p n s ->
      wp (wcstok_s c p dmaxp delim ptr bos) m (post dl m p n s).
    Proof.
      intros Hd0 Hdl Hdn Hdne Hd Hst. pose proof Hst as [Hs Hc Hn Hdm Hl Hh Hmx].
      unfold wcstok_s. neq0 Hdmaxp0. cbn [wp]. rewrite Hdm.
      assert (Hn0 : Z.of_nat n <> 0) by lia. neq0 Hn0.
      replace (rmax_wstr c <? Z.of_nat n) with false by (symmetry; apply Z.ltb_ge; lia).
      neq0 Hd0. neq0 Hptr0.
      assert (Hp0 : p <> 0) by lia. neq0 Hp0. rewrite Nat2Z.id. rewrite orb_false_r.
      destruct (bos =? BOS_UNKNOWN) eqn:E.
      - apply tok_call_spec; auto; lia.
      - destruct Hbos as [->|Hbos']; [discriminate E|].
        replace (bos <? Z.of_nat n * w) with false by (symmetry; apply Z.ltb_ge; nia).
        apply tok_call_spec; auto; lia.
    Qed.

    Lemma wcstok_s_next m p n s dl delim :
      delim <> 0 -> chars_ok dl -> (length dl <= Z.to_nat (tok_delim_max c))%nat -> nonempty dl = true ->
      str_at w m delim dl -> st m p n s ->
      wp (wcstok_s c 0 dmaxp delim ptr bos) m (post dl m p n s).
    Proof.
      intros Hd0 Hdl Hdn Hdne Hd [Hst Hp]. pose proof Hst as [Hs Hc Hn Hdm Hl Hh Hmx].
      unfold wcstok_s. neq0 Hdmaxp0. cbn [wp]. rewrite Hdm.
      assert (Hn0 : Z.of_nat n <> 0) by lia. neq0 Hn0.
      replace (rmax_wstr c <? Z.of_nat n) with false by (symmetry; apply Z.ltb_ge; lia).
      neq0 Hd0. neq0 Hptr0.
      cbn [Z.eqb wp]. rewrite Hp. assert (Hp0 : p <> 0) by lia. neq0 Hp0. rewrite Nat2Z.id.
      rewrite orb_true_r.
      apply tok_call_spec; auto; lia.
    Qed.
  End Wide.
End Entry.

(* ================= whole call sequences ================= *)
Lemma Forall2_impl' {A B} (R R' : A -> B -> Prop) : (forall a b, R a b -> R' a b) ->
  forall l l', Forall2 R l l' -> Forall2 R' l l'.
Proof. intros H l l' F. induction F; constructor; auto. Qed.
Section Sequence.
  Variables (w dmaxp ptr lo hi nmax dmaxlen : Z).
  Hypothesis Hw : 0 < w.
  Hypothesis Hlo : 0 < lo.
  Hypothesis Hptr : ptr + 8 <= lo \/ hi <= ptr.
  Hypothesis Hdmaxp : dmaxp + 8 <= lo \/ hi <= dmaxp.
  Notation st := (tok_state w dmaxp ptr lo hi nmax).
  Notation post := (tok_post w dmaxp ptr lo hi nmax).
  Notation cellp := (cell ptr).
  Notation celld := (cell dmaxp).

  (* a delimiter list in memory: (address, contents), away from the string and the two cells *)
  Definition delim_ok (m : mem) (d : Z * list Z) : Prop :=
    fst d <> 0 /\ chars_ok (snd d) /\ (length (snd d) <= Z.to_nat dmaxlen)%nat /\ nonempty (snd d) = true /\
    str_at w m (fst d) (snd d) /\
    (fst d + (zlen (snd d) + 1) * w <= lo \/ hi <= fst d) /\
    (fst d + (zlen (snd d) + 1) * w <= ptr \/ ptr + 8 <= fst d) /\
    (fst d + (zlen (snd d) + 1) * w <= dmaxp \/ dmaxp + 8 <= fst d).

  Notation st0 := (tok_state0 w dmaxp lo hi nmax).
  Variable f : Z -> Z -> prog Z.    (* f dest delim: one call with the fixed dmaxp, ptr, destbos *)
  (* the first call passes the string (and *ptr is not yet meaningful), the later ones pass NULL *)
  Definition call_state (dest : Z) (m : mem) (p : Z) (n : nat) (s : list Z) : Prop :=
    (dest = p /\ st0 m p n s) \/ (dest = 0 /\ st m p n s).
  Hypothesis Hcall : forall dest m p n s d, delim_ok m d -> call_state dest m p n s ->
    wp (f dest (fst d)) m (post (snd d) m p n s).

  Fixpoint calls (dest : Z) (dps : list Z) : prog (list Z) :=
    match dps with
    | [] => Ret []
    | dp :: r => x <- f dest dp ;; xs <- calls 0 r ;; Ret (x :: xs)
    end.

  (* result r of a call against the reference: NULL, or the address of the token, which is
     a terminated string inside the buffer *)
  Definition tok_res (m' : mem) (p : Z) (r : Z) (o : option (list Z)) : Prop :=
    match o with
    | None => r = 0
    | Some tok => p <= r /\ r + (zlen tok + 1) * w <= hi /\ str_at w m' r tok
    end.

  Lemma delim_ok_ext m m' p s d : p + zlen s * w <= hi -> lo <= p ->
    (forall x, ~ cellp x -> ~ celld x -> ~ (p <= x < p + zlen s * w) -> m' x = m x) ->
    delim_ok m d -> delim_ok m' d.
  Proof.
    intros Hph Hpl Hf (H1 & H2 & H3 & H4 & H5 & H6 & H7 & H8).
    split; [exact H1|]. split; [exact H2|]. split; [exact H3|]. split; [exact H4|]. split; [|auto].
    eapply str_at_ext; [exact Hw| |exact H5]. intros x Hx. apply Hf; unfold cell; lia.
  Qed.

  Lemma calls_spec : forall dps dest m p n s,
    Forall (delim_ok m) dps -> call_state dest m p n s ->
    wp (calls dest (map fst dps)) m (fun rs m' =>
      (forall x, ~ cellp x -> ~ celld x -> ~ (p <= x < p + zlen s * w) -> m' x = m x) /\
      Forall2 (tok_res m' p) rs (ref_seq (map snd dps) s)).
  Proof.
    induction dps as [|d dps IH]; intros dest m p n s Hds Hst.
    - cbn. split; [auto|constructor].
    - cbn [map calls ref_seq]. inversion Hds as [|? ? Hd Hds']; subst. apply wp_bind.
      eapply wp_weaken; [|apply Hcall; eauto].
      intros r m1. unfold tok_post. pose proof (ref_call_tok (snd d) s) as HT.
      assert (Hst0 : st0 m p n s) by (destruct Hst as [[_ H]|[_ [H _]]]; exact H).
      pose proof Hst0 as [Hs Hc Hn Hdm Hl Hh Hmx].
      assert (Hsz : 0 <= zlen s) by (unfold zlen; lia).
      destruct (ref_call (snd d) s) as [[[[sk tok] rest] b]|].
      + intros (-> & Hrl & Hrh & Htok & Hst1 & Hfr).
        specialize (HT _ _ _ _ eq_refl). destruct HT as (_ & _ & _ & Hsplit).
        set (r := p + zlen sk * w) in *.
        assert (Hfr1 : forall x, ~ cellp x -> ~ celld x -> ~ (p <= x < p + zlen s * w) -> m1 x = m x).
        { intros x H1 H2 H3. apply Hfr; auto. intros [Hb Hx]. apply H3. subst b. destruct Hsplit as (dch & _ & ->).
          unfold zlen in *. rewrite !app_length. cbn [length]. unfold r in Hx. nia. }
        assert (Hlen : zlen s = zlen sk + zlen tok + (if b then 1 + zlen rest else 0)).
        { destruct b; [destruct Hsplit as (dch & _ & ->)|destruct Hsplit as (_ & ->)]; unfold zlen; rewrite !app_length; cbn [length]; lia. }
        assert (Hrest : b = false -> rest = []) by (intros ->; apply Hsplit).
        apply wp_bind. eapply wp_weaken; [|eapply (IH 0); [|right; split; [reflexivity|exact Hst1]]].
        * intros rs m2 [Hfr2 Hrs]. cbn [wp]. split.
          -- intros x H1 H2 H3. rewrite Hfr2; auto. unfold zlen in *. destruct b; [|rewrite (Hrest eq_refl); cbn; lia]. unfold r. nia.
          -- constructor.
             ++ cbn [tok_res]. split; [unfold r, zlen; nia|]. split; [exact Hrh|].
                eapply str_at_ext; [exact Hw| |exact Htok]. intros x Hx. apply Hfr2; unfold cell; try lia.
                destruct b; [lia|]. rewrite (Hrest eq_refl). unfold zlen. cbn. lia.
             ++ eapply Forall2_impl'; [|exact Hrs]. intros a [t|]; cbn [tok_res]; auto.
                intros (H1 & H2 & H3). split; [|split; [exact H2|exact H3]]. unfold r, zlen in *. destruct b; nia.
        * eapply Forall_impl; [|exact Hds']. intros d'. apply delim_ok_ext with (p := p) (s := s); auto. unfold zlen in *. nia.
      + intros (-> & Hst1 & Hfr). apply wp_bind. eapply wp_weaken; [|eapply (IH 0); [|right; split; [reflexivity|exact Hst1]]].
        * intros rs m2 [Hfr2 Hrs]. cbn [wp]. split.
          -- intros x H1 H2 H3. rewrite Hfr2; auto. unfold zlen. cbn. lia.
          -- constructor; [reflexivity|]. eapply Forall2_impl'; [|exact Hrs]. intros a [t|]; cbn [tok_res]; auto.
             intros (H1 & H2 & H3). split; [|split; [exact H2|exact H3]]. unfold zlen in *. lia.
        * eapply Forall_impl; [|exact Hds']. intros d'. apply delim_ok_ext with (p := p) (s := s); auto. unfold zlen in *. nia.
  Qed.
End Sequence.

(* ================= the two library functions, whole sequences ================= *)
Section Top.
  Variables (c : cfg) (dmaxp ptr lo hi nmax bos : Z).
  Hypothesis Hlo : 0 < lo.
  Hypothesis Hhi : hi < 256 ^ 8.
  Hypothesis Hptr : ptr + 8 <= lo \/ hi <= ptr.
  Hypothesis Hdmaxp : dmaxp + 8 <= lo \/ hi <= dmaxp.
  Hypothesis Hcells : ptr + 8 <= dmaxp \/ dmaxp + 8 <= ptr.
  Hypothesis Hptr0 : ptr <> 0.
  Hypothesis Hdmaxp0 : dmaxp <> 0.

  Definition strtok_calls := calls (fun dest delim => strtok_s c dest dmaxp delim ptr bos).
  Definition wcstok_calls := calls (fun dest delim => wcstok_s c dest dmaxp delim ptr bos).

  Theorem strtok_s_sequence :
    nmax <= rmax_str c -> (bos = BOS_UNKNOWN \/ nmax <= bos) ->
    forall dps m p n s,
    Forall (delim_ok 1 dmaxp ptr lo hi (tok_delim_max c) m) dps ->
    tok_state0 1 dmaxp lo hi nmax m p n s ->
    wp (strtok_calls p (map fst dps)) m (fun rs m' =>
      (forall x, ~ cell ptr x -> ~ cell dmaxp x -> ~ (p <= x < p + zlen s * 1) -> m' x = m x) /\
      Forall2 (tok_res 1 hi m' p) rs (ref_seq (map snd dps) s)).
  Proof.
    intros Hn Hb dps m p n s Hds Hst.
    apply calls_spec with (nmax := nmax) (dmaxlen := tok_delim_max c) (lo := lo) (n := n); auto; try lia.
    - intros dest m0 p0 n0 s0 d (H1 & H2 & H3 & H4 & H5 & _) [[-> H]|[-> H]].
      + apply strtok_s_first; auto; lia.
      + apply strtok_s_next; auto; lia.
    - left. split; [reflexivity|exact Hst].
  Qed.

  Theorem wcstok_s_sequence :
    0 < wchar_w c -> nmax <= rmax_wstr c -> (bos = BOS_UNKNOWN \/ nmax * wchar_w c <= bos) ->
    forall dps m p n s,
    Forall (delim_ok (wchar_w c) dmaxp ptr lo hi (tok_delim_max c) m) dps ->
    tok_state0 (wchar_w c) dmaxp lo hi nmax m p n s ->
    wp (wcstok_calls p (map fst dps)) m (fun rs m' =>
      (forall x, ~ cell ptr x -> ~ cell dmaxp x -> ~ (p <= x < p + zlen s * wchar_w c) -> m' x = m x) /\
      Forall2 (tok_res (wchar_w c) hi m' p) rs (ref_seq (map snd dps) s)).
  Proof.
    intros Hw Hn Hb dps m p n s Hds Hst.
    apply calls_spec with (nmax := nmax) (dmaxlen := tok_delim_max c) (lo := lo) (n := n); auto; try lia.
    - intros dest m0 p0 n0 s0 d (H1 & H2 & H3 & H4 & H5 & _) [[-> H]|[-> H]].
      + apply wcstok_s_first; auto; lia.
      + apply wcstok_s_next; auto; lia.
    - left. split; [reflexivity|exact Hst].
  Qed.
End Top.

(* constant delimiter set: the results are the textbook tokens, each once, then NULL forever *)
Lemma tok_res_somes w hi m' p ts : forall toks, Forall2 (tok_res w hi m' p) toks (map Some ts) ->
  Forall2 (fun r tok => p <= r /\ r + (zlen tok + 1) * w <= hi /\ str_at w m' r tok) toks ts.
Proof. induction ts as [|t ts IH]; intros toks H; inversion H; subst; constructor; auto. Qed.
Lemma tok_res_nones w hi m' p j : forall nulls, Forall2 (tok_res w hi m' p) nulls (repeat None j) ->
  Forall (fun r => r = 0) nulls.
Proof. induction j as [|j IH]; intros nulls H; inversion H; subst; constructor; auto. Qed.

Lemma Forall2_length' {A B} (R : A -> B -> Prop) l l' : Forall2 R l l' -> length l = length l'.
Proof. intros F. induction F; cbn; auto. Qed.
Lemma Forall2_tok_res_const w hi m' p dl k s rs : (length (tokens dl s) <= k)%nat ->
  Forall2 (tok_res w hi m' p) rs (ref_seq (repeat dl k) s) ->
  exists toks nulls, rs = toks ++ nulls /\
    Forall2 (fun r tok => p <= r /\ r + (zlen tok + 1) * w <= hi /\ str_at w m' r tok) toks (tokens dl s) /\
    Forall (fun r => r = 0) nulls /\ length nulls = (k - length (tokens dl s))%nat.
Proof.
  intros Hk HF. rewrite ref_seq_const in HF by exact Hk.
  apply Forall2_app_inv_r in HF. destruct HF as (toks & nulls & H1 & H2 & ->).
  exists toks, nulls. split; [reflexivity|]. split; [|split].
  - apply tok_res_somes. exact H1.
  - eapply tok_res_nones. exact H2.
  - apply Forall2_length' in H2. now rewrite repeat_length in H2.
Qed.
