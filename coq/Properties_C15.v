(* Properties_C15.v -- C15: multibyte and wide conversions.  Only theorem statements, each closed by [exact].
   Proved: the codec laws for every encodable code point (decode . encode = id, announced length, byte range).
   Wrapper level (ProofsConv.v): with the C library's converters modelled as storing as many elements as they are asked
   for, every store of mbstowcs_s, wcstombs_s, wcrtomb_s, wctomb_s lies inside dest[0..dmax) or the result cell, for every
   source and every len (len > dmax included), both locales, both configurations -- the statement established by the
   'never more than dmax' repairs; the region where a known object size makes the failing exit clear the whole object is
   delimited by conv_bos_ok and refuted outside it.  The functional part of the wrappers (result = reference conversion)
   is covered by the correspondence (models in ModConv.v vs implementation vs Python/C library references). *)
From Coq Require Import List ZArith Lia Bool.
From SC Require Import Base Wp Cfg Comb CombProofs Utf8 ModConv ProofsConv PropDefs HandlerTime.
From SC.Gen Require Import Consts.
Local Open Scope Z_scope.
Theorem C15_decode_encode : forall cp, enc_valid cp = true -> dec_list (utf8_enc cp) = Some (cp, enc_len cp).
Proof. exact utf8_roundtrip. Qed.
Print Assumptions C15_decode_encode.
Theorem C15_encode_bytes_and_length : forall cp, 0 <= cp < 0x200000 ->
  Forall (fun b => 0 <= b < 256) (utf8_enc cp) /\ Z.of_nat (length (utf8_enc cp)) = enc_len cp.
Proof. exact utf8_enc_bytes. Qed.
Print Assumptions C15_encode_bytes_and_length.
Theorem C15_mbstowcs_s_stores : forall c utf8 retvalp dest dmax src len destbos, 0 < wchar_w c -> 0 <= dmax -> 0 <= len ->
  conv_bos_ok (wchar_w c) dmax len destbos ->
  C01_holds (convP dest (dmax * wchar_w c) retvalp 8) (mbstowcs_s c utf8 retvalp dest dmax src len destbos).
Proof. intros. apply C01_from_writes. exact (mbstowcs_s_writes c utf8 retvalp dest dmax src len destbos H H0 H1 H2). Qed.
Print Assumptions C15_mbstowcs_s_stores.
Theorem C15_wcstombs_s_stores : forall c utf8 retvalp dest dmax src len destbos, 0 <= dmax -> 0 <= len ->
  conv_bos_ok 1 dmax len destbos ->
  C01_holds (convP dest dmax retvalp 8) (wcstombs_s c utf8 retvalp dest dmax src len destbos).
Proof. intros. apply C01_from_writes. exact (wcstombs_s_writes c utf8 retvalp dest dmax src len destbos H H0 H1). Qed.
Print Assumptions C15_wcstombs_s_stores.
Theorem C15_wcrtomb_s_stores : forall c utf8 retvalp dest dmax wc ps destbos, 0 <= dmax ->
  C01_holds (convP dest dmax retvalp 8) (wcrtomb_s c utf8 retvalp dest dmax wc ps destbos).
Proof. intros. apply C01_from_writes. exact (wcrtomb_s_writes c utf8 retvalp dest dmax wc ps destbos H). Qed.
Print Assumptions C15_wcrtomb_s_stores.
Theorem C15_wctomb_s_stores : forall c utf8 retvalp dest dmax wc destbos, 0 <= dmax ->
  C01_holds (convP dest dmax retvalp 4) (wctomb_s c utf8 retvalp dest dmax wc destbos).
Proof. intros. apply C01_from_writes. exact (wctomb_s_writes c utf8 retvalp dest dmax wc destbos H). Qed.
Print Assumptions C15_wctomb_s_stores.
(* functional: wcrtomb_s stores exactly the encoding of the character (UTF-8 per Utf8.v in C.UTF-8, one byte in C), reports its
   length, and nulls the rest of dest with null-slack; with C15_decode_encode this is the single-character round trip *)
Theorem C15_wcrtomb_s_delivers_the_encoding : forall c utf8 retvalp dest dmax wc ps m bs,
  retvalp <> 0 -> ps <> 0 -> dest <> 0 -> 1 <= dmax <= rmax_wstr c -> dmax < 18446744073709551616 -> wc_enc utf8 wc = Some bs ->
  Z.of_nat (length bs) < dmax -> Forall (fun b => 0 <= b < 256) bs ->
  (retvalp + 8 <= dest \/ dest + dmax <= retvalp) ->
  Wp.wp (wcrtomb_s c utf8 retvalp dest dmax wc ps BOS_UNKNOWN) m (fun r m' =>
     r = EOK /\ load m' 8 retvalp = Z.of_nat (length bs) /\
     (forall i, (i < length bs)%nat -> m' (dest + Z.of_nat i) = nth i bs 0) /\
     (null_slack c = true -> forall x, dest + Z.of_nat (length bs) <= x < dest + dmax -> m' x = 0) /\
     (forall x, ~ (dest <= x < dest + dmax) -> ~ (retvalp <= x < retvalp + 8) -> m' x = m x)).
Proof. exact wcrtomb_s_spec. Qed.
Print Assumptions C15_wcrtomb_s_delivers_the_encoding.
Theorem C15_wctomb_s_delivers_the_encoding : forall c utf8 retvalp dest dmax wc m bs,
  retvalp <> 0 -> dest <> 0 -> 1 <= dmax <= rmax_wstr c -> wc_enc utf8 wc = Some bs -> (1 <= length bs)%nat ->
  Z.of_nat (length bs) < dmax -> Z.of_nat (length bs) < 4294967296 -> Forall (fun b => 0 <= b < 256) bs ->
  (retvalp + 4 <= dest \/ dest + dmax <= retvalp) ->
  Wp.wp (wctomb_s c utf8 retvalp dest dmax wc BOS_UNKNOWN) m (fun r m' =>
     r = EOK /\ load m' 4 retvalp = Z.of_nat (length bs) /\
     (forall i, (i < length bs)%nat -> m' (dest + Z.of_nat i) = nth i bs 0) /\
     (null_slack c = true -> forall x, dest + Z.of_nat (length bs) <= x < dest + dmax -> m' x = 0) /\
     (forall x, ~ (dest <= x < dest + dmax) -> ~ (retvalp <= x < retvalp + 4) -> m' x = m x)).
Proof. exact wctomb_s_spec. Qed.
Print Assumptions C15_wctomb_s_delivers_the_encoding.
(* known finding conv-known-bos-len-clears-object: dmax elements fit the known object, len elements do not: the failing exit clears the object *)
Theorem C15_mbstowcs_s_bos_len_refuted : ~ writes_in (convP 1000 (2 * 4) 5000 8) (mbstowcs_s cfg_default true 5000 1000 2 3000 20 40).
Proof. exact mbstowcs_s_bos_len_refuted. Qed.
Print Assumptions C15_mbstowcs_s_bos_len_refuted.
Theorem C15_cfg_repo_wf : wf_cfg cfg_repo.
Proof. exact wf_cfg_repo. Qed.
Example C15_example : dec_list (utf8_enc 0x20AC) = Some (0x20AC, 3) /\ utf8_enc 0x20AC = (0xE2 :: 0x82 :: 0xAC :: nil).
Proof. split; reflexivity. Qed.

(* what the constraint handler finds (a handler need not return): every report the single-character converters make with a
   usable destination happens after dest has been cleared -- dest[0] = 0, and all dmax bytes with null-slack *)
Theorem C15_wctomb_s_reports_after_clearing : forall c utf8 retvalp dest dmax wc m,
  retvalp <> 0 -> dest <> 0 -> 1 <= dmax <= rmax_wstr c ->
  at_handler (dest_cleared c dest dmax) (wctomb_s c utf8 retvalp dest dmax wc BOS_UNKNOWN) m.
Proof. exact wctomb_s_reports_after_clearing. Qed.
Print Assumptions C15_wctomb_s_reports_after_clearing.

Theorem C15_wcrtomb_s_reports_after_clearing : forall c utf8 retvalp dest dmax wc ps m,
  retvalp <> 0 -> ps <> 0 -> dest <> 0 -> 1 <= dmax <= rmax_wstr c ->
  at_handler (dest_cleared c dest dmax) (wcrtomb_s c utf8 retvalp dest dmax wc ps BOS_UNKNOWN) m.
Proof. exact wcrtomb_s_reports_after_clearing. Qed.
Print Assumptions C15_wcrtomb_s_reports_after_clearing.

Theorem C15_error_helper_clears_before_it_reports : forall c w d dmax code m, 0 < w -> 0 < dmax ->
  at_handler (fun m' => load m' w d = 0 /\ (null_slack c = true -> forall a, d <= a < d + dmax * w -> m' a = 0))
             (handle_error c w d dmax code) m.
Proof. exact handle_error_clears_first. Qed.
Print Assumptions C15_error_helper_clears_before_it_reports.
