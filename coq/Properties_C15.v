(* Properties_C15.v -- C15: multibyte and wide conversions.  Only theorem statements, each closed by [exact].
   Proved: the codec laws for every encodable code point (decode . encode = id, announced length, byte range).
   The wrapper post-processing is covered by the correspondence (models in ModConv.v); its wp-level
   theorems are the next proof target. *)
From Coq Require Import List ZArith Lia Bool.
From SC Require Import Base Cfg Utf8 ModConv.
From SC.Gen Require Import Consts.
Local Open Scope Z_scope.
Theorem C15_decode_encode : forall cp, enc_valid cp = true -> dec_list (utf8_enc cp) = Some (cp, enc_len cp).
Proof. exact utf8_roundtrip. Qed.
Print Assumptions C15_decode_encode.
Theorem C15_encode_bytes_and_length : forall cp, 0 <= cp < 0x200000 ->
  Forall (fun b => 0 <= b < 256) (utf8_enc cp) /\ Z.of_nat (length (utf8_enc cp)) = enc_len cp.
Proof. exact utf8_enc_bytes. Qed.
Print Assumptions C15_encode_bytes_and_length.
Theorem C15_cfg_repo_wf : wf_cfg cfg_repo.
Proof. exact wf_cfg_repo. Qed.
Example C15_example : dec_list (utf8_enc 0x20AC) = Some (0x20AC, 3) /\ utf8_enc 0x20AC = (0xE2 :: 0x82 :: 0xAC :: nil).
Proof. split; reflexivity. Qed.
