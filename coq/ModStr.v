(* ModStr.v -- models of the narrow and wide copy / concatenate family and strnlen_s. *)
From Coq Require Import List ZArith Lia Bool.
From SC Require Import Base Cfg Comb.
Import ListNotations.
Local Open Scope Z_scope.
Local Open Scope prog_scope.

(* _strcpy_s_chk(dest, dmax, src, destbos) *)
Definition strcpy_s (c : cfg) (d dmax s destbos : Z) : prog Z :=
  chk_dest_str c d dmax destbos (fun _ =>
    if s =? 0 then handle_error c 1 d dmax ESNULLP ;;; Ret ESNULLP
    else if d =? s then Ret EOK
    else if d <? s then copy_loop c 1 true d dmax s false (Z.to_nat dmax) d s 0
    else copy_loop c 1 false d dmax d false (Z.to_nat dmax) d s 0).

(* _wcscpy_s_chk *)
Definition wcscpy_s (c : cfg) (d dmax s destbos : Z) : prog Z :=
  let w := wchar_w c in
  chk_dest_wstr c d dmax destbos (fun _ =>
    if s =? 0 then handle_error c w d dmax ESNULLP ;;; Ret ESNULLP
    else if d =? s then Ret EOK
    else if d <? s then copy_loop c w true d dmax s false (Z.to_nat dmax) d s 0
    else copy_loop c w false d dmax d false (Z.to_nat dmax) d s 0).

(* _strcat_s_chk(dest, dmax, src, destbos) *)
Definition strcat_s (c : cfg) (d dmax s destbos : Z) : prog Z :=
  chk_dest_str c d dmax destbos (fun _ =>
    if s =? 0 then handle_error c 1 d dmax ESNULLP ;;; Ret ESNULLP
    else if d <? s then
      find_end c 1 true d dmax s (Z.to_nat dmax) d
        (fun n d' => copy_loop c 1 true d dmax s false n d' s 0)
    else
      find_end c 1 false d dmax d (Z.to_nat dmax) d
        (fun n d' => copy_loop c 1 false d dmax d false n d' s 0)).

(* CHK_SLEN_MAX_CLEAR: handle_error(dest, strnlen_s(dest,dmax), ESLEMAX) *)
Definition slen_max_clear (c : cfg) (d dmax : Z) : prog Z :=
  len <- strnlen_s_prog c d dmax BOS_UNKNOWN ;;
  handle_error c 1 d len ESLEMAX ;;; Ret ESLEMAX.

(* _strncpy_s_chk(dest, dmax, src, slen, destbos, srcbos) *)
Definition strncpy_s (c : cfg) (d dmax s slen destbos srcbos : Z) : prog Z :=
  if (slen =? 0) && negb (d =? 0) && negb (dmax =? 0) then Store 1 d 0 (Ret EOK)
  else chk_dest_str c d dmax destbos (fun _ =>
    if s =? 0 then handle_error c 1 d dmax ESNULLP ;;; Ret ESNULLP
    else if rmax_str c <? slen then slen_max_clear c d dmax
    else if negb (srcbos =? BOS_UNKNOWN) && (srcbos <? slen) then bos_overflow c d (if destbos =? BOS_UNKNOWN then dmax else destbos)
    else if d <? s then copy_loop c 1 true d dmax s true (Z.to_nat dmax) d s slen
    else copy_loop c 1 false d dmax d true (Z.to_nat dmax) d s slen).

(* _strncat_s_chk(dest, dmax, src, slen, destbos, srcbos) *)
Definition strncat_s (c : cfg) (d dmax s slen destbos srcbos : Z) : prog Z :=
  if (slen =? 0) && (d =? 0) && (dmax =? 0) then Ret EOK
  else chk_dest_str c d dmax destbos (fun _ =>
    if s =? 0 then handle_error c 1 d dmax ESNULLP ;;; Ret ESNULLP
    else if rmax_str c <? slen then slen_max_clear c d dmax
    else if slen =? 0 then
      len <- strnlen_s_prog c d dmax BOS_UNKNOWN ;;
      let err := if len <? dmax then EOK else ESZEROL in
      handle_error c 1 d dmax err ;;; Ret err
    else if negb (srcbos =? BOS_UNKNOWN) && (srcbos <? slen) then bos_overflow c d (if destbos =? BOS_UNKNOWN then dmax else destbos)
    else if d <? s then
      find_end c 1 true d dmax s (Z.to_nat dmax) d
        (fun n d' => copy_loop c 1 true d dmax s true n d' s slen)
    else
      find_end c 1 false d dmax d (Z.to_nat dmax) d
        (fun n d' => copy_loop c 1 false d dmax d true n d' s slen)).

(* _strnlen_s_chk(str, smax, strbos) *)
Definition strnlen_s (c : cfg) (str smax bos : Z) : prog Z := strnlen_s_prog c str smax bos.

(* _strzero_s_chk(dest, dmax, destbos) *)
Fixpoint strzero_loop (c : cfg) (n : nat) (d : Z) : prog Z :=
  match n with
  | O => (* while (dmax && *dest) ended on dmax == 0; then "if (!*dest)" reads dest[dmax] (null-slack build) *)
      if null_slack c then Load 1 d (fun ch => if ch =? 0 then Fill d 0 0 (Ret EOK) else Ret EOK) else Ret EOK
  | S n' => Load 1 d (fun ch =>
      if ch =? 0 then (if null_slack c then Fill d (Z.of_nat n) 0 (Ret EOK) else Ret EOK)
      else Store 1 d 0 (strzero_loop c n' (d + 1)))
  end.
Definition strzero_s (c : cfg) (d dmax destbos : Z) : prog Z :=
  if d =? 0 then fail_str ESNULLP
  else if dmax =? 0 then fail_str ESZEROL
  else if destbos =? BOS_UNKNOWN then (if rmax_str c <? dmax then fail_str ESLEMAX else strzero_loop c (Z.to_nat dmax) d)
  else if destbos <? dmax then (if rmax_str c <? dmax then fail_str ESLEMAX else fail_str EOVERFLOW)
  else strzero_loop c (Z.to_nat dmax) d.
