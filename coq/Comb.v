(* Comb.v -- the recurring code shapes of the library, written once (models only;
   their lemmas are in CombProofs.v). Element width [w] in bytes. *)
From Coq Require Import List ZArith Lia Bool.
From SC Require Import Base Cfg.
Import ListNotations.
Local Open Scope Z_scope.
Local Open Scope prog_scope.

(* w-wide zero stores at d, d+w, ...  (the  while (dmax) { *dest = 0; dmax--; dest++; }  loop) *)
Fixpoint zero_loop (w : Z) (n : nat) (d : Z) : prog unit :=
  match n with O => Ret tt | S n' => Store w d 0 (zero_loop w n' (d + w)) end.

(* the SAFECLIB_STR_NULL_SLACK block:  if (dmax > 0x20) memset(dest,0,dmax*w) else loop *)
Definition zero_slack (c : cfg) (w d : Z) (n : nat) : prog unit :=
  if null_slack c then
    (if 32 <? Z.of_nat n then Fill d (Z.of_nat n * w) 0 (Ret tt) else zero_loop w n d)
  else Ret tt.

(* handle_error / handle_werror: clear, then report *)
Definition handle_error (c : cfg) (w d dmax code : Z) : prog unit :=
  (if null_slack c then Fill d (dmax * w) 0 (Ret tt) else Store w d 0 (Ret tt)) ;;;
  Handler HStr code (Ret tt).
(* handle_mem_error: memset(dest,0,dmax) in both configurations *)
Definition handle_mem_error (d dmax code : Z) : prog unit :=
  Fill d dmax 0 (Handler HMem code (Ret tt)).

Definition fail_str (code : Z) : prog Z := Handler HStr code (Ret code).
Definition fail_mem (code : Z) : prog Z := Handler HMem code (Ret code).

(* ---- strnlen_s / wcsnlen_s, as written in the C source ----
   [guarded = true]  :  while ( smax && *str )      (does not touch str[smax])
   [guarded = false] :  while ( *str && smax )      (reads str[smax] when no NUL is found)
   n = smax as a nat; bos = remaining known object size or BOS_UNKNOWN. *)
Fixpoint nlen_loop (guarded : bool) (w : Z) (n : nat) (p cnt bos : Z) : prog Z :=
  match n with
  | O => if guarded then Ret cnt else Load w p (fun _ => Ret cnt)
  | S n' =>
      Load w p (fun ch =>
        if ch =? 0 then Ret cnt
        else if bos =? BOS_UNKNOWN then nlen_loop guarded w n' (p + w) (cnt + 1) bos
        else if bos - 1 =? 0 then Ret (cnt + 1)
        else nlen_loop guarded w n' (p + w) (cnt + 1) (bos - 1))
  end.

(* _strnlen_s_chk(str, smax, strbos) *)
Definition strnlen_guarded := true.   (* order of the loop test in src/str/strnlen_s.c *)
Definition strnlen_s_prog (c : cfg) (str smax bos : Z) : prog Z :=
  if str =? 0 then Handler HStr ESNULLP (Ret 0)
  else if smax =? 0 then Handler HStr ESZEROL (Ret 0)
  else if rmax_str c <? smax then Handler HStr ESLEMAX (Ret 0)
  else nlen_loop strnlen_guarded 1 (Z.to_nat smax) str 0 bos.

(* handle_str_bos_overflow(msg, dest, dmax) *)
Definition bos_overflow (c : cfg) (d dmax : Z) : prog Z :=
  len <- strnlen_s_prog c d dmax BOS_UNKNOWN ;;
  (if rmax_str c <? len then handle_error c 1 d 1 ESLEMAX ;;; Ret ESLEMAX
   else handle_error c 1 d len EOVERFLOW ;;; Ret EOVERFLOW).

(* ---- entry checks on (dest, dmax, destbos) of the narrow string producers ---- *)
Definition chk_dest_str (c : cfg) (d dmax destbos : Z) (k : unit -> prog Z) : prog Z :=
  if d =? 0 then fail_str ESNULLP
  else if dmax =? 0 then fail_str ESZEROL
  else if destbos =? BOS_UNKNOWN then
    (if rmax_str c <? dmax then fail_str ESLEMAX else k tt)
  else if destbos <? dmax then         (* CHK_DEST_OVR_CLEAR *)
    (if rmax_str c <? dmax then handle_error c 1 d destbos ESLEMAX ;;; Ret ESLEMAX
     else bos_overflow c d destbos)
  else k tt.

(* wide twin: CHK_DESTW_OVR_CLEAR compares byte sizes, clears destbos/w elements *)
Definition chk_dest_wstr (c : cfg) (d dmax destbos : Z) (k : unit -> prog Z) : prog Z :=
  let w := wchar_w c in
  if d =? 0 then fail_str ESNULLP
  else if dmax =? 0 then fail_str ESZEROL
  else if destbos =? BOS_UNKNOWN then
    (if rmax_wstr c <? dmax then fail_str ESLEMAX else k tt)
  else if destbos <? dmax * w then
    (if rmax_wstr c <? dmax then handle_error c w d (destbos / w) ESLEMAX ;;; Ret ESLEMAX
     else handle_error c w d (destbos / w) EOVERFLOW ;;; Ret EOVERFLOW)
  else k tt.

(* ---- the bumper copy loop shared by the copy / concatenate family ----
   fwd = (dest < src): bumper = src, tested against dest; otherwise bumper = dest,
   tested against src.  use_slen: the n-variants count slen down and stop at 0.
   n = remaining dmax (elements). *)
Section CopyLoop.
  Variables (c : cfg) (w : Z) (fwd : bool) (od odmax bumper : Z) (use_slen : bool).

  Fixpoint copy_loop (n : nat) (d s sl : Z) : prog Z :=
    match n with
    | O => handle_error c w od odmax ESNOSPC ;;; Ret ESNOSPC
    | S n' =>
        if (if fwd then d =? bumper else s =? bumper)
        then handle_error c w od odmax ESOVRLP ;;; Ret ESOVRLP
        else if use_slen && (sl =? 0)
        then (if null_slack c then zero_slack c w d n else Store w d 0 (Ret tt)) ;;; Ret EOK
        else Load w s (fun ch => Store w d ch
               (if ch =? 0 then zero_slack c w d n ;;; Ret EOK
                else copy_loop n' (d + w) (s + w) (sl - 1)))
    end.

  (* "find the end of dest" phase of the concatenate family; n = remaining dmax >= 1 *)
  Fixpoint find_end (n : nat) (d : Z) (k : nat -> Z -> prog Z) : prog Z :=
    Load w d (fun ch =>
      if ch =? 0 then k n d
      else if fwd && (d =? bumper) then handle_error c w od odmax ESOVRLP ;;; Ret ESOVRLP
      else match n with
           | S m => match m with
                    | S _ => find_end m (d + w) k
                    | O => handle_error c w od odmax ESUNTERM ;;; Ret ESUNTERM
                    end
           | O => handle_error c w od odmax ESUNTERM ;;; Ret ESUNTERM
           end).
End CopyLoop.

(* CHK_OVRLP / CHK_OVRLP_BUTSAME on byte addresses *)
Definition chk_ovrlp (dp dlen sp slen : Z) : bool :=
  ((sp <=? dp) && (dp <? sp + slen)) || ((dp <? sp) && (sp <? dp + dlen)).
Definition chk_ovrlp_butsame (dp dlen sp slen : Z) : bool :=
  ((sp <? dp) && (dp <? sp + slen)) || ((dp <? sp) && (sp <? dp + dlen)).
