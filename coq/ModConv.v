(* ModConv.v -- C15: multibyte <-> wide conversion wrappers.  libc's converters are MODELLED (not verified):
   UTF-8 per Utf8.v in the C.UTF-8 locale, ASCII-only in the C locale; they store regardless of dmax,
   exactly as the C library does -- which is what makes a missing clamp visible (the wrappers clamp len to dmax
   and stage single characters in a local buffer since the fix: commits of round 3). *)
From Coq Require Import List ZArith Lia Bool.
From SC Require Import Base Cfg Comb Utf8.
Import ListNotations.
Local Open Scope Z_scope.
Local Open Scope prog_scope.

Definition SIZE_MAX := 18446744073709551615.
(* is the wide character encodable in the locale, and its bytes *)
Definition wc_enc (utf8 : bool) (wc : Z) : option (list Z) :=
  if utf8 then (if (0 <=? wc) && (wc <? 0x200000) && negb (is_surrogate wc) then Some (utf8_enc wc) else None)
  else (if (0 <=? wc) && (wc <? 0x80) then Some [wc] else None).
Fixpoint store_bytes (p : Z) (l : list Z) (k : prog Z) : prog Z :=
  match l with [] => k | b :: t => Store 1 p b (store_bytes (p + 1) t k) end.

(* libc wcrtomb(dest, wc, ps) / wctomb(dest, wc): result as the C value *)
Definition wcrtomb_m (utf8 : bool) (dest wc : Z) : prog Z :=
  if dest =? 0 then Ret 1
  else match wc_enc utf8 wc with
       | None => Ret SIZE_MAX
       | Some bs => store_bytes dest bs (Ret (Z.of_nat (length bs)))
       end.
Definition wctomb_m (utf8 : bool) (dest wc : Z) : prog Z :=
  if dest =? 0 then Ret 0
  else match wc_enc utf8 wc with
       | None => Ret (-1)
       | Some bs => store_bytes dest bs (Ret (Z.of_nat (length bs)))
       end.

(* the value wcrtomb / wctomb return when they convert into a local buffer (dest only selects the NULL form) *)
Definition wcx_bytes (utf8 : bool) (wc : Z) : list Z := match wc_enc utf8 wc with Some bs => bs | None => [] end.
Definition wcx_len (utf8 restartable : bool) (dest wc : Z) : Z :=
  if dest =? 0 then (if restartable then 1 else 0)
  else match wc_enc utf8 wc with
       | None => if restartable then SIZE_MAX else -1
       | Some bs => Z.of_nat (length bs)
       end.

(* decode one multibyte character at p (loads only the bytes the lead byte announces) *)
Definition mb_dec (utf8 : bool) (p : Z) (k : option (Z * Z) -> prog Z) : prog Z :=
  Load 1 p (fun b0 =>
    if negb utf8 then k (if b0 <? 0x80 then Some (b0, 1) else None)
    else if b0 <? 0x80 then k (Some (b0, 1))
    else if b0 <? 0xC2 then k None
    else Load 1 (p + 1) (fun b1 =>
      if negb (is_cont b1) then k None
      else if b0 <? 0xE0 then k (utf8_dec b0 b1 0 0)
      else Load 1 (p + 2) (fun b2 =>
        if negb (is_cont b2) then k None
        else if b0 <? 0xF0 then k (utf8_dec b0 b1 b2 0)
        else if negb (b0 <? 0xF8) then k None
        else Load 1 (p + 3) (fun b3 => k (utf8_dec b0 b1 b2 b3))))).

(* libc mbstowcs(dest, src, len); n = len as nat (or the source bound when dest is NULL) *)
Fixpoint mbstowcs_loop (utf8 : bool) (w : Z) (n : nat) (dest src cnt : Z) : prog Z :=
  match n with
  | O => Ret cnt
  | S n' => mb_dec utf8 src (fun r =>
      match r with
      | None => Ret SIZE_MAX
      | Some (cp, l) =>
          (if dest =? 0 then (fun k => k) else Store w (dest + cnt * w) cp)
          (if cp =? 0 then Ret cnt else mbstowcs_loop utf8 w n' dest (src + l) (cnt + 1))
      end)
  end.
Definition mbstowcs_m (utf8 : bool) (w : Z) (dest src len srcmax : Z) : prog Z :=
  mbstowcs_loop utf8 w (Z.to_nat (if dest =? 0 then srcmax else len)) dest src 0.

(* libc wcstombs(dest, src, len): len bytes at most, no partial character *)
Fixpoint wcstombs_loop (utf8 : bool) (w : Z) (n : nat) (dest src len cnt : Z) : prog Z :=
  match n with
  | O => Ret cnt
  | S n' => Load w src (fun wc =>
      if wc =? 0 then (if (dest =? 0) || (len <=? cnt) then Ret cnt else Store 1 (dest + cnt) 0 (Ret cnt))
      else match wc_enc utf8 wc with
           | None => Ret SIZE_MAX
           | Some bs =>
               let l := Z.of_nat (length bs) in
               if negb (dest =? 0) && (len <? cnt + l) then Ret cnt
               else (if dest =? 0 then (fun k => k) else store_bytes (dest + cnt) bs)
                    (wcstombs_loop utf8 w n' dest (src + w) len (cnt + l))
           end)
  end.
Definition wcstombs_m (utf8 : bool) (w : Z) (dest src len srcmax : Z) : prog Z :=
  wcstombs_loop utf8 w (Z.to_nat srcmax) dest src len 0.

(* the restartable form used when len is cut to dmax: the continuation also learns the length of the character in front of
   which the conversion stopped for lack of room (None: the terminator was reached, or the character is not encodable) *)
Fixpoint wcstombs_loop2 (utf8 : bool) (w : Z) (n : nat) (dest src len cnt : Z) (k : Z -> option Z -> prog Z) : prog Z :=
  match n with
  | O => k cnt None
  | S n' => Load w src (fun wc =>
      if wc =? 0 then (if len <=? cnt then k cnt None else Store 1 (dest + cnt) 0 (k cnt None))
      else match wc_enc utf8 wc with
           | None => k SIZE_MAX None
           | Some bs =>
               let l := Z.of_nat (length bs) in
               if len <? cnt + l then k cnt (Some l)
               else store_bytes (dest + cnt) bs (wcstombs_loop2 utf8 w n' dest (src + w) len (cnt + l) k)
           end)
  end.

(* ---------- the wrappers ---------- *)
(* _mbstowcs_s_chk(retvalp, dest, dmax, src, len, destbos); srcmax bounds the model's scan of an unterminated source *)
Definition mbstowcs_s (c : cfg) (utf8 : bool) (retvalp dest dmax src len destbos : Z) : prog Z :=
  let w := wchar_w c in
  if retvalp =? 0 then fail_str ESNULLP
  else Store 8 retvalp 0 (
    if src =? 0 then (if (dest =? 0) || (dmax =? 0) then fail_str ESNULLP else handle_error c w dest dmax ESNULLP ;;; Ret ESNULLP)   (* after the fixes: a null or empty dest is not cleared *)
    else
      let after_checks : prog Z :=
        if dest =? src then Ret ESOVRLP
        else
          r <- mbstowcs_m utf8 w dest src (if negb (dest =? 0) && (dmax <? len) then dmax else len) (rmax_str c + 1) ;;
          Store 8 retvalp r (
            if r <? dmax then
              (if dest =? 0 then Ret EOK
               else (if null_slack c then Fill (dest + r * w) ((dmax - r) * w) 0 (Ret EOK) else Store w (dest + r * w) 0 (Ret EOK)))
            else if dest =? 0 then Ret (if r =? SIZE_MAX then EILSEQ else EOK)   (* errno: set by libc only on an invalid sequence *)
            else if rmax_wstr c <? r then
              (* the second libc call only recomputes the error: tmp = mbstowcs(NULL, src, len) *)
              handle_error c w dest dmax EILSEQ ;;; Ret EILSEQ
            else handle_error c w dest dmax ESNOSPC ;;; Ret ESNOSPC) in
      if dest =? 0 then after_checks
      else if dmax =? 0 then fail_str ESZEROL
      else if destbos =? BOS_UNKNOWN then
        (if (rmax_wstr c <? dmax) || (rmax_wstr c <? len) then fail_str ESLEMAX else after_checks)
      else if (destbos <? dmax * w) || (destbos <? len * w) then
        (* after the fix: the wide helper clears destbos / w elements (it used to be the narrow one: one byte without null-slack) *)
        (if (rmax_wstr c <? dmax) || (rmax_wstr c <? len) then handle_error c w dest (destbos / w) ESLEMAX ;;; Ret ESLEMAX else handle_error c w dest (destbos / w) EOVERFLOW ;;; Ret EOVERFLOW)
      else after_checks).

(* _wcstombs_s_chk(retvalp, dest, dmax, src, len, destbos) *)
Definition wcstombs_s (c : cfg) (utf8 : bool) (retvalp dest dmax src len destbos : Z) : prog Z :=
  let w := wchar_w c in
  if retvalp =? 0 then fail_str ESNULLP
  else Store 8 retvalp 0 (
    let body : prog Z :=
      if src =? 0 then
        (if dest =? 0 then Ret tt else (if null_slack c then Fill dest dmax 0 (Ret tt) else Store 1 dest 0 (Ret tt))) ;;; fail_str ESNULLP
      else if dest =? src then fail_str ESOVRLP
      else
        let finish (l : Z) : prog Z :=
          if (0 <? l) && (l <? dmax) then
            (if dest =? 0 then Ret EOK
             else if null_slack c then Fill (dest + l) (dmax - l) 0 (Ret EOK) else Store 1 (dest + l) 0 (Ret EOK))
          else
            let rc := if l <=? rmax_str c then ESNOSPC else EILSEQ in
            if dest =? 0 then Ret rc else handle_error c 1 dest dmax rc ;;; Ret rc in
        if negb (dest =? 0) && (dmax <? len) then
          (* len cut to dmax (the C library may store len bytes): a stop in front of a character that len would have admitted is "no room" *)
          wcstombs_loop2 utf8 w (Z.to_nat (rmax_str c + 1)) dest src dmax 0 (fun cnt nxt =>
            Store 8 retvalp cnt (finish (match nxt with
                                          | Some cl => if (cnt <? dmax) && (cnt + cl <=? len) then dmax else cnt
                                          | None => cnt
                                          end)))
        else
          l <- wcstombs_m utf8 w dest src len (rmax_str c + 1) ;; Store 8 retvalp l (finish l) in
    if dest =? 0 then body
    else if dmax =? 0 then fail_str ESZEROL
    else if destbos =? BOS_UNKNOWN then
      (if (rmax_wstr c <? dmax) || (rmax_wstr c <? len) then fail_str ESLEMAX else body)
    else if (destbos <? dmax) || (destbos <? len) then
      (if (rmax_wstr c <? dmax) || (rmax_wstr c <? len) then handle_error c 1 dest destbos ESLEMAX ;;; Ret ESLEMAX
       else handle_error c 1 dest destbos EOVERFLOW ;;; Ret EOVERFLOW)
    else body).

(* checks shared by wcrtomb_s / wctomb_s on (dest, dmax, destbos) *)
Definition chk_c_dest (c : cfg) (dest dmax destbos : Z) (k : unit -> prog Z) : prog Z :=
  if dest =? 0 then (if dmax =? 0 then k tt else fail_str ESNULLP)
  else if dmax =? 0 then fail_str ESZEROL
  else if destbos =? BOS_UNKNOWN then (if rmax_wstr c <? dmax then fail_str ESLEMAX else k tt)
  else if destbos <? dmax then (if rmax_str c <? dmax then fail_str ESLEMAX else fail_str EOVERFLOW)
  else k tt.

(* _wcrtomb_s_chk(retvalp, dest, dmax, wc, ps, destbos) *)
Definition wcrtomb_s (c : cfg) (utf8 : bool) (retvalp dest dmax wc ps destbos : Z) : prog Z :=
  if retvalp =? 0 then fail_str ESNULLP
  else if ps =? 0 then fail_str ESNULLP
  else chk_c_dest c dest dmax destbos (fun _ =>
    let len := wcx_len utf8 true dest wc in          (* wcrtomb(dest ? tmp : NULL, wc, ps): the bytes go to a local buffer *)
    Store 8 retvalp len (
      if len <? dmax then
        (if dest =? 0 then Ret EOK
         else store_bytes dest (wcx_bytes utf8 wc)
                (if null_slack c then Fill (dest + len) (dmax - len) 0 (Ret EOK) else Store 1 (dest + len) 0 (Ret EOK)))
      else
        let rc := if len <=? rmax_str c then ESNOSPC else EILSEQ in
        if dest =? 0 then Ret rc else handle_error c 1 dest dmax rc ;;; Ret rc)).

(* _wctomb_s_chk(retvalp : pointer to int, dest, dmax, wc, destbos) *)
Definition wctomb_s (c : cfg) (utf8 : bool) (retvalp dest dmax wc destbos : Z) : prog Z :=
  if retvalp =? 0 then fail_str ESNULLP
  else chk_c_dest c dest dmax destbos (fun _ =>
    let len := wcx_len utf8 false dest wc in
    Store 4 retvalp len (
      if (0 <? len) && (len <? dmax) then
        (if dest =? 0 then Ret EOK
         else store_bytes dest (wcx_bytes utf8 wc)
                (if null_slack c then Fill (dest + len) (dmax - len) 0 (Ret EOK) else Ret EOK))
      else
        let rc := if 0 <? len then ESNOSPC else if len =? -1 then EILSEQ else 0 in   (* errno stays 0 for wctomb(NULL) / L'\\0' *)
        if dest =? 0 then Ret rc else handle_error c 1 dest dmax rc ;;; Ret rc)).
