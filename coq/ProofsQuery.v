(* ProofsQuery.v -- C10: the query-function models store only through their result pointer (operands are never
   modified, for all arguments), and functional results of memcmp_s / memchr_s against the libc specification. *)
From Coq Require Import List ZArith Lia Bool.
From SC Require Import Base Wp Cfg Comb CombProofs ModQuery ProofsTs.
Import ListNotations.
Local Open Scope Z_scope.

Lemma range_ext_self p w : range_in (ext p w) p w.
Proof. intros x Hx. unfold ext. lia. Qed.
Lemma hfail_writes P hk code : writes_in P (hfail hk code).
Proof. exact I. Qed.
Lemma chk_max_ovr_writes P hk rmax dmax bos k : (writes_in P (k tt)) -> writes_in P (chk_max_ovr hk rmax dmax bos k).
Proof. intros H. unfold chk_max_ovr. bsplit; cbn; auto. Qed.

Section Writes.
Variable P : Z -> Prop.
Lemma strcmp_loop_writes n : forall d s slen srcbos k, (forall d' s', writes_in P (k d' s')) -> writes_in P (strcmp_loop n d s slen srcbos k).
Proof. induction n as [|n IH]; intros d s slen srcbos k Hk; cbn [strcmp_loop writes_in]; intros a; bsplit; cbn; auto; intros b; bsplit; cbn; auto. Qed.
Lemma strcasecmp_loop_writes n : forall d s r, range_in P r 4 -> writes_in P (strcasecmp_loop n d s r).
Proof. induction n as [|n IH]; intros d s r Hr; cbn [strcasecmp_loop writes_in]; intros a; bsplit; cbn; auto; intros b; bsplit; cbn; auto. Qed.
Lemma memcmp_loop_writes n : forall d s r, range_in P r 4 -> writes_in P (memcmp_loop n d s r).
Proof. induction n as [|n IH]; intros d s r Hr; cbn [memcmp_loop writes_in]; auto. intros a b. bsplit; cbn; auto. Qed.
Lemma strchr_m_writes f : forall p ch k, (forall r, writes_in P (k r)) -> writes_in P (strchr_m f p ch k).
Proof. induction f as [|f IH]; intros p ch k Hk; cbn [strchr_m writes_in]; auto. intros a. bsplit; auto. Qed.
Lemma memchr_m_writes n : forall p ch k, (forall r, writes_in P (k r)) -> writes_in P (memchr_m n p ch k).
Proof. induction n as [|n IH]; intros p ch k Hk; cbn [memchr_m writes_in]; auto. intros a. bsplit; auto. Qed.
Lemma memrchr_m_writes n : forall p ch k, (forall r, writes_in P (k r)) -> writes_in P (memrchr_m n p ch k).
Proof. induction n as [|n IH]; intros p ch k Hk; cbn [memrchr_m writes_in]; auto. intros a. bsplit; auto. Qed.
Lemma in_set_writes n : forall s a k, (forall b, writes_in P (k b)) -> writes_in P (in_set n s a k).
Proof. induction n as [|n IH]; intros s a k Hk; cbn [in_set writes_in]; intros b; bsplit; auto. Qed.
Lemma span_loop_writes inc n : forall d src slen cp cnt, range_in P cp 8 -> writes_in P (span_loop inc n d src slen cp cnt).
Proof.
  induction n as [|n IH]; intros d src slen cp cnt Hr; cbn [span_loop writes_in]; intros a; bsplit; cbn; auto.
  apply in_set_writes. intros b. bsplit; cbn; auto.
Qed.
Lemma pbrk_inner_writes f : forall ps a len k, (forall r, writes_in P (k r)) -> writes_in P (pbrk_inner f ps a len k).
Proof. induction f as [|f IH]; intros ps a len k Hk; cbn [pbrk_inner writes_in]; auto. intros b. bsplit; auto. Qed.
Lemma pbrk_loop_writes n : forall d src slen fp fuel, range_in P fp 8 -> writes_in P (pbrk_loop n d src slen fp fuel).
Proof.
  induction n as [|n IH]; intros d src slen fp fuel Hr; cbn [pbrk_loop writes_in]; intros a; bsplit; cbn; auto.
  apply pbrk_inner_writes. intros [[|]|]; cbn; auto.
Qed.
Lemma prefix_loop_writes n : forall d s, writes_in P (prefix_loop n d s).
Proof. induction n as [|n IH]; intros d s; cbn [prefix_loop writes_in]; intros b; bsplit; cbn; auto. intros a. bsplit; cbn; auto. Qed.
Lemma first_loop_writes same n : forall d s i r, range_in P r 8 -> writes_in P (first_loop same n d s i r).
Proof. induction n as [|n IH]; intros d s i r Hr; cbn [first_loop writes_in]; intros a; bsplit; cbn; auto; intros b; bsplit; cbn; auto. Qed.
Lemma wnlen_loop_writes w n : forall p cnt orig, writes_in P (wnlen_loop w n p cnt orig).
Proof. induction n as [|n IH]; intros p cnt orig; cbn [wnlen_loop writes_in]; auto. intros a. bsplit; cbn; auto. Qed.
End Writes.

(* every modelled function: stores are confined to the result cell *)
Ltac wr := repeat first
  [ exact I
  | apply range_ext_self
  | match goal with
    | |- _ /\ _ => split
    | |- forall _, _ => intro
    | |- writes_in _ (chk_max_ovr _ _ _ _ _) => apply chk_max_ovr_writes
    | |- writes_in _ (strcmp_loop _ _ _ _ _ _) => apply strcmp_loop_writes
    | |- writes_in _ (strcasecmp_loop _ _ _ _) => apply strcasecmp_loop_writes
    | |- writes_in _ (memcmp_loop _ _ _ _) => apply memcmp_loop_writes
    | |- writes_in _ (strchr_m _ _ _ _) => apply strchr_m_writes
    | |- writes_in _ (memchr_m _ _ _ _) => apply memchr_m_writes
    | |- writes_in _ (memrchr_m _ _ _ _) => apply memrchr_m_writes
    | |- writes_in _ (span_loop _ _ _ _ _ _ _) => apply span_loop_writes
    | |- writes_in _ (pbrk_loop _ _ _ _ _ _) => apply pbrk_loop_writes
    | |- writes_in _ (prefix_loop _ _ _) => apply prefix_loop_writes
    | |- writes_in _ (first_loop _ _ _ _ _ _) => apply first_loop_writes
    | |- writes_in _ (wnlen_loop _ _ _ _ _) => apply wnlen_loop_writes
    | |- writes_in _ (hfail _ _) => exact I
    | |- writes_in _ (if ?b then _ else _) => destruct b eqn:?
    | |- writes_in _ (match ?x with _ => _ end) => destruct x eqn:?
    | |- writes_in _ _ => progress cbn [writes_in]
    end ].
Lemma strcmp_s_writes c dest dmax src r db sb : writes_in (ext r 4) (strcmp_s c dest dmax src r db sb).
Proof. unfold strcmp_s. wr. Qed.
Lemma strcasecmp_s_writes c dest dmax src r db : writes_in (ext r 4) (strcasecmp_s c dest dmax src r db).
Proof. unfold strcasecmp_s. wr. Qed.
Lemma memcmp_s_writes c dest dmax src slen r db sb : writes_in (ext r 4) (memcmp_s c dest dmax src slen r db sb).
Proof. unfold memcmp_s. wr. Qed.
Lemma strchr_s_writes c dest dmax ch r db : writes_in (ext r 8) (strchr_s c dest dmax ch r db).
Proof. unfold strchr_s. wr. Qed.
Lemma memchr_s_writes c dest dmax ch r db : writes_in (ext r 8) (memchr_s c dest dmax ch r db).
Proof. unfold memchr_s. wr. Qed.
Lemma memrchr_core_writes c dest dmax ch r db : writes_in (ext r 8) (memrchr_core c dest dmax ch r db).
Proof. unfold memrchr_core. wr. Qed.
Lemma strrchr_s_writes c dest dmax ch r db : writes_in (ext r 8) (strrchr_s c dest dmax ch r db).
Proof.
  unfold strrchr_s. wr. apply writes_in_bind.
  - eapply writes_in_weaken; [|apply strnlen_s_prog_writes]. intros a [].
  - intros len. destruct (len =? 0); [exact I|apply memrchr_core_writes].
Qed.
Lemma strspn_s_writes c dest dmax src slen r db sb : writes_in (ext r 8) (strspn_s c dest dmax src slen r db sb).
Proof. unfold strspn_s. wr. Qed.
Lemma strcspn_s_writes c dest dmax src slen r db sb : writes_in (ext r 8) (strcspn_s c dest dmax src slen r db sb).
Proof. unfold strcspn_s. wr. Qed.
(* strpbrk_s: when the object size of src is known and smaller than slen the C code reports through
   handle_str_bos_overflow(dest, destbos), which CLEARS dest -- excluded here, see Properties_C10 *)
Lemma strpbrk_s_writes c dest dmax src slen r db sb : sb = BOS_UNKNOWN \/ slen <= sb ->
  writes_in (ext r 8) (strpbrk_s c dest dmax src slen r db sb).
Proof.
  intros Hsb. unfold strpbrk_s. wr.
  destruct (sb =? BOS_UNKNOWN) eqn:Eb.
  - wr.
  - destruct (sb <? slen) eqn:El; [|wr].
    exfalso. destruct Hsb as [->|H]; [rewrite Z.eqb_refl in Eb; discriminate|lia].
Qed.
Lemma strprefix_s_writes c dest dmax src db : writes_in nowhere (strprefix_s c dest dmax src db).
Proof. unfold strprefix_s. wr. Qed.
Lemma strfirst_s_writes same c dest dmax src r db : writes_in (ext r 8) (strfirst_s same c dest dmax src r db).
Proof. unfold strfirst_s. wr. Qed.
Lemma wcsnlen_s_writes c str smax bos : writes_in nowhere (wcsnlen_s c str smax bos).
Proof. unfold wcsnlen_s. wr. Qed.

(* from the footprint to the memory: what a call leaves outside the result cell is what it found *)
Lemma exec_frame {A} (Pp : Z -> Prop) (p : prog A) m : writes_in Pp p -> forall x, ~ Pp x -> snd (fst (exec p m)) x = m x.
Proof.
  intros H x Hx. unfold exec. pose proof (run_frame nofail Pp p H (w0 m) x Hx) as F.
  destruct (run nofail p (w0 m)) as [a w]. cbn in *. exact F.
Qed.

(* ---------- memcmp_s: EOK and *diff = the sign of the first differing byte pair, compared as unsigned chars (= memcmp) ---------- *)
Lemma memcmp_loop_spec n : forall d s diff m, wf_mem m ->
  wp (memcmp_loop n d s diff) m (fun r m' => r = EOK /\
     m' = (if first_diff_sign n m d s =? 0 then m else store m 4 diff (i32 (first_diff_sign n m d s)))).
Proof.
  induction n as [|n IH]; intros d s diff m Hm; cbn [memcmp_loop wp first_diff_sign].
  - split; reflexivity.
  - rewrite !load1. destruct (m d =? m s) eqn:E; cbn [negb].
    + apply Z.eqb_eq in E. rewrite E, Z.ltb_irrefl. apply IH, Hm.
    + apply Z.eqb_neq in E. cbn [wp]. split; [reflexivity|].
      destruct (m d <? m s) eqn:E1; [reflexivity|]. destruct (m s <? m d) eqn:E2; [reflexivity|lia].
Qed.
Lemma first_diff_sign_ext n : forall m1 m2 d s, (forall i, 0 <= i < Z.of_nat n -> m1 (d + i) = m2 (d + i) /\ m1 (s + i) = m2 (s + i)) ->
  first_diff_sign n m1 d s = first_diff_sign n m2 d s.
Proof.
  induction n as [|n IH]; intros m1 m2 d s H; cbn [first_diff_sign]; [reflexivity|].
  destruct (H 0 ltac:(lia)) as [H1 H2]. rewrite !Z.add_0_r in H1, H2. rewrite H1, H2.
  rewrite (IH m1 m2 (d + 1) (s + 1)); [reflexivity|]. intros i Hi. specialize (H (i + 1) ltac:(lia)).
  replace (d + 1 + i) with (d + (i + 1)) by lia. replace (s + 1 + i) with (s + (i + 1)) by lia. exact H.
Qed.
Lemma first_diff_sign_same n : forall m p, first_diff_sign n m p p = 0.
Proof. induction n as [|n IH]; intros m p; cbn [first_diff_sign]; [reflexivity|]. rewrite Z.ltb_irrefl. apply IH. Qed.
Lemma store_out_byte m w p v x : ~ (p <= x < p + w) -> store m w p v x = m x.
Proof. intros H. apply store_out. exact H. Qed.
Theorem memcmp_s_spec c dest dmax src slen diff m : wf_mem m ->
  diff <> 0 -> dest <> 0 -> src <> 0 -> 0 < slen <= dmax -> dmax <= rmax_mem c ->
  (forall i, 0 <= i < slen -> ~ ext diff 4 (dest + i) /\ ~ ext diff 4 (src + i)) ->
  wp (memcmp_s c dest dmax src slen diff BOS_UNKNOWN BOS_UNKNOWN) m (fun r m' =>
     r = EOK /\ load m' 4 diff = i32 (first_diff_sign (Z.to_nat slen) m dest src)).
Proof.
  intros Hm Hd Hde Hs Hl Hr Hdisj. unfold memcmp_s, chk_max_ovr.
  replace (diff =? 0) with false by lia. cbn [wp]. replace (dest =? 0) with false by lia. replace (src =? 0) with false by lia.
  replace (dmax =? 0) with false by lia. rewrite Z.eqb_refl. replace (rmax_mem c <? dmax) with false by lia.
  replace (slen =? 0) with false by lia. replace (rmax_mem c <? slen) with false by lia. replace (dmax <? slen) with false by lia.
  destruct (dest =? src) eqn:Eq.
  - apply Z.eqb_eq in Eq. subst src. cbn [wp]. split; [reflexivity|]. rewrite first_diff_sign_same.
    rewrite load_store_same by lia. reflexivity.
  - cbn [wp]. set (m2 := store (store m 4 diff (i32 (-1))) 4 diff 0).
    assert (Hm2 : wf_mem m2) by (apply wf_store, wf_store, Hm).
    eapply wp_weaken; [|apply memcmp_loop_spec, Hm2].
    intros r m' [-> ->]. split; [reflexivity|].
    replace (Z.min dmax slen) with slen by lia.
    assert (Hext : first_diff_sign (Z.to_nat slen) m2 dest src = first_diff_sign (Z.to_nat slen) m dest src).
    { apply first_diff_sign_ext. intros i Hi. destruct (Hdisj i ltac:(lia)) as [H1 H2]. unfold ext in H1, H2.
      subst m2. rewrite !store_out_byte by lia. split; reflexivity. }
    rewrite Hext. destruct (first_diff_sign (Z.to_nat slen) m dest src =? 0) eqn:E0.
    + apply Z.eqb_eq in E0. rewrite E0. subst m2. rewrite load_store_same by lia. reflexivity.
    + rewrite load_store_same by lia. unfold i32. rewrite Z.mod_mod by lia. reflexivity.
Qed.

(* ---------- memchr_s: EOK and *resultp = the first address among dmax bytes holding (unsigned char)ch, else ESNOTFND and NULL ---------- *)
Fixpoint first_byte (n : nat) (m : mem) (p ch : Z) : Z :=      (* memchr *)
  match n with O => 0 | S n' => if m p =? ch then p else first_byte n' m (p + 1) ch end.
Lemma memchr_m_spec n : forall p ch k m Q, wp (k (first_byte n m p (ch mod 256))) m Q -> wp (memchr_m n p ch k) m Q.
Proof.
  induction n as [|n IH]; intros p ch k m Q H; cbn [memchr_m wp first_byte] in *; [exact H|].
  rewrite load1. destruct (m p =? ch mod 256); [exact H|apply IH, H].
Qed.
Theorem memchr_s_spec c dest dmax ch resultp m : wf_mem m ->
  resultp <> 0 -> dest <> 0 -> 0 < dmax <= rmax_mem c -> 0 <= ch <= 255 ->
  (forall i, 0 <= i < dmax -> ~ ext resultp 8 (dest + i)) -> 0 < dest -> dest + dmax <= 18446744073709551616 ->
  wp (memchr_s c dest dmax ch resultp BOS_UNKNOWN) m (fun r m' =>
     let f := first_byte (Z.to_nat dmax) m dest ch in
     load m' 8 resultp = f /\ r = (if f =? 0 then ESNOTFND else EOK)).
Proof.
  intros Hm Hr Hd Hl Hc Hdisj Hdr Hdr2. unfold memchr_s, chk_max_ovr.
  replace (resultp =? 0) with false by lia. cbn [wp]. replace (dest =? 0) with false by lia.
  replace (dmax =? 0) with false by lia. rewrite Z.eqb_refl. replace (rmax_mem c <? dmax) with false by lia.
  replace (255 <? sx32 (ch mod 4294967296)) with false by (unfold sx32; rewrite Z.mod_small by lia; destruct (ch <? 2147483648) eqn:E; lia).
  apply memchr_m_spec. rewrite Z.mod_small by lia.
  set (m1 := store m 8 resultp 0).
  assert (Hf : first_byte (Z.to_nat dmax) m1 dest ch = first_byte (Z.to_nat dmax) m dest ch).
  { assert (G : forall n p, (forall i, 0 <= i < Z.of_nat n -> ~ ext resultp 8 (p + i)) -> first_byte n m1 p ch = first_byte n m p ch).
    { induction n as [|n IH]; intros p H; cbn [first_byte]; [reflexivity|].
      pose proof (H 0 ltac:(lia)) as H0. rewrite Z.add_0_r in H0. unfold ext in H0. subst m1. rewrite store_out_byte by lia.
      rewrite IH; [reflexivity|]. intros i Hi. replace (p + 1 + i) with (p + (i + 1)) by lia. apply H. lia. }
    apply G. intros i Hi. apply Hdisj. lia. }
  rewrite Hf. set (f := first_byte (Z.to_nat dmax) m dest ch).
  assert (Hfr : f = 0 \/ dest <= f < dest + dmax).
  { subst f. assert (G : forall n p, first_byte n m p ch = 0 \/ p <= first_byte n m p ch < p + Z.of_nat n).
    { induction n as [|n IH]; intros p; cbn [first_byte]; [left; reflexivity|]. destruct (m p =? ch); [right; lia|].
      destruct (IH (p + 1)) as [H|H]; [left; exact H|right; lia]. }
    destruct (G (Z.to_nat dmax) dest) as [H|H]; [left; exact H|right; lia]. }
  cbn [wp]. destruct (f =? 0) eqn:E0; cbn [wp]; (split; [|reflexivity]); rewrite load_store_same by lia; apply Z.mod_small;
    change (256 ^ 8) with 18446744073709551616; lia.
Qed.
