(* FmtScan.v -- C09: the "%n" pre-scan of the printf_s/scanf_s entry points, a model of how the
   C library splits a format into directives, and what can / cannot be proved about the pre-scan. *)
From Coq Require Import List ZArith Lia Bool.
Import ListNotations.
Local Open Scope Z_scope.

Definition PCT := 37.    (* '%' *)
Definition CH_n := 110.  (* 'n' *)

(* ---------- the pre-scan as written in the entry points ----------
   p = strstr(fmt, "%n");  if (p && (p == fmt || p[-1] != '%')) reject;   (first occurrence only) *)
Fixpoint find_pn (l : list Z) (i : nat) : option nat :=
  match l with
  | a :: t => match t with
              | b :: _ => if (a =? PCT) && (b =? CH_n) then Some i else find_pn t (S i)
              | [] => None
              end
  | [] => None
  end.
Definition prescan_accepts (fmt : list Z) : bool :=
  match find_pn fmt 0 with
  | None => true
  | Some O => false
  | Some (S j) => nth j fmt 0 =? PCT
  end.

(* ---------- how the C library reads a format: directives ----------
   after '%': any run of flag / width / precision / positional / length characters, then the
   conversion character. (An over-approximation of the standard grammar: it accepts every prefix
   run of modifier characters, which is what glibc's parsers do.) *)
Definition is_mod (scanf : bool) (c : Z) : bool :=
  existsb (Z.eqb c) [45; 43; 32; 35; 39; 73; 42; 36; 46; 104; 108; 76; 113; 106; 122; 116]
  || ((48 <=? c) && (c <=? 57)) || (scanf && (c =? 109)).
Inductive st := SLit | SDir (supp : bool) | SSet (first : bool).
(* conversion characters met, with "assignment suppressed" (scanf '*') *)
Fixpoint convs (scanf : bool) (s : st) (l : list Z) : list (Z * bool) :=
  match l with
  | [] => []
  | c :: t =>
      match s with
      | SLit => if c =? PCT then convs scanf (SDir false) t else convs scanf SLit t
      | SDir supp =>
          if is_mod scanf c then convs scanf (SDir (supp || (scanf && (c =? 42)))) t
          else if scanf && (c =? 91) then (c, supp) :: convs scanf (SSet true) t
          else (c, supp) :: convs scanf SLit t
      | SSet first =>
          if (c =? 93) && negb first then convs scanf SLit t
          else if (c =? 94) && first then convs scanf (SSet true) t
          else convs scanf (SSet false) t
      end
  end.
(* the format contains a directive that stores through an argument on behalf of 'n' *)
Definition has_n (scanf : bool) (fmt : list Z) : bool :=
  existsb (fun d => (fst d =? CH_n) && negb (snd d)) (convs scanf SLit fmt).

(* what a libc-delegating entry point does with a format *)
Inductive verdict := Rejected | PassedClean | PassedWithN.
Definition delegating_entry (scanf : bool) (fmt : list Z) : verdict :=
  if prescan_accepts fmt then (if has_n scanf fmt then PassedWithN else PassedClean) else Rejected.
(* the property for such an entry point *)
Definition C09_ok (scanf : bool) (fmt : list Z) : bool :=
  match delegating_entry scanf fmt with PassedWithN => false | _ => true end.

(* ---------- the own engine (narrow printf family): directive walk of safec_vsnprintf_s ----------
   what the engine does at each directive; there is no "store through argument" action *)
Inductive eact := EOut | EArg | EErr.
Definition engine_mod (c : Z) : bool :=  (* flags, width, precision, length, as the engine consumes them *)
  existsb (Z.eqb c) [48; 45; 43; 32; 35; 42; 46; 108; 76; 104; 116; 106; 122] || ((48 <=? c) && (c <=? 57)).
Fixpoint engine_walk (s : bool) (l : list Z) : list eact :=   (* s = inside a directive *)
  match l with
  | [] => if s then [EErr] else []
  | c :: t =>
      if s then
        (if engine_mod c then engine_walk true t
         else if c =? CH_n then [EErr]                          (* case 'n': report, return -1 *)
         else if c =? PCT then EOut :: engine_walk false t
         else if existsb (Z.eqb c) [100; 105; 117; 120; 88; 111; 98; 102; 70; 101; 69; 103; 71; 97; 65; 99; 115; 112]
              then EArg :: engine_walk false t
         else [EErr])
      else if c =? PCT then engine_walk true t else EOut :: engine_walk false t
  end.

(* ---------- formats for which the pre-scan is sound: every '%' is followed directly by a
   conversion character other than '%' (no flags, width, precision, length, no "%%") ---------- *)
Fixpoint simple (scanf : bool) (l : list Z) : bool :=
  match l with
  | a :: t => (if a =? PCT then match t with b :: _ => negb (is_mod scanf b) && negb (b =? PCT) && negb (scanf && (b =? 91)) | [] => false end else true)
              && simple scanf t
  | [] => true
  end.
