(* ProofsQuery2.v -- C10: functional results of strprefix_s, strfirstdiff_s, strfirstsame_s against list-level
   characterisations, for every memory, every dmax. *)
From Coq Require Import List ZArith Lia Bool.
From SC Require Import Base Wp Cfg Comb CombProofs ModQuery ProofsQuery.
Import ListNotations.
Local Open Scope Z_scope.

(* ---------- strprefix_s ---------- *)
(* src (up to its terminator) agrees with dest on the first n characters *)
Fixpoint is_prefix (n : nat) (m : mem) (d s : Z) : bool :=
  if m s =? 0 then true else
  match n with O => true | S n' => if m d =? m s then is_prefix n' m (d + 1) (s + 1) else false end.

(* the textbook reading: every src character before its terminator, among the first n, equals the dest character there *)
Lemma is_prefix_spec n : forall m d s,
  is_prefix n m d s = true <->
  (forall j, 0 <= j < Z.of_nat n -> (forall i, 0 <= i <= j -> m (s + i) <> 0) -> m (d + j) = m (s + j)).
Proof.
  induction n as [|n IH]; intros m d s; cbn [is_prefix].
  - destruct (m s =? 0); split; auto; intros _ j Hj; cbn in Hj; lia.
  - destruct (m s =? 0) eqn:Es.
    + apply Z.eqb_eq in Es. split; [|reflexivity]. intros _ j Hj Hnz. exfalso. apply (Hnz 0); [lia|]. rewrite Z.add_0_r. exact Es.
    + apply Z.eqb_neq in Es. destruct (m d =? m s) eqn:E.
      * apply Z.eqb_eq in E. rewrite IH. rewrite Nat2Z.inj_succ. split.
        -- intros H j Hj Hnz. destruct (Z.eq_dec j 0) as [->|Nj]; [rewrite !Z.add_0_r; exact E|].
           specialize (H (j - 1) ltac:(lia)). replace (d + 1 + (j - 1)) with (d + j) in H by lia. replace (s + 1 + (j - 1)) with (s + j) in H by lia.
           apply H. intros i Hi. replace (s + 1 + i) with (s + (i + 1)) by lia. apply Hnz. lia.
        -- intros H j Hj Hnz. replace (d + 1 + j) with (d + (j + 1)) by lia. replace (s + 1 + j) with (s + (j + 1)) by lia.
           apply H; [lia|]. intros i Hi. destruct (Z.eq_dec i 0) as [->|Ni]; [rewrite Z.add_0_r; exact Es|].
           replace (s + i) with (s + 1 + (i - 1)) by lia. apply Hnz. lia.
      * apply Z.eqb_neq in E. split; [discriminate|]. intros H. exfalso. apply E. specialize (H 0 ltac:(rewrite Nat2Z.inj_succ; lia)).
        rewrite !Z.add_0_r in H. apply H. intros i Hi. replace i with 0 by lia. rewrite Z.add_0_r. exact Es.
Qed.

Lemma prefix_loop_wp n : forall d s m (Q : Z -> mem -> Prop),
  Q (if is_prefix n m d s then EOK else ESNOTFND) m -> wp (prefix_loop n d s) m Q.
Proof.
  induction n as [|n IH]; intros d s m Q HQ; cbn [prefix_loop wp is_prefix] in *; rewrite load1.
  - destruct (m s =? 0); exact HQ.
  - destruct (m s =? 0); [exact HQ|]. cbn [wp]. rewrite load1.
    destruct (m d =? m s); cbn [negb wp]; [apply IH|]; exact HQ.
Qed.

Theorem strprefix_s_spec c dest dmax src m : dest <> 0 -> src <> 0 -> 0 < dmax <= rmax_str c ->
  wp (strprefix_s c dest dmax src BOS_UNKNOWN) m (fun r m' =>
     m' = m /\ r = (if m src =? 0 then ESNOTFND else if is_prefix (Z.to_nat dmax) m dest src then EOK else ESNOTFND)).
Proof.
  intros Hd Hs Hm. unfold strprefix_s, chk_max_ovr.
  replace (dest =? 0) with false by lia. replace (src =? 0) with false by lia. replace (dmax =? 0) with false by lia.
  rewrite Z.eqb_refl. replace (rmax_str c <? dmax) with false by lia. cbn [wp]. rewrite load1.
  destruct (m src =? 0); cbn [wp]; [split; reflexivity|]. apply prefix_loop_wp. split; reflexivity.
Qed.

(* ---------- strfirstdiff_s / strfirstsame_s ---------- *)
Definition nf (same : bool) : Z := if same then ESNOTFND else ESNODIFF.
(* the first index, among the first n positions where both strings still run, at which the characters (dis)agree *)
Fixpoint first_idx (same : bool) (n : nat) (m : mem) (d s i : Z) : option Z :=
  if m d =? 0 then None else if m s =? 0 then None else
  match n with
  | O => None
  | S n' => if Bool.eqb (m d =? m s) same then Some i else first_idx same n' m (d + 1) (s + 1) (i + 1)
  end.

Lemma first_idx_some same n : forall m d s i k, first_idx same n m d s i = Some k ->
  i <= k < i + Z.of_nat n /\ m (d + (k - i)) <> 0 /\ m (s + (k - i)) <> 0 /\
  Bool.eqb (m (d + (k - i)) =? m (s + (k - i))) same = true /\
  forall j, 0 <= j < k - i -> m (d + j) <> 0 /\ m (s + j) <> 0 /\ Bool.eqb (m (d + j) =? m (s + j)) same = false.
Proof.
  induction n as [|n IH]; intros m d s i k; cbn [first_idx].
  - destruct (m d =? 0); [discriminate|]. destruct (m s =? 0); discriminate.
  - destruct (m d =? 0) eqn:Ed; [discriminate|]. destruct (m s =? 0) eqn:Es; [discriminate|].
    apply Z.eqb_neq in Ed. apply Z.eqb_neq in Es. rewrite Nat2Z.inj_succ.
    destruct (Bool.eqb (m d =? m s) same) eqn:E.
    + intros [= <-]. rewrite Z.sub_diag, !Z.add_0_r. repeat split; auto; try lia; try (intros j Hj; lia).
    + intros H. apply IH in H. destruct H as (H1 & H2 & H3 & H4 & H5).
      replace (d + 1 + (k - (i + 1))) with (d + (k - i)) in * by lia. replace (s + 1 + (k - (i + 1))) with (s + (k - i)) in * by lia.
      split; [lia|]. split; [exact H2|]. split; [exact H3|]. split; [exact H4|].
      intros j Hj. destruct (Z.eq_dec j 0) as [->|Nj]; [rewrite !Z.add_0_r; auto|].
      specialize (H5 (j - 1) ltac:(lia)). replace (d + 1 + (j - 1)) with (d + j) in H5 by lia. replace (s + 1 + (j - 1)) with (s + j) in H5 by lia. exact H5.
Qed.
Lemma first_idx_none same n : forall m d s i, first_idx same n m d s i = None ->
  exists t, 0 <= t <= Z.of_nat n /\ (t = Z.of_nat n \/ m (d + t) = 0 \/ m (s + t) = 0) /\
  forall j, 0 <= j < t -> m (d + j) <> 0 /\ m (s + j) <> 0 /\ Bool.eqb (m (d + j) =? m (s + j)) same = false.
Proof.
  induction n as [|n IH]; intros m d s i; cbn [first_idx].
  - intros _. exists 0. split; [cbn; lia|]. split; [left; reflexivity|]. intros j Hj. lia.
  - destruct (m d =? 0) eqn:Ed. { apply Z.eqb_eq in Ed. intros _. exists 0. rewrite !Z.add_0_r. split; [lia|]. split; [right; left; exact Ed|]. intros j Hj. lia. }
    destruct (m s =? 0) eqn:Es. { apply Z.eqb_eq in Es. intros _. exists 0. rewrite !Z.add_0_r. split; [lia|]. split; [right; right; exact Es|]. intros j Hj. lia. }
    apply Z.eqb_neq in Ed. apply Z.eqb_neq in Es.
    destruct (Bool.eqb (m d =? m s) same) eqn:E; [discriminate|]. intros H. apply IH in H. destruct H as (t & Ht & Hend & Hall).
    exists (t + 1). rewrite Nat2Z.inj_succ. split; [lia|]. split.
    + replace (d + (t + 1)) with (d + 1 + t) by lia. replace (s + (t + 1)) with (s + 1 + t) by lia. destruct Hend as [->|H]; [left; lia|right; exact H].
    + intros j Hj. destruct (Z.eq_dec j 0) as [->|Nj]; [rewrite !Z.add_0_r; auto|].
      specialize (Hall (j - 1) ltac:(lia)). replace (d + 1 + (j - 1)) with (d + j) in Hall by lia. replace (s + 1 + (j - 1)) with (s + j) in Hall by lia. exact Hall.
Qed.

Lemma first_loop_wp same rp n : forall d s i m (Q : Z -> mem -> Prop),
  (match first_idx same n m d s i with
   | Some k => Q EOK (store m 8 rp k)
   | None => Q (nf same) m
   end) -> wp (first_loop same n d s i rp) m Q.
Proof.
  induction n as [|n IH]; intros d s i m Q HQ; cbn [first_loop wp first_idx] in *; rewrite load1.
  - destruct (m d =? 0); [exact HQ|]. cbn [wp]. rewrite load1. destruct (m s =? 0); exact HQ.
  - destruct (m d =? 0); [exact HQ|]. cbn [wp]. rewrite load1. destruct (m s =? 0); [exact HQ|].
    destruct (Bool.eqb (m d =? m s) same); cbn [wp]; [exact HQ|]. apply IH. exact HQ.
Qed.

Lemma first_idx_ext same n : forall m1 m2 d s i, (forall j, 0 <= j <= Z.of_nat n -> m1 (d + j) = m2 (d + j) /\ m1 (s + j) = m2 (s + j)) ->
  first_idx same n m1 d s i = first_idx same n m2 d s i.
Proof.
  induction n as [|n IH]; intros m1 m2 d s i H; cbn [first_idx]; destruct (H 0 ltac:(lia)) as [H1 H2]; rewrite !Z.add_0_r in *; rewrite H1, H2; [reflexivity|].
  destruct (m2 d =? 0); [reflexivity|]. destruct (m2 s =? 0); [reflexivity|]. destruct (Bool.eqb (m2 d =? m2 s) same); [reflexivity|].
  apply IH. intros j Hj. rewrite Nat2Z.inj_succ in H. replace (d + 1 + j) with (d + (j + 1)) by lia. replace (s + 1 + j) with (s + (j + 1)) by lia. apply H. lia.
Qed.

Theorem strfirst_s_spec same c dest dmax src resultp m :
  resultp <> 0 -> dest <> 0 -> src <> 0 -> 0 < dmax <= rmax_str c -> dmax < 18446744073709551616 ->
  (forall j, 0 <= j <= dmax -> ~ ext resultp 8 (dest + j) /\ ~ ext resultp 8 (src + j)) ->
  wp (strfirst_s same c dest dmax src resultp BOS_UNKNOWN) m (fun r m' =>
     match first_idx same (Z.to_nat dmax) m dest src 0 with
     | Some k => r = EOK /\ load m' 8 resultp = k /\ 0 <= k < dmax
     | None => r = nf same /\ load m' 8 resultp = 0
     end /\ forall x, ~ ext resultp 8 x -> m' x = m x).
Proof.
  intros Hr Hd Hs Hm Hbig Hdisj. unfold strfirst_s, chk_max_ovr.
  replace (resultp =? 0) with false by lia. cbn [wp]. replace (dest =? 0) with false by lia. replace (src =? 0) with false by lia.
  replace (dmax =? 0) with false by lia. rewrite Z.eqb_refl. replace (rmax_str c <? dmax) with false by lia.
  set (m1 := store m 8 resultp 0).
  assert (He : first_idx same (Z.to_nat dmax) m1 dest src 0 = first_idx same (Z.to_nat dmax) m dest src 0).
  { apply first_idx_ext. intros j Hj. rewrite Z2Nat.id in Hj by lia. destruct (Hdisj j Hj) as [H1 H2]. unfold ext in H1, H2.
    subst m1. rewrite !store_out by lia. split; reflexivity. }
  apply first_loop_wp. rewrite He. destruct (first_idx same (Z.to_nat dmax) m dest src 0) as [k|] eqn:E.
  - apply first_idx_some in E. destruct E as (Hk & _). rewrite Z2Nat.id in Hk by lia. split.
    + split; [reflexivity|]. split; [|lia]. rewrite load_store_same by lia. apply Z.mod_small. change (256 ^ 8) with 18446744073709551616. lia.
    + intros x Hx. unfold ext in Hx. subst m1. rewrite !store_out by lia. reflexivity.
  - split.
    + split; [reflexivity|]. subst m1. rewrite load_store_same by lia. reflexivity.
    + intros x Hx. unfold ext in Hx. subst m1. rewrite store_out by lia. reflexivity.
Qed.
