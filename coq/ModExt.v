(* ModExt.v -- models of further destination-writing entry points (round 3): the in-place string functions,
   the field copies, memccpy_s, the pointer-returning copies and the wide memory copies.
   Each follows the control flow of its C file (order of checks, order of loads and stores in the loops). *)
From Coq Require Import List ZArith Lia Bool.
From SC Require Import Base Cfg Comb ModMem.
Import ListNotations.
Local Open Scope Z_scope.
Local Open Scope prog_scope.

(* CHK_DEST_NULL; CHK_DMAX_ZERO; CHK_DMAX_MAX / CHK_DEST_OVR (the variant that does not clear) *)
Definition chk_dest_plain (c : cfg) (d dmax destbos : Z) (k : unit -> prog Z) : prog Z :=
  if d =? 0 then fail_str ESNULLP
  else if dmax =? 0 then fail_str ESZEROL
  else if destbos =? BOS_UNKNOWN then (if rmax_str c <? dmax then fail_str ESLEMAX else k tt)
  else if destbos <? dmax then (if rmax_str c <? dmax then fail_str ESLEMAX else fail_str EOVERFLOW)
  else k tt.

(* ---- strtolowercase_s / strtouppercase_s:  while (dmax && *dest) { if in range: *dest = *dest +- 32; dest++; dmax--; } ---- *)
Fixpoint case_loop (lo hi delta : Z) (n : nat) (d : Z) : prog Z :=
  match n with
  | O => Ret EOK
  | S n' => Load 1 d (fun ch =>
      if ch =? 0 then Ret EOK
      else if (lo <=? ch) && (ch <=? hi) then Store 1 d (ch + delta) (case_loop lo hi delta n' (d + 1))
      else case_loop lo hi delta n' (d + 1))
  end.
Definition strtolowercase_s (c : cfg) (d dmax destbos : Z) : prog Z :=
  chk_dest_plain c d dmax destbos (fun _ => case_loop 65 90 32 (Z.to_nat dmax) d).
Definition strtouppercase_s (c : cfg) (d dmax destbos : Z) : prog Z :=
  chk_dest_plain c d dmax destbos (fun _ => case_loop 97 122 (-32) (Z.to_nat dmax) d).

(* ---- strset_s(dest, dmax, value): while (dmax && *dest) { *dest = value; ...}  then (null-slack) if (dmax && !*dest) memset(dest, 0, dmax) ---- *)
Fixpoint set_str_loop (c : cfg) (v : Z) (n : nat) (d : Z) (k : nat -> Z -> prog Z) : prog Z :=
  match n with
  | O => k O d
  | S n' => Load 1 d (fun ch => if ch =? 0 then k n d else Store 1 d v (set_str_loop c v n' (d + 1) k))
  end.
(* the trailing test re-reads *dest when elements remain *)
Definition slack_if_nul (c : cfg) (rem : Z) (d : Z) : prog Z :=
  if null_slack c then
    (if 0 <? rem then Load 1 d (fun ch => if ch =? 0 then Fill d rem 0 (Ret EOK) else Ret EOK) else Ret EOK)
  else Ret EOK.
Definition strset_s (c : cfg) (d dmax value destbos : Z) : prog Z :=
  chk_dest_plain c d dmax destbos (fun _ =>
    if (value <? 0) || (255 <? value) then fail_str ESLEMAX
    else set_str_loop c value (Z.to_nat dmax) d (fun rem d' => slack_if_nul c (Z.of_nat rem) d')).
(* strnset_s(dest, dmax, value, n): at most n characters; the slack runs to dmax *)
Definition strnset_s (c : cfg) (d dmax value n destbos : Z) : prog Z :=
  chk_dest_plain c d dmax destbos (fun _ =>
    if (value <? 0) || (255 <? value) then fail_str ESLEMAX
    else if dmax <? n then fail_str ESNOSPC
    else set_str_loop c value (Z.to_nat n) d (fun _ d' => slack_if_nul c (dmax - (d' - d)) d')).

(* ---- strnterminate_s(dest, dmax): count characters up to dmax-1, store the terminator; returns the count ---- *)
Fixpoint nterm_loop (n : nat) (d cnt : Z) : prog Z :=
  match n with
  | O => Store 1 d 0 (Ret cnt)                                   (* dmax == 1 left *)
  | S n' => Load 1 d (fun ch => if ch =? 0 then Store 1 d 0 (Ret cnt) else nterm_loop n' (d + 1) (cnt + 1))
  end.
Definition strnterminate_s (c : cfg) (d dmax destbos : Z) : prog Z :=
  if d =? 0 then Handler HStr ESNULLP (Ret 0)
  else if dmax =? 0 then Handler HStr ESZEROL (Ret 0)
  else if destbos =? BOS_UNKNOWN then (if rmax_str c <? dmax then Handler HStr ESLEMAX (Ret 0) else nterm_loop (Z.to_nat (dmax - 1)) d 0)
  else if destbos <? dmax then Handler HStr EOVERFLOW (Ret 0)
  else nterm_loop (Z.to_nat (dmax - 1)) d 0.

(* ---- the field copies ---- *)
(* CHK_SLEN_MAX_NOSPC_CLEAR: slen > dmax: handle_error(dest, strnlen_s(dest, dmax), ESLEMAX | ESNOSPC) *)
Definition slen_nospc_clear (c : cfg) (d dmax slen : Z) : prog Z :=
  let err := if rmax_str c <? slen then ESLEMAX else ESNOSPC in
  len <- strnlen_s_prog c d dmax BOS_UNKNOWN ;;
  handle_error c 1 d len err ;;; Ret err.
(* CHK_DEST_OVR_CLEAR / CHK_DEST_OVR on a known object size *)
Definition chk_fld (c : cfg) (clear : bool) (d dmax s slen destbos : Z) (k : unit -> prog Z) : prog Z :=
  if slen =? 0 then Ret EOK
  else if d =? 0 then fail_str ESNULLP
  else if dmax =? 0 then fail_str ESZEROL
  else
    let rest : prog Z :=
      if s =? 0 then handle_error c 1 d dmax ESNULLP ;;; Ret ESNULLP
      else if dmax <? slen then slen_nospc_clear c d dmax slen
      else k tt in
    if destbos =? BOS_UNKNOWN then (if rmax_str c <? dmax then fail_str ESLEMAX else rest)
    else if destbos <? dmax then
      (if clear then (if rmax_str c <? dmax then handle_error c 1 d destbos ESLEMAX ;;; Ret ESLEMAX else bos_overflow c d destbos)
       else (if rmax_str c <? dmax then fail_str ESLEMAX else fail_str EOVERFLOW))
    else rest.
(* the slack of a field is cleared in both configurations: if (dmax > 0x20) memset else loop *)
Definition fld_slack (d : Z) (n : nat) : prog Z :=
  if 32 <? Z.of_nat n then Fill d (Z.of_nat n) 0 (Ret EOK) else zero_loop 1 n d ;;; Ret EOK.
Section FldLoops.
  Variables (c : cfg) (fwd : bool) (od odmax bumper : Z).
  Definition ovl (d s : Z) : bool := if fwd then d =? bumper else s =? bumper.
  (* strcpyfld_s: while (slen > 0) { bumper; *dest++ = *src++; slen--; dmax--; } ; rem = dmax - copied *)
  Fixpoint fld_loop (sl : nat) (rem : nat) (d s : Z) : prog Z :=
    match sl with
    | O => fld_slack d rem
    | S sl' =>
        if ovl d s then handle_error c 1 od odmax ESOVRLP ;;; Ret ESOVRLP
        else Load 1 s (fun ch => Store 1 d ch (fld_loop sl' (Nat.pred rem) (d + 1) (s + 1)))
    end.
  (* strcpyfldin_s: while (dmax > 0 && *src) { bumper; dmax--; *dest++ = *src++; } *)
  Fixpoint fldin_loop (rem : nat) (d s : Z) : prog Z :=
    match rem with
    | O => fld_slack d O
    | S rem' => Load 1 s (fun ch =>
        if ch =? 0 then fld_slack d rem
        else if ovl d s then handle_error c 1 od odmax ESOVRLP ;;; Ret ESOVRLP
        else Load 1 s (fun ch2 => Store 1 d ch2 (fldin_loop rem' (d + 1) (s + 1))))
    end.
  (* strcpyfldout_s: while (dmax > 1 && slen) { bumper; dmax--; slen--; *dest++ = *src++; } *)
  Fixpoint fldout_loop (sl : nat) (rem : nat) (d s : Z) : prog Z :=
    match rem with
    | S (S _ as rem') =>
        match sl with
        | O => fld_slack d rem
        | S sl' =>
            if ovl d s then handle_error c 1 od odmax ESOVRLP ;;; Ret ESOVRLP
            else Load 1 s (fun ch => Store 1 d ch (fldout_loop sl' rem' (d + 1) (s + 1)))
        end
    | _ => fld_slack d rem
    end.
End FldLoops.
Definition strcpyfld_s (c : cfg) (d dmax s slen destbos : Z) : prog Z :=
  chk_fld c true d dmax s slen destbos (fun _ =>
    if d <? s then fld_loop c true d dmax s (Z.to_nat slen) (Z.to_nat dmax) d s
    else fld_loop c false d dmax d (Z.to_nat slen) (Z.to_nat dmax) d s).
Definition strcpyfldin_s (c : cfg) (d dmax s slen destbos : Z) : prog Z :=
  chk_fld c false d dmax s slen destbos (fun _ =>
    if d <? s then fldin_loop c true d dmax s (Z.to_nat dmax) d s
    else fldin_loop c false d dmax d (Z.to_nat dmax) d s).
Definition strcpyfldout_s (c : cfg) (d dmax s slen destbos : Z) : prog Z :=
  chk_fld c false d dmax s slen destbos (fun _ =>
    if d <? s then fldout_loop c true d dmax s (Z.to_nat slen) (Z.to_nat dmax) d s
    else fldout_loop c false d dmax d (Z.to_nat slen) (Z.to_nat dmax) d s).

(* ---- memccpy_s(dest, dmax, src, c, n, destbos, srcbos) (after the fix: the found character is kept) ---- *)
Fixpoint ccpy_loop (c : cfg) (ch : Z) (od odmax : Z) (rem : nat) (n : Z) (d s : Z) : prog Z :=
  match rem with
  | O => handle_mem_error od odmax ESNOSPC ;;; Ret ESNOSPC
  | S rem' =>
      if n =? 0 then Store 1 d 0 (Ret EOK)                        (* truncation *)
      else Load 1 s (fun x => Store 1 d x (
             if x =? ch then
               (if null_slack c && (1 <? n) then Fill (d + 1) (n - 1) 0 (Ret EOK) else Ret EOK)
             else ccpy_loop c ch od odmax rem' (n - 1) (d + 1) (s + 1)))
  end.
Definition memccpy_s (c : cfg) (d dmax s ch n destbos srcbos : Z) : prog Z :=
  chk_dest_mem (rmax_mem c) d dmax destbos (fun _ =>
    if n =? 0 then Store 1 d 0 (Ret EOK)
    else if s =? 0 then handle_mem_error d dmax ESNULLP ;;; Ret ESNULLP
    else if dmax <? n then
      (let err := if rmax_mem c <? n then ESLEMAX else ESNOSPC in handle_mem_error d dmax err ;;; Ret err)
    else if chk_ovrlp d dmax s n then Fill d dmax 0 (fail_mem ESOVRLP)
    else ccpy_loop c ch d dmax (Z.to_nat dmax) n d s).

(* ---- wmemcpy_s / wmemmove_s(dest, dlen, src, count, destbos, srcbos): dlen, count in wide characters ---- *)
Definition wmem_copy (c : cfg) (ovl : bool) (rmax : Z) (d dlen s count destbos srcbos : Z) : prog Z :=
  let w := wchar_w c in
  let dmax := dlen * w in let smax := count * w in
  if count =? 0 then Ret EOK
  else chk_dest_mem rmax d dmax destbos (fun _ =>
    if s =? 0 then handle_mem_error d dmax ESNULLP ;;; Ret ESNULLP
    else if dmax <? smax then
      (let err := if rmax_mem c <? smax then ESLEMAX else ESNOSPC in handle_mem_error d dmax err ;;; Ret err)
    else if negb (srcbos =? BOS_UNKNOWN) && (srcbos <? smax) then Fill d dmax 0 (fail_mem EOVERFLOW)
    else if ovl && chk_ovrlp_butsame d dmax s smax then Fill d dmax 0 (fail_mem ESOVRLP)
    else Move d s smax (Ret EOK)).
Definition wmemcpy_s (c : cfg) := wmem_copy c true (rmax_mem c).
Definition wmemmove_s (c : cfg) := wmem_copy c false (rmax_mem c / wchar_w c).

(* ---- stpcpy_s(dest, dmax, src, errp, destbos, srcbos): returns the address of the terminator, the code goes to *errp ---- *)
Definition stp_fail (errp code : Z) : prog Z := Store 4 errp code (Ret 0).
(* the success exit: slack, *errp = EOK, return the terminator address *)
Definition stp_eok (c : cfg) (truncated : bool) (errp d : Z) (rem : nat) : prog Z :=
  (if null_slack c then zero_slack c 1 d rem else if truncated then Store 1 d 0 (Ret tt) else Ret tt) ;;;
  Store 4 errp EOK (Ret d).
Section StpLoops.
  Variables (c : cfg) (fwd : bool) (od odmax bumper errp srcbos : Z) (use_slen noslack_term : bool).
  (* copied = odmax - rem (the number of characters copied so far) *)
  Fixpoint stp_loop (rem : nat) (d s sl : Z) : prog Z :=
    match rem with
    | O => handle_error c 1 od odmax ESNOSPC ;;; stp_fail errp ESNOSPC
    | S rem' =>
        if (if fwd then d =? bumper else s =? bumper) then handle_error c 1 od odmax ESOVRLP ;;; stp_fail errp ESOVRLP
        else if use_slen && (sl =? 0) then stp_eok c noslack_term errp d rem
        else Load 1 s (fun ch => Store 1 d ch (
               if ch =? 0 then stp_eok c false errp d rem
               else
                 let copied := odmax - Z.of_nat rem' in
                 if (if use_slen then (0 <? sl - 1) else true) && negb (srcbos =? BOS_UNKNOWN) && (srcbos <=? copied)
                 then handle_error c 1 od odmax ESUNTERM ;;; stp_fail errp ESUNTERM     (* after the fix: cleared like the other failing exits *)
                 else stp_loop rem' (d + 1) (s + 1) (sl - 1)))
    end.
End StpLoops.
(* dest == src: walk to the terminator *)
Fixpoint stp_walk (c : cfg) (od odmax errp : Z) (rem : nat) (d : Z) : prog Z :=
  match rem with
  | O => handle_error c 1 od odmax ESNOSPC ;;; stp_fail errp ESNOSPC
  | S rem' => Load 1 d (fun ch => if ch =? 0 then stp_eok c false errp d rem else stp_walk c od odmax errp rem' (d + 1))
  end.
Definition stpcpy_s (c : cfg) (d dmax s errp destbos srcbos : Z) : prog Z :=
  if errp =? 0 then Handler HStr ESNULLP (Ret 0)
  else if d =? 0 then Handler HStr ESNULLP (stp_fail errp ESNULLP)
  else if dmax =? 0 then Handler HStr ESNULLP (stp_fail errp ESZEROL)       (* sic: reports ESNULLP, stores ESZEROL *)
  else
    let body : prog Z :=
      if s =? 0 then handle_error c 1 d dmax ESNULLP ;;; stp_fail errp ESNULLP
      else if d =? s then stp_walk c d dmax errp (Z.to_nat dmax) d
      else if d <? s then stp_loop c true d dmax s errp srcbos false false (Z.to_nat dmax) d s 0
      else stp_loop c false d dmax d errp srcbos false false (Z.to_nat dmax) d s 0 in
    if destbos =? BOS_UNKNOWN then (if rmax_str c <? dmax then Handler HStr ESLEMAX (stp_fail errp ESLEMAX) else body)
    else if destbos <? dmax then
      (if rmax_str c <? dmax then handle_error c 1 d destbos ESLEMAX ;;; stp_fail errp ESLEMAX
       else r <- bos_overflow c d destbos ;; stp_fail errp r)
    else body.

(* _stpncpy_s_chk(dest, dmax, src, slen, errp, destbos, srcbos) (after the fix: slen counts down) *)
Definition stpncpy_s (c : cfg) (d dmax s slen errp destbos srcbos : Z) : prog Z :=
  if errp =? 0 then Handler HStr ESNULLP (Ret 0)
  else if d =? 0 then Handler HStr ESNULLP (stp_fail errp ESNULLP)
  else if dmax =? 0 then Handler HStr ESNULLP (stp_fail errp ESZEROL)
  else
    let body : prog Z :=
      if s =? 0 then handle_error c 1 d dmax ESNULLP ;;; stp_fail errp ESNULLP
      else if rmax_str c <? slen then
        (len <- strnlen_s_prog c d dmax BOS_UNKNOWN ;; handle_error c 1 d len ESLEMAX ;;; stp_fail errp ESLEMAX)
      else if negb (srcbos =? BOS_UNKNOWN) && (srcbos <? slen) then (r <- bos_overflow c d (if destbos =? BOS_UNKNOWN then dmax else destbos) ;; stp_fail errp r)
      else if d =? s then stp_walk c d dmax errp (Z.to_nat dmax) d
      else if d <? s then stp_loop c true d dmax s errp srcbos true true (Z.to_nat dmax) d s slen
      else stp_loop c false d dmax d errp srcbos true true (Z.to_nat dmax) d s slen in
    if destbos =? BOS_UNKNOWN then (if rmax_str c <? dmax then Handler HStr ESLEMAX (stp_fail errp ESLEMAX) else body)
    else if destbos <? dmax then
      (if rmax_str c <? dmax then handle_error c 1 d destbos ESLEMAX ;;; stp_fail errp ESLEMAX
       else r <- bos_overflow c d destbos ;; stp_fail errp r)
    else body.
