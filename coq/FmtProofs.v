(* FmtProofs.v -- C09 theorems about FmtScan.v *)
From Coq Require Import List ZArith Lia Bool.
From SC Require Import FmtScan.
Import ListNotations.
Local Open Scope Z_scope.

(* (A) the engine never stores through an argument: its action alphabet has no such action; what is
   to prove is that a directive with conversion n is an error, whatever flags/width/length precede it *)
Lemma engine_n_is_error : forall mods rest, forallb engine_mod mods = true ->
  engine_walk true (mods ++ CH_n :: rest) = [EErr].
Proof.
  induction mods as [|m mods IH]; intros rest H; cbn.
  - reflexivity.
  - cbn in H. apply andb_prop in H. destruct H as [Hm H]. rewrite Hm. apply IH. exact H.
Qed.

(* (B) the pre-scan is not sound for the whole format language *)
Lemma prescan_unsound_printf : exists fmt, prescan_accepts fmt = true /\ has_n false fmt = true.
Proof. exists [PCT; 108; CH_n]. split; reflexivity. Qed.                    (* "%ln" *)
Lemma prescan_unsound_escaped : prescan_accepts [PCT; PCT; PCT; CH_n] = true /\ has_n false [PCT; PCT; PCT; CH_n] = true.
Proof. split; reflexivity. Qed.                                                (* "%%%n" *)
Lemma prescan_unsound_width : prescan_accepts [PCT; 53; CH_n] = true /\ has_n true [PCT; 53; CH_n] = true.
Proof. split; reflexivity. Qed.                                                (* "%5n" *)
Lemma prescan_unsound_second : prescan_accepts [PCT; PCT; CH_n; 32; PCT; CH_n] = true /\ has_n false [PCT; PCT; CH_n; 32; PCT; CH_n] = true.
Proof. split; reflexivity. Qed.                                                (* "%%n %n": only the first occurrence is examined *)

(* ... and sound on simple formats *)
Lemma find_pn_none_no_adjacent : forall l i, find_pn l i = None ->
  forall k, nth k l 0 = PCT -> nth (S k) l 0 = CH_n -> (S k < length l)%nat -> False.
Proof.
  induction l as [|a t IH]; intros i H k Ha Hb Hk; [cbn in Hk; lia|].
  cbn [find_pn] in H. destruct t as [|b t']; [cbn in Hk; lia|].
  destruct ((a =? PCT) && (b =? CH_n)) eqn:E; [discriminate|].
  destruct k as [|k].
  - cbn in Ha, Hb. subst. unfold PCT, CH_n in E. cbn in E. discriminate.
  - apply (IH (S i) H k); auto. cbn in Hk. cbn. lia.
Qed.

Lemma find_pn_some_spec : forall l i j, find_pn l i = Some j ->
  (i <= j)%nat /\ nth (j - i) l 0 = PCT /\ nth (S (j - i)) l 0 = CH_n.
Proof.
  induction l as [|a t IH]; intros i j H; [discriminate|].
  cbn [find_pn] in H. destruct t as [|b t']; [discriminate|].
  destruct ((a =? PCT) && (b =? CH_n)) eqn:E.
  - inversion H; subst. apply andb_prop in E. destruct E as [E1 E2]. apply Z.eqb_eq in E1, E2.
    replace (j - j)%nat with O by lia. cbn. auto.
  - destruct (IH (S i) j H) as (Hle & H1 & H2). split; [lia|].
    replace (j - i)%nat with (S (j - S i)) by lia. cbn [nth]. auto.
Qed.

(* in a simple format the conversions are exactly the characters that follow a '%' *)
Lemma simple_convs_n : forall scanf l, simple scanf l = true ->
  existsb (fun d => (fst d =? CH_n) && negb (snd d)) (convs scanf SLit l) = true ->
  exists k, nth k l 0 = PCT /\ nth (S k) l 0 = CH_n /\ (S k < length l)%nat.
Proof.
  intros scanf. induction l as [|a t IH]; intros Hs Hn; [cbn in Hn; discriminate|].
  cbn [simple] in Hs. apply andb_prop in Hs. destruct Hs as [Ha Hs].
  cbn [convs] in Hn. destruct (a =? PCT) eqn:Ea.
  - destruct t as [|b t']; [discriminate|].
    apply andb_prop in Ha. destruct Ha as [Ha Hb3]. apply andb_prop in Ha. destruct Ha as [Hb1 Hb2].
    apply negb_true_iff in Hb1, Hb2, Hb3. cbn [convs] in Hn. rewrite Hb1 in Hn. rewrite Hb3 in Hn.
    cbn [existsb fst snd negb] in Hn. apply orb_prop in Hn. destruct Hn as [Hn|Hn].
    + apply Z.eqb_eq in Ea. rewrite andb_true_r in Hn. apply Z.eqb_eq in Hn. exists O. cbn. repeat split; auto; lia.
    + (* the rest: continue after the conversion character b; b is not '%' so it starts nothing *)
      cbn [simple] in Hs. apply andb_prop in Hs. destruct Hs as [_ Hs'].
      assert (Hc : convs scanf SLit (b :: t') = convs scanf SLit t').
      { cbn [convs]. rewrite Hb2. reflexivity. }
      destruct (IH ltac:(cbn [simple]; rewrite Hb2; cbn; exact Hs') ltac:(rewrite Hc; exact Hn)) as (k & H1 & H2 & H3).
      exists (S k). cbn. repeat split; auto. cbn in H3. lia.
  - destruct (IH Hs Hn) as (k & H1 & H2 & H3). exists (S k). cbn. repeat split; auto. lia.
Qed.

Lemma simple_no_double_pct : forall scanf l k, simple scanf l = true -> nth k l 0 = PCT -> nth (S k) l 0 = PCT -> (S k < length l)%nat -> False.
Proof.
  intros scanf. induction l as [|a t IH]; intros k Hs H1 H2 Hk; [cbn in Hk; lia|].
  cbn [simple] in Hs. apply andb_prop in Hs. destruct Hs as [Ha Hs]. destruct k as [|k].
  - cbn in H1, H2. subst a. destruct t as [|b t']; [cbn in Hk; lia|]. cbn in H2. subst b.
    unfold PCT in Ha. cbn in Ha. rewrite !andb_false_r in Ha. cbn in Ha. discriminate.
  - apply (IH k Hs); auto. cbn in Hk. lia.
Qed.

Theorem prescan_sound_on_simple : forall scanf fmt, simple scanf fmt = true ->
  prescan_accepts fmt = true -> has_n scanf fmt = false.
Proof.
  intros scanf fmt Hs Ha. destruct (has_n scanf fmt) eqn:Hn; [|reflexivity]. exfalso.
  unfold has_n in Hn. destruct (simple_convs_n scanf fmt Hs Hn) as (k & H1 & H2 & H3).
  unfold prescan_accepts in Ha. destruct (find_pn fmt 0) as [j|] eqn:Ef.
  - destruct (find_pn_some_spec fmt 0 j Ef) as (_ & J1 & J2). rewrite Nat.sub_0_r in J1, J2.
    destruct j as [|j]; [discriminate|]. apply Z.eqb_eq in Ha.
    (* '%' at j and at j+1: impossible in a simple format *)
    assert (S j < length fmt)%nat.
    { destruct (Nat.lt_ge_cases (S j) (length fmt)); auto. rewrite nth_overflow in J1 by lia. unfold PCT in J1. discriminate. }
    apply (simple_no_double_pct scanf fmt j Hs Ha J1 H).
  - apply (find_pn_none_no_adjacent fmt 0 Ef k H1 H2 H3).
Qed.
Corollary C09_ok_on_simple : forall scanf fmt, simple scanf fmt = true -> C09_ok scanf fmt = true.
Proof.
  intros scanf fmt Hs. unfold C09_ok, delegating_entry. destruct (prescan_accepts fmt) eqn:E; [|reflexivity].
  rewrite (prescan_sound_on_simple scanf fmt Hs E). reflexivity.
Qed.
(* a rejected format is never passed on, whatever it contains *)
Lemma rejected_is_safe : forall scanf fmt, prescan_accepts fmt = false -> C09_ok scanf fmt = true.
Proof. intros scanf fmt H. unfold C09_ok, delegating_entry. rewrite H. reflexivity. Qed.
