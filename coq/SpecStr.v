(* SpecStr.v -- functional specifications (wp) of the copy / concatenate models. *)
From Coq Require Import List ZArith Lia Bool.
From SC Require Import Base Wp Cfg Comb CombProofs CopySpec ModStr.
Import ListNotations.
Local Open Scope Z_scope.
Local Open Scope prog_scope.

(* dest and dmax are usable: what C03/C04 call "dest non-null, 0 < dmax within the object and the RSIZE limit" *)
Definition usable (rmax bytes_per : Z) (dmax destbos : Z) : Prop :=
  1 <= dmax /\ ((destbos = BOS_UNKNOWN /\ dmax <= rmax) \/ (destbos <> BOS_UNKNOWN /\ dmax * bytes_per <= destbos)).

Lemma chk_dest_str_wp c d dmax destbos (k : unit -> prog Z) m Q :
  d <> 0 -> usable (rmax_str c) 1 dmax destbos -> wp (k tt) m Q -> wp (chk_dest_str c d dmax destbos k) m Q.
Proof.
  intros Hd (H1 & Hu) Hk. unfold chk_dest_str.
  replace (d =? 0) with false by (symmetry; apply Z.eqb_neq; lia).
  replace (dmax =? 0) with false by (symmetry; apply Z.eqb_neq; lia).
  destruct Hu as [[-> Hr]|[Hn Hr]].
  - rewrite Z.eqb_refl. replace (rmax_str c <? dmax) with false by (symmetry; apply Z.ltb_ge; lia). exact Hk.
  - replace (destbos =? BOS_UNKNOWN) with false by (symmetry; apply Z.eqb_neq; lia).
    replace (destbos <? dmax) with false by (symmetry; apply Z.ltb_ge; lia). exact Hk.
Qed.
Lemma chk_dest_wstr_wp c d dmax destbos (k : unit -> prog Z) m Q :
  d <> 0 -> usable (rmax_wstr c) (wchar_w c) dmax destbos -> wp (k tt) m Q -> wp (chk_dest_wstr c d dmax destbos k) m Q.
Proof.
  intros Hd (H1 & Hu) Hk. unfold chk_dest_wstr.
  replace (d =? 0) with false by (symmetry; apply Z.eqb_neq; lia).
  replace (dmax =? 0) with false by (symmetry; apply Z.eqb_neq; lia).
  destruct Hu as [[-> Hr]|[Hn Hr]].
  - rewrite Z.eqb_refl. replace (rmax_wstr c <? dmax) with false by (symmetry; apply Z.ltb_ge; lia). exact Hk.
  - replace (destbos =? BOS_UNKNOWN) with false by (symmetry; apply Z.eqb_neq; lia).
    replace (destbos <? dmax * wchar_w c) with false by (symmetry; apply Z.ltb_ge; lia). exact Hk.
Qed.

(* a string of L elements of width w at s *)
Definition is_str (w : Z) (m : mem) (s L : Z) : Prop :=
  0 <= L /\ (forall j, 0 <= j < L -> load m w (s + j * w) <> 0) /\ load m w (s + L * w) = 0.

(* the two-directional copy shared by strcpy_s / wcscpy_s / strncpy_s after the entry checks *)
Definition copy_body (c : cfg) (w d dmax s : Z) (use_slen : bool) (slen : Z) : prog Z :=
  if d <? s then copy_loop c w true d dmax s use_slen (Z.to_nat dmax) d s slen
  else copy_loop c w false d dmax d use_slen (Z.to_nat dmax) d s slen.

(* outcome of a copy of a source ending at index t, operands g elements apart *)
Definition copy_outcome (c : cfg) (w d dmax s g t : Z) (m : mem) (r : Z) (m' : mem) : Prop :=
  loop_post c w d dmax (Z.to_nat dmax) d s g t m r m'.

Lemma copy_body_spec c w d dmax s use_slen slen g t m :
  0 < w -> 1 <= dmax -> wf_mem m -> d <> s -> Z.abs (s - d) = g * w ->
  src_ends w use_slen m s slen t ->
  wp (copy_body c w d dmax s use_slen slen) m (copy_outcome c w d dmax s g t m).
Proof.
  intros Hw H1 Hm Hne Hg Hsrc. unfold copy_body, copy_outcome.
  assert (0 <= g) by nia.
  destruct (d <? s) eqn:E.
  - apply Z.ltb_lt in E. apply copy_loop_spec; auto. unfold sep. split; [lia|]. split; lia.
  - apply Z.ltb_ge in E. apply copy_loop_spec; auto. unfold sep. split; [lia|]. split; lia.
Qed.

(* ---------------- strcpy_s / wcscpy_s ---------------- *)
Theorem strcpy_s_spec c d dmax s destbos m L :
  wf_mem m -> d <> 0 -> s <> 0 -> d <> s -> usable (rmax_str c) 1 dmax destbos -> is_str 1 m s L ->
  wp (strcpy_s c d dmax s destbos) m (copy_outcome c 1 d dmax s (Z.abs (s - d)) L m).
Proof.
  intros Hm Hd Hs Hne Hu (HL & Hnz & Hz). unfold strcpy_s. apply chk_dest_str_wp; auto.
  replace (s =? 0) with false by (symmetry; apply Z.eqb_neq; lia).
  replace (d =? s) with false by (symmetry; apply Z.eqb_neq; lia).
  destruct Hu as [H1 _].
  apply (copy_body_spec c 1 d dmax s false 0 (Z.abs (s - d)) L m); auto; try lia.
  unfold src_ends. repeat split; auto. discriminate.
Qed.

Theorem wcscpy_s_spec c d dmax s destbos m L g :
  wf_cfg c -> wf_mem m -> d <> 0 -> s <> 0 -> d <> s -> Z.abs (s - d) = g * wchar_w c ->
  usable (rmax_wstr c) (wchar_w c) dmax destbos -> is_str (wchar_w c) m s L ->
  wp (wcscpy_s c d dmax s destbos) m (copy_outcome c (wchar_w c) d dmax s g L m).
Proof.
  intros Hc Hm Hd Hs Hne Hg Hu (HL & Hnz & Hz).
  assert (Hw : 0 < wchar_w c) by (destruct Hc as (_&_&_&_&_&_&[->| ->]&_); lia).
  unfold wcscpy_s. apply chk_dest_wstr_wp; auto.
  replace (s =? 0) with false by (symmetry; apply Z.eqb_neq; lia).
  replace (d =? s) with false by (symmetry; apply Z.eqb_neq; lia).
  destruct Hu as [H1 _].
  apply (copy_body_spec c (wchar_w c) d dmax s false 0 g L m); auto.
  unfold src_ends. repeat split; auto. discriminate.
Qed.

(* ---------------- strncpy_s ---------------- *)
(* the source, limited by slen: ends at t = its terminator if t <= slen, else at slen *)
Theorem strncpy_s_spec c d dmax s slen destbos srcbos m t :
  wf_mem m -> d <> 0 -> s <> 0 -> d <> s -> usable (rmax_str c) 1 dmax destbos ->
  1 <= slen <= rmax_str c -> (srcbos = BOS_UNKNOWN \/ slen <= srcbos) ->
  src_ends 1 true m s slen t ->
  wp (strncpy_s c d dmax s slen destbos srcbos) m (copy_outcome c 1 d dmax s (Z.abs (s - d)) t m).
Proof.
  intros Hm Hd Hs Hne Hu Hsl Hsb Hsrc. unfold strncpy_s.
  replace (slen =? 0) with false by (symmetry; apply Z.eqb_neq; lia). cbn [andb].
  apply chk_dest_str_wp; auto.
  replace (s =? 0) with false by (symmetry; apply Z.eqb_neq; lia).
  replace (rmax_str c <? slen) with false by (symmetry; apply Z.ltb_ge; lia).
  replace (negb (srcbos =? BOS_UNKNOWN) && (srcbos <? slen)) with false.
  2:{ symmetry. destruct Hsb as [->|Hsb]; [rewrite Z.eqb_refl; reflexivity|].
      replace (srcbos <? slen) with false by (symmetry; apply Z.ltb_ge; lia). apply andb_false_r. }
  destruct Hu as [H1 _].
  apply (copy_body_spec c 1 d dmax s true slen (Z.abs (s - d)) t m); auto; lia.
Qed.

(* ---------------- strcat_s / strncat_s ---------------- *)
Definition cat_body (c : cfg) (d dmax s : Z) (use_slen : bool) (slen : Z) : prog Z :=
  if d <? s then
    find_end c 1 true d dmax s (Z.to_nat dmax) d (fun n d' => copy_loop c 1 true d dmax s use_slen n d' s slen)
  else
    find_end c 1 false d dmax d (Z.to_nat dmax) d (fun n d' => copy_loop c 1 false d dmax d use_slen n d' s slen).

(* outcome of appending a source ending at t to a dest string of P elements; g = |s - d| *)
Definition cat_outcome (c : cfg) (d dmax s g P t : Z) (m : mem) (r : Z) (m' : mem) : Prop :=
  if d <? s then
    (g <= P -> r = ESOVRLP /\ cleared c 1 m' d dmax) /\
    (P < g -> loop_post c 1 d dmax (Z.to_nat dmax - Z.to_nat P) (d + P) s (g - P) t m r m')
  else loop_post c 1 d dmax (Z.to_nat dmax - Z.to_nat P) (d + P) s g t m r m'.

Lemma cat_body_spec c d dmax s use_slen slen P t m :
  1 <= dmax -> wf_mem m -> d <> s -> is_str 1 m d P -> P < dmax ->
  src_ends 1 use_slen m s slen t ->
  wp (cat_body c d dmax s use_slen slen) m (cat_outcome c d dmax s (Z.abs (s - d)) P t m).
Proof.
  intros H1 Hm Hne (HP & Hdnz & Hdz) HPd Hsrc. unfold cat_body, cat_outcome.
  destruct (d <? s) eqn:E.
  - apply Z.ltb_lt in E. replace (Z.abs (s - d)) with (s - d) by lia.
    destruct (Z_le_dec (s - d) P) as [Hov|Hov].
    + (* the dest string reaches the source *)
      destruct (Z.eq_dec (s - d) P) as [Heq|Hneq].
      * (* its terminator is the first source element: the copy loop starts at the bumper *)
        apply (find_end_ok c 1 true d dmax s (Z.to_nat dmax) d P m _ _ HP ltac:(lia) Hdnz Hdz ltac:(intros _ j Hj; lia)).
        rewrite Z.mul_1_r. eapply wp_weaken; [|apply (copy_ovrlp c 1 true d dmax s use_slen ltac:(lia) ltac:(lia) _ (d + P) s slen 0 m); auto].
        -- intros r m' [Hr Hc]. split; [intros _; split; auto|intros; lia].
        -- unfold sep. split; [lia|]. split; lia.
        -- lia.
        -- intros j Hj; lia.
        -- destruct Hsrc as (Ht & _ & Hsl & _). intros Eu. specialize (Hsl Eu). lia.
      * eapply wp_weaken; [|apply (find_end_ovrlp c 1 true d dmax s ltac:(lia) ltac:(lia) (Z.to_nat dmax) d (s - d) m); auto; try lia].
        -- intros r m' [Hr Hc]. split; [intros _; split; auto|intros; lia].
        -- intros j Hj. apply Hdnz. lia.
    + apply (find_end_ok c 1 true d dmax s (Z.to_nat dmax) d P m _ _ HP ltac:(lia) Hdnz Hdz ltac:(intros _ j Hj; lia)).
      rewrite Z.mul_1_r. eapply wp_weaken; [|apply (copy_loop_spec c 1 true d dmax s use_slen ltac:(lia) ltac:(lia) _ (d + P) s slen (s - d - P) t m); auto].
      * intros r m' H. split; [intros; lia|intros _; exact H].
      * unfold sep. split; [lia|]. split; lia.
  - apply Z.ltb_ge in E. replace (Z.abs (s - d)) with (d - s) by lia.
    apply (find_end_ok c 1 false d dmax d (Z.to_nat dmax) d P m _ _ HP ltac:(lia) Hdnz Hdz ltac:(intros Hf; discriminate)).
    rewrite Z.mul_1_r. apply (copy_loop_spec c 1 false d dmax d use_slen ltac:(lia) ltac:(lia) _ (d + P) s slen (d - s) t m); auto.
    unfold sep. split; [lia|]. split; lia.
Qed.

Theorem strcat_s_spec c d dmax s destbos m P L :
  wf_mem m -> d <> 0 -> s <> 0 -> d <> s -> usable (rmax_str c) 1 dmax destbos ->
  is_str 1 m d P -> P < dmax -> is_str 1 m s L ->
  wp (strcat_s c d dmax s destbos) m (cat_outcome c d dmax s (Z.abs (s - d)) P L m).
Proof.
  intros Hm Hd Hs Hne Hu HP HPd (HL & Hnz & Hz). unfold strcat_s. apply chk_dest_str_wp; auto.
  replace (s =? 0) with false by (symmetry; apply Z.eqb_neq; lia).
  destruct Hu as [H1 _].
  apply (cat_body_spec c d dmax s false 0 P L m); auto.
  unfold src_ends. repeat split; auto. discriminate.
Qed.

Theorem strncat_s_spec c d dmax s slen destbos srcbos m P t :
  wf_mem m -> d <> 0 -> s <> 0 -> d <> s -> usable (rmax_str c) 1 dmax destbos ->
  1 <= slen <= rmax_str c -> (srcbos = BOS_UNKNOWN \/ slen <= srcbos) ->
  is_str 1 m d P -> P < dmax -> src_ends 1 true m s slen t ->
  wp (strncat_s c d dmax s slen destbos srcbos) m (cat_outcome c d dmax s (Z.abs (s - d)) P t m).
Proof.
  intros Hm Hd Hs Hne Hu Hsl Hsb HP HPd Hsrc. unfold strncat_s.
  replace (slen =? 0) with false by (symmetry; apply Z.eqb_neq; lia). cbn [andb].
  apply chk_dest_str_wp; auto.
  replace (s =? 0) with false by (symmetry; apply Z.eqb_neq; lia).
  replace (rmax_str c <? slen) with false by (symmetry; apply Z.ltb_ge; lia).
  replace (negb (srcbos =? BOS_UNKNOWN) && (srcbos <? slen)) with false.
  2:{ symmetry. destruct Hsb as [->|Hsb]; [rewrite Z.eqb_refl; reflexivity|].
      replace (srcbos <? slen) with false by (symmetry; apply Z.ltb_ge; lia). apply andb_false_r. }
  destruct Hu as [H1 _].
  apply (cat_body_spec c d dmax s true slen P t m); auto.
Qed.

(* ====================== C02: read footprints of the valid calls ====================== *)
Lemma chk_dest_str_reads c d dmax destbos (k : unit -> prog Z) (R : Z -> Prop) m :
  d <> 0 -> usable (rmax_str c) 1 dmax destbos -> reads_ok R (k tt) m -> reads_ok R (chk_dest_str c d dmax destbos k) m.
Proof.
  intros Hd (H1 & Hu) Hk. unfold chk_dest_str.
  replace (d =? 0) with false by (symmetry; apply Z.eqb_neq; lia).
  replace (dmax =? 0) with false by (symmetry; apply Z.eqb_neq; lia).
  destruct Hu as [[-> Hr]|[Hn Hr]].
  - rewrite Z.eqb_refl. replace (rmax_str c <? dmax) with false by (symmetry; apply Z.ltb_ge; lia). exact Hk.
  - replace (destbos =? BOS_UNKNOWN) with false by (symmetry; apply Z.eqb_neq; lia).
    replace (destbos <? dmax) with false by (symmetry; apply Z.ltb_ge; lia). exact Hk.
Qed.

Lemma copy_body_reads c w d dmax s use_slen slen g t m :
  0 < w -> wf_mem m -> d <> s -> Z.abs (s - d) = g * w -> src_ends w use_slen m s slen t ->
  reads_ok (ext s (rd_count use_slen slen t * w)) (copy_body c w d dmax s use_slen slen) m.
Proof.
  intros Hw Hm Hne Hg (Ht & Hnz & Hsl & Hterm). unfold copy_body. assert (0 <= g) by nia.
  destruct (d <? s) eqn:E; [apply Z.ltb_lt in E|apply Z.ltb_ge in E];
    (apply (copy_reads c w _ d dmax _ use_slen Hw (Z.to_nat dmax) d s slen g t m); auto;
     [unfold sep; split; [lia|split; lia]]).
Qed.

Theorem strcpy_s_reads c d dmax s destbos m L :
  wf_mem m -> d <> 0 -> s <> 0 -> d <> s -> usable (rmax_str c) 1 dmax destbos -> is_str 1 m s L ->
  reads_ok (ext s (L + 1)) (strcpy_s c d dmax s destbos) m.
Proof.
  intros Hm Hd Hs Hne Hu (HL & Hnz & Hz). unfold strcpy_s. apply chk_dest_str_reads; auto.
  replace (s =? 0) with false by (symmetry; apply Z.eqb_neq; lia).
  replace (d =? s) with false by (symmetry; apply Z.eqb_neq; lia).
  eapply reads_ok_weaken; [|apply (copy_body_reads c 1 d dmax s false 0 (Z.abs (s - d)) L m); auto; try lia].
  - intros a. unfold rd_count, ext. cbn. lia.
  - unfold src_ends. repeat split; auto. discriminate.
Qed.

Theorem strncpy_s_reads c d dmax s slen destbos srcbos m t :
  wf_mem m -> d <> 0 -> s <> 0 -> d <> s -> usable (rmax_str c) 1 dmax destbos ->
  1 <= slen <= rmax_str c -> (srcbos = BOS_UNKNOWN \/ slen <= srcbos) -> src_ends 1 true m s slen t ->
  reads_ok (ext s (Z.min slen (t + 1))) (strncpy_s c d dmax s slen destbos srcbos) m.
Proof.
  intros Hm Hd Hs Hne Hu Hsl Hsb Hsrc. unfold strncpy_s.
  replace (slen =? 0) with false by (symmetry; apply Z.eqb_neq; lia). cbn [andb].
  apply chk_dest_str_reads; auto.
  replace (s =? 0) with false by (symmetry; apply Z.eqb_neq; lia).
  replace (rmax_str c <? slen) with false by (symmetry; apply Z.ltb_ge; lia).
  replace (negb (srcbos =? BOS_UNKNOWN) && (srcbos <? slen)) with false.
  2:{ symmetry. destruct Hsb as [->|Hsb]; [rewrite Z.eqb_refl; reflexivity|].
      replace (srcbos <? slen) with false by (symmetry; apply Z.ltb_ge; lia). apply andb_false_r. }
  eapply reads_ok_weaken; [|apply (copy_body_reads c 1 d dmax s true slen (Z.abs (s - d)) t m); auto; lia].
  intros a. unfold rd_count, ext. cbn [andb]. destruct Hsrc as (Ht & _ & Hle & _). specialize (Hle eq_refl).
  destruct (Z.eqb_spec slen t); lia.
Qed.

(* the concatenate family on a terminated dest that the scan does not run into the source *)
Lemma cat_body_reads c d dmax s use_slen slen P t m :
  1 <= dmax -> wf_mem m -> d <> s -> is_str 1 m d P -> P < dmax -> (d < s -> P < s - d) ->
  src_ends 1 use_slen m s slen t ->
  reads_ok (fun a => ext d (P + 1) a \/ ext s (rd_count use_slen slen t) a) (cat_body c d dmax s use_slen slen) m.
Proof.
  intros H1 Hm Hne (HP & Hdnz & Hdz) HPd Hgap (Ht & Hnz & Hsl & Hterm). unfold cat_body.
  destruct (d <? s) eqn:E; [apply Z.ltb_lt in E|apply Z.ltb_ge in E].
  - apply (find_end_reads_ok c 1 true d dmax s ltac:(lia) _ _ (Z.to_nat dmax) d P m HP ltac:(lia) Hdnz Hdz).
    + intros _ j Hj. specialize (Hgap E). lia.
    + intros a Ha. left. rewrite Z.mul_1_r in Ha. exact Ha.
    + eapply reads_ok_weaken; [|apply (copy_reads c 1 true d dmax s use_slen ltac:(lia) _ (d + P * 1) s slen (s - d - P) t m); auto].
      * intros a Ha. right. rewrite Z.mul_1_r in Ha. exact Ha.
      * specialize (Hgap E). unfold sep. split; [lia|]. split; lia.
  - apply (find_end_reads_ok c 1 false d dmax d ltac:(lia) _ _ (Z.to_nat dmax) d P m HP ltac:(lia) Hdnz Hdz).
    + intros Hf; discriminate.
    + intros a Ha. left. rewrite Z.mul_1_r in Ha. exact Ha.
    + eapply reads_ok_weaken; [|apply (copy_reads c 1 false d dmax d use_slen ltac:(lia) _ (d + P * 1) s slen (d - s) t m); auto].
      * intros a Ha. right. rewrite Z.mul_1_r in Ha. exact Ha.
      * unfold sep. split; [lia|]. split; lia.
Qed.

Theorem strcat_s_reads c d dmax s destbos m P L :
  wf_mem m -> d <> 0 -> s <> 0 -> d <> s -> usable (rmax_str c) 1 dmax destbos ->
  is_str 1 m d P -> P < dmax -> (d < s -> P < s - d) -> is_str 1 m s L ->
  reads_ok (fun a => ext d (P + 1) a \/ ext s (L + 1) a) (strcat_s c d dmax s destbos) m.
Proof.
  intros Hm Hd Hs Hne Hu HP HPd Hgap (HL & Hnz & Hz). unfold strcat_s. apply chk_dest_str_reads; auto.
  replace (s =? 0) with false by (symmetry; apply Z.eqb_neq; lia). destruct Hu as [H1 _].
  eapply reads_ok_weaken; [|apply (cat_body_reads c d dmax s false 0 P L m); auto].
  - intros a [Ha|Ha]; [left; exact Ha|right]. revert Ha. unfold rd_count, ext. cbn. lia.
  - unfold src_ends. repeat split; auto. discriminate.
Qed.

Theorem strncat_s_reads c d dmax s slen destbos srcbos m P t :
  wf_mem m -> d <> 0 -> s <> 0 -> d <> s -> usable (rmax_str c) 1 dmax destbos ->
  1 <= slen <= rmax_str c -> (srcbos = BOS_UNKNOWN \/ slen <= srcbos) ->
  is_str 1 m d P -> P < dmax -> (d < s -> P < s - d) -> src_ends 1 true m s slen t ->
  reads_ok (fun a => ext d (P + 1) a \/ ext s (Z.min slen (t + 1)) a) (strncat_s c d dmax s slen destbos srcbos) m.
Proof.
  intros Hm Hd Hs Hne Hu Hsl Hsb HP HPd Hgap Hsrc. unfold strncat_s.
  replace (slen =? 0) with false by (symmetry; apply Z.eqb_neq; lia). cbn [andb].
  apply chk_dest_str_reads; auto.
  replace (s =? 0) with false by (symmetry; apply Z.eqb_neq; lia).
  replace (rmax_str c <? slen) with false by (symmetry; apply Z.ltb_ge; lia).
  replace (negb (srcbos =? BOS_UNKNOWN) && (srcbos <? slen)) with false.
  2:{ symmetry. destruct Hsb as [->|Hsb]; [rewrite Z.eqb_refl; reflexivity|].
      replace (srcbos <? slen) with false by (symmetry; apply Z.ltb_ge; lia). apply andb_false_r. }
  destruct Hu as [H1 _].
  eapply reads_ok_weaken; [|apply (cat_body_reads c d dmax s true slen P t m); auto].
  intros a [Ha|Ha]; [left; exact Ha|right]. revert Ha. unfold rd_count, ext. cbn [andb].
  destruct Hsrc as (Ht & _ & Hle & _). specialize (Hle eq_refl). destruct (Z.eqb_spec slen t); lia.
Qed.
